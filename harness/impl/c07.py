"""In-process adapter for C07: runs mesonbuild.options.OptionStore (and friends) on cases
read from stdin (JSON) and prints canonical result strings (same encoding as
coq/Options/Entry.v).  Also hosts the oracle: the property's own clauses evaluated on
the implementation's answers (no model involved)."""
import sys, json, os, io

_real_stdout = sys.stdout
sys.stdout = io.StringIO()          # mlog prints warnings/deprecations to stdout

from mesonbuild import options as O
from mesonbuild import mlog
from mesonbuild.mesonlib import MesonException, MachineChoice
from mesonbuild.options import OptionKey

S1, S2, S3, S4, S5 = '\x01', '\x02', '\x03', '\x04', '\x05'


def prefixed_items(sep, s):
    return s.split(sep)[1:]


def dec_int(s):
    return -int(s[1:] or '0') if s.startswith('-') else int(s or '0')


def dec_key(s):
    p = s.split(S4)
    if len(p) != 3:
        return OptionKey(s)
    su, m, n = p
    return OptionKey(n, su[1:] if su.startswith('=') else None, MachineChoice.BUILD if m == 'B' else MachineChoice.HOST)


def dec_value(s):
    if s[:1] == 'S':
        return s[1:]
    if s == 'T':
        return True
    if s == 'F':
        return False
    if s[:1] == 'I':
        return dec_int(s[1:])
    if s[:1] == 'L':
        return prefixed_items(S4, s[1:])
    return s


def dec_dict(s):
    d = {}
    for e in prefixed_items(S2, s):
        k, v = e.split(S3)
        d[dec_key(k)] = dec_value(v)
    return d


def enc_key(k):
    return ('-' if k.subproject is None else '=' + k.subproject) + S4 + ('B' if k.machine is MachineChoice.BUILD else 'H') + S4 + k.name


def enc_value(v):
    if isinstance(v, bool):
        return 'T' if v else 'F'
    if isinstance(v, str):
        return 'S' + v
    if isinstance(v, int):
        return 'I' + str(int(v))
    if isinstance(v, list) and all(isinstance(x, str) for x in v):
        return 'L' + ''.join(S4 + x for x in v)
    if v is None:
        return 'N'
    return '?' + type(v).__name__


def enc_oint(x):
    return '-' if x is None else str(x)


def enc_kind_of(o):
    t = type(o)
    if t is O.UserStringOption:
        return 's'
    if t is O.UserBooleanOption:
        return 'b'
    if t is O.UserIntegerOption:
        return 'i' + enc_oint(o.min_value) + S4 + enc_oint(o.max_value)
    if t is O.UserComboOption:
        return 'c' + ''.join(S5 + c for c in o.choices)
    if t is O.UserStringArrayOption:
        return 'a-' if o.choices is None else 'a=' + ''.join(S5 + c for c in o.choices)
    if t is O.UserFeatureOption:
        return 'f'
    return 'x' + t.__name__


def make_option(name, kd, v, y, ro, d):
    value = dec_value(v)
    yielding = y == 'T'
    readonly = ro == 'T'
    if d[:1] == 'y':
        dep = True
    elif d[:1] == 'l':
        dep = prefixed_items(S5, d[1:])
    elif d[:1] == 'm':
        dep = dict(p.split(S4) for p in prefixed_items(S5, d[1:]))
    elif d[:1] == 'r':
        dep = d[1:]
    else:
        dep = False
    kw = dict(yielding=yielding, deprecated=dep, readonly=readonly)
    c = kd[:1]
    if c == 's':
        return O.UserStringOption(name, 'd', value, **kw)
    if c == 'b':
        return O.UserBooleanOption(name, 'd', value, **kw)
    if c == 'i':
        a, b = kd[1:].split(S4)
        return O.UserIntegerOption(name, 'd', value, min_value=None if a == '-' else dec_int(a),
                                   max_value=None if b == '-' else dec_int(b), **kw)
    if c == 'c':
        return O.UserComboOption(name, 'd', value, choices=prefixed_items(S5, kd[1:]), **kw)
    if c == 'a':
        ch = None if kd[1:2] == '-' else prefixed_items(S5, kd[2:])
        return O.UserStringArrayOption(name, 'd', value, choices=ch, **kw)
    if c == 'f':
        return O.UserFeatureOption(name, 'd', value, **kw)
    raise RuntimeError('bad kind ' + kd)


SKIP_NAMES = {'install_umask'}       # UserUmaskOption: not modelled


def enc_dump(st):
    def optline(k, o):
        return S3.join([enc_key(k), enc_kind_of(o), enc_value(o.value), enc_value(o.default),
                        'T' if o.yielding else 'F', 'T' if o.readonly else 'F'])
    lines = ['D'] + sorted(optline(k, o) for k, o in st.options.items() if k.name not in SKIP_NAMES)
    lines += ['|aug'] + sorted(enc_key(k) + S3 + enc_value(v) for k, v in st.augments.items())
    lines += ['|pend'] + sorted(enc_key(k) + S3 + enc_value(v) for k, v in st.pending_options.items())
    lines += ['|psub'] + sorted(enc_key(k) + S3 + enc_value(v) for k, v in st.pending_subproject_options.items())
    lines += ['|proj'] + sorted(enc_key(k) for k in st.project_options)
    lines += ['|mod'] + sorted(enc_key(k) for k in st.module_options)
    lines += ['|subp'] + sorted(st.subprojects)
    return S2.join(lines)


def exc_name(e):
    if isinstance(e, MesonException):
        return 'EXC:MesonException'
    return 'EXC:' + type(e).__name__


def new_store(hdr):
    b, c, _libdir = hdr.split(S1)
    st = O.OptionStore(c == 'T')
    if b == 'B':
        st.init_builtins()
    return st


# ---- independent statement of "satisfies type, choices and range" (for the stored-value clause)
def stored_ok(o):
    v = o.value
    t = type(o)
    if t is O.UserStringOption:
        return isinstance(v, str)
    if t is O.UserBooleanOption:
        return isinstance(v, bool)
    if t is O.UserIntegerOption:
        return (isinstance(v, int) and not isinstance(v, bool)
                and (o.min_value is None or v >= o.min_value) and (o.max_value is None or v <= o.max_value))
    if t in (O.UserComboOption, O.UserFeatureOption):
        return isinstance(v, str) and v in o.choices
    if t is O.UserStringArrayOption:
        return (isinstance(v, list) and all(isinstance(x, str) for x in v)
                and (not o.choices or all(x in o.choices for x in v)))
    return True     # classes outside the model (umask)


def invalid_stored(st):
    return [str(k) for k, o in st.options.items() if not stored_ok(o)]


def run_seq(args, bad_sink):
    st = new_store(args[0])
    out = []
    try:
        for raw in args[1:]:
            f = raw.split(S1)
            o = f[0]
            if o in ('as', 'ap'):
                k = dec_key(f[1])
                obj = make_option(k.name, *f[2:7])
                (st.add_system_option if o == 'as' else st.add_project_option)(k, obj)
            elif o in ('ac', 'am'):
                k = dec_key(f[2])
                obj = make_option(k.name, *f[3:8])
                (st.add_compiler_option if o == 'ac' else st.add_module_option)(f[1], k, obj)
            elif o == 'set':
                out.append('T' if st.set_option(dec_key(f[1]), dec_value(f[2]), f[3] == 'T') else 'F')
            elif o == 'su':
                out.append('T' if st.set_user_option(dec_key(f[1]), dec_value(f[2]), f[3] == 'T') else 'F')
            elif o == 'top':
                st.initialize_from_top_level_project_call(dec_dict(f[1]), dec_dict(f[2]), dec_dict(f[3]))
            elif o == 'sub':
                st.initialize_from_subproject_call(f[1], dec_dict(f[2]), dec_dict(f[3]), dec_dict(f[4]), dec_dict(f[5]))
            elif o == 'get':
                out.append(enc_value(st.get_value_for(dec_key(f[1]))))
            elif o == 'gp':
                out.append(enc_value(st.get_pending_value(dec_key(f[1]))))
            elif o == 'hv':
                out.append('T' if st.option_has_value(dec_key(f[1]), dec_value(f[2])) else 'F')
            elif o == 'dump':
                out.append(enc_dump(st))
            else:
                return '?'
            bad = invalid_stored(st)
            if bad and len(bad_sink) < 20:
                bad_sink.append({'kind': 'stored_invalid', 'keys': bad, 'seq': args})
    except RecursionError:
        out.append('EXC:RecursionError')
    except Exception as e:
        out.append(exc_name(e))
        bad = invalid_stored(st)
        if bad and len(bad_sink) < 20:
            bad_sink.append({'kind': 'stored_invalid', 'keys': bad, 'seq': args})
    return S1.join(out)


class _NS:
    pass


SCRATCH = [None]
_mf_counter = [0]


def mf_value(v):
    """a decoded value in machine-file syntax"""
    if isinstance(v, bool):
        return 'true' if v else 'false'
    if isinstance(v, int):
        return str(v)
    if isinstance(v, list):
        return '[' + ', '.join("'%s'" % x for x in v) + ']'
    return "'%s'" % v


def mf_write(path, cfg, cross):
    lines = []
    if cross:
        lines += ['[host_machine]', "system = 'linux'", "cpu_family = 'x86_64'", "cpu = 'x86_64'", "endian = 'little'"]
    for sect in cfg.split(S1)[1:]:
        name, body = sect.split(S5)
        lines.append('[%s]' % name)
        for e in body.split(S2)[1:]:
            k, v = e.split(S3)
            lines.append('%s = %s' % (k, mf_value(dec_value(v))))
    open(path, 'w').write('\n'.join(lines) + '\n')


def mfload(args):
    """writes real machine files, constructs a real Environment and renders Environment.options"""
    import argparse
    from mesonbuild import msetup, environment, cmdline
    _mf_counter[0] += 1
    root = os.path.join(SCRATCH[0], 'mf-%d-%d' % (os.getpid(), _mf_counter[0]))
    os.makedirs(os.path.join(root, 'src'))
    open(os.path.join(root, 'src', 'meson.build'), 'w').write("project('p')\n")
    argv = []
    if args[1] != '-':
        mf_write(os.path.join(root, 'n.ini'), args[1], False)
        argv += ['--native-file', os.path.join(root, 'n.ini')]
    if args[0] == 'T':
        mf_write(os.path.join(root, 'c.ini'), args[2] if args[2] != '-' else '', True)
        argv += ['--cross-file', os.path.join(root, 'c.ini')]
    p = argparse.ArgumentParser()
    msetup.add_arguments(p)
    o = p.parse_args(argv + [os.path.join(root, 'src'), os.path.join(root, 'b')])
    cmdline.parse_cmd_line_options(o)
    try:
        env = environment.Environment(os.path.join(root, 'src'), os.path.join(root, 'b'), o)
        return S2.join(enc_key(k) + S3 + enc_value(v) for k, v in env.options.items())
    finally:
        import shutil
        shutil.rmtree(root, ignore_errors=True)


def ev(fn, args, bad_sink):
    if fn == 'seq':
        return run_seq(args, bad_sink)
    if fn == 'val':
        obj0 = None
        kd = args[0]
        # build an option of that kind with a value that is certainly valid, then validate
        defaults = {'s': 'Sx', 'b': 'F', 'f': 'Sauto', 'a': 'L'}
        c = kd[:1]
        if c == 'c':
            ch = prefixed_items(S5, kd[1:])
            if not ch:
                return 'SKIP'
            dv = 'S' + ch[0]
        elif c == 'i':
            a, b = kd[1:].split(S4)
            lo = None if a == '-' else dec_int(a)
            hi = None if b == '-' else dec_int(b)
            if lo is not None and hi is not None and lo > hi:
                return 'SKIP'
            dv = 'I' + str(lo if lo is not None else (hi if hi is not None else 0))
        else:
            dv = defaults[c]
        obj0 = make_option('o', kd, dv, 'F', 'F', 'n')
        return enc_value(obj0.validate_value(dec_value(args[1])))
    if fn == 'sat':
        # "the stored value satisfies type, choices and range", stated independently of validate_value
        kd = args[0]
        c = kd[:1]
        dv = {'s': 'Sx', 'b': 'F', 'f': 'Sauto', 'a': 'L'}.get(c)
        if c == 'c':
            ch = prefixed_items(S5, kd[1:])
            if not ch:
                return 'SKIP'
            dv = 'S' + ch[0]
        elif c == 'i':
            a, b = kd[1:].split(S4)
            lo = None if a == '-' else dec_int(a)
            hi = None if b == '-' else dec_int(b)
            if lo is not None and hi is not None and lo > hi:
                return 'SKIP'
            dv = 'I' + str(lo if lo is not None else (hi if hi is not None else 0))
        obj0 = make_option('o', kd, dv, 'F', 'F', 'n')
        obj0.value = dec_value(args[1])
        return 'T' if stored_ok(obj0) else 'F'
    if fn == 'reorder':
        from mesonbuild import cmdline
        ns = _NS()
        ns.builtin_keys, ns.d_keys = set(), set()
        ns.cmd_line_options = dec_dict(args[0])
        cmdline.parse_cmd_line_options(ns)
        return S2.join(enc_key(k) + S3 + enc_value(v) for k, v in ns.cmd_line_options.items())
    if fn == 'sanprefix':
        return enc_value(O.OptionStore(False).sanitize_prefix(args[0]))
    if fn == 'sandir':
        return enc_value(O.OptionStore(False).sanitize_dir_option_value(args[0], dec_key(args[1]), dec_value(args[2])))
    if fn == 'mfkey':
        from mesonbuild.environment import Environment
        sp = args[1][1:] if args[1].startswith('=') else None
        return enc_key(Environment.mfilestr2key(None, args[0], 'built-in options', sp,
                                                MachineChoice.BUILD if args[2] == 'B' else MachineChoice.HOST))
    if fn == 'fromstr':
        return enc_key(OptionKey.from_string(args[0]))
    if fn == 'mfload':
        return mfload(args)
    if fn == 'tables':
        from mesonbuild.compilers import all_languages
        dd = S2.join(S3.join([k, v[0], 'T' if v[1] else 'F']) for k, v in O.OptionStore.DEFAULT_DEPENDENTS.items())
        for k in O.BUILTIN_DIR_NOPREFIX_OPTIONS:
            assert k.subproject is None and k.machine is MachineChoice.HOST
        npx = S2.join(S3.join([k.name, ''.join(S4 + a + S5 + b for a, b in m.items())])
                      for k, m in O.BUILTIN_DIR_NOPREFIX_OPTIONS.items())
        for k in list(O.COMPILER_BASE_OPTIONS) + list(O.BUILTIN_OPTIONS_PER_MACHINE):
            assert k.subproject is None and k.machine is MachineChoice.HOST
        return S1.join([dd, npx, S2.join(sorted(O._BUILTIN_NAMES)), S2.join(sorted(all_languages)),
                        S2.join(k.name for k in O.COMPILER_BASE_OPTIONS),
                        S2.join(k.name for k in O.BUILTIN_OPTIONS_PER_MACHINE)])
    return '?'


def safe(fn, args, bad_sink):
    try:
        return ev(fn, args, bad_sink)
    except RecursionError:
        return 'EXC:RecursionError'
    except Exception as e:
        return exc_name(e)


# =====================================================================================
# Oracle: the clauses of the property, evaluated on the implementation only.
# A scenario names one option, how it is declared, and which of the documented value
# sources set it to what.  Expected values are computed from the property text
# (priority order), never from the model.
# =====================================================================================
TOP_ORDER = ['cl_opt', 'mf_opt', 'p_opt']                       # highest first
SUB_ORDER = ['p_opt', 's_opt', 'mf_opt', 'cl_opt', 'p_sub', 'spcall', 'mf_sub', 'cl_sub']   # lowest first


def canon(kd, v):
    """Independent statement of what a raw value means for an option kind.
    Returns (ok, canonical value)."""
    c = kd[:1]
    if c == 's':
        return (isinstance(v, str), v)
    if c == 'b':
        if isinstance(v, bool):
            return True, v
        if isinstance(v, str) and v.lower() in ('true', 'false'):
            return True, v.lower() == 'true'
        return False, None
    if c == 'i':
        a, b = kd[1:].split(S4)
        lo = None if a == '-' else dec_int(a)
        hi = None if b == '-' else dec_int(b)
        if isinstance(v, str):
            try:
                v = int(v)
            except ValueError:
                return False, None
        if isinstance(v, bool) or not isinstance(v, int):
            return False, None
        return ((lo is None or v >= lo) and (hi is None or v <= hi)), v
    if c in 'cf':
        ch = prefixed_items(S5, kd[1:]) if c == 'c' else ['enabled', 'disabled', 'auto']
        return (isinstance(v, str) and v in ch), v
    if c == 'a':
        ch = None if kd[1:2] == '-' else prefixed_items(S5, kd[2:])
        if isinstance(v, str):
            if v.startswith('['):
                return None, None      # not covered by the oracle
            v = [] if v == '' else [x.strip() for x in v.split(',')]
        if not isinstance(v, list) or not all(isinstance(x, str) for x in v):
            return False, None
        return (not ch or all(x in ch for x in v)), v
    raise RuntimeError(kd)


def oracle_scenario(sc):
    """Returns a list of failures (dicts).  sc: see harness/check_C07.py:gen_scenario."""
    fails = []

    def add(kind, **kw):
        fails.append(dict(kind=kind, scenario=sc, **kw))
    name, cls, kd = sc['name'], sc['cls'], sc['kind']
    src = {k: dec_value(v) for k, v in sc['src'].items()}
    sub = 'sub'
    st = O.OptionStore(sc['cross'])
    st.init_builtins()
    mach = MachineChoice.BUILD if sc.get('build') else MachineChoice.HOST
    gkey = OptionKey(name, None, mach)
    skey = OptionKey(name, sub, mach)
    rkey = OptionKey(name, '', mach)
    default = dec_value(sc['default']) if 'default' in sc else None
    sdefault = dec_value(sc['sdefault']) if 'sdefault' in sc else None
    if cls == 'system':
        st.add_system_option(gkey, make_option(name, kd, sc['default'], 'F', 'F', 'n'))
    elif cls in ('project_both', 'project_top'):
        st.add_project_option(rkey, make_option(name, kd, sc['default'], 'F', 'F', 'n'))
    if cls in ('builtin', 'module', 'permachine'):
        default = st.get_value_for(gkey)
    topkey = rkey if cls in ('project_both', 'project_top') else gkey

    def d(*pairs):
        return {k: src[s] for k, s in pairs if s in src}
    pdo = d((gkey, 'p_opt'), (skey, 'p_sub'))
    mf = d((gkey, 'mf_opt'), (skey, 'mf_sub'))
    cmd = d((gkey, 'cl_opt'), (skey, 'cl_sub'))
    spcall = d((gkey, 'spcall'))
    sdo = d((gkey, 's_opt'))

    def winner(order_high_first):
        for s in order_high_first:
            if s in src:
                return s
        return None
    raised = None
    # ---------------- top-level project
    wt = winner(TOP_ORDER) if cls != 'project_sub' else None
    top_sources = [s for s in TOP_ORDER if s in src]
    top_val = None
    try:
        st.initialize_from_top_level_project_call(pdo, cmd, mf)
        if cls != 'project_sub':
            top_val = st.get_value_for(topkey)
    except MesonException as e:
        raised = 'top'
    if cls == 'project_sub' and top_sources:
        return fails            # naming an option that does not exist at top level: not a precedence question
    if wt is not None:
        ok, want = canon(kd, src[wt])
        if ok is None:
            return fails
        if not ok:
            if raised is None:
                add('invalid_value_accepted', where='top', source=wt, got=enc_value(top_val))
            return fails
        if raised is None and top_val != want:
            add('top_precedence', expected=enc_value(want), got=enc_value(top_val), winner=wt)
    else:
        if raised is None and top_val != default and cls != 'project_sub':
            add('top_default', expected=enc_value(default), got=enc_value(top_val))
    if raised is not None:
        # an exception is only justified by some invalid value among the applied sources
        if all(canon(kd, src[s])[0] for s in top_sources):
            add('valid_values_rejected', where='top', sources=top_sources)
        return fails
    # ---------------- subproject
    if cls in ('project_both', 'project_sub'):
        st.add_project_option(skey, make_option(name, kd, sc['sdefault'], 'T' if sc.get('yield') else 'F', 'F', 'n'))
        order = ['s_opt', 'p_sub', 'spcall', 'mf_sub', 'cl_sub']
    elif cls == 'project_top':
        return fails
    else:
        order = SUB_ORDER
    ws = winner(list(reversed(order)))
    applied = [s for s in order if s in src]
    try:
        st.initialize_from_subproject_call(sub, spcall, sdo, cmd, mf)
        sub_val = st.get_value_for(skey)
    except MesonException:
        if all(canon(kd, src[s])[0] for s in applied):
            add('valid_values_rejected', where='sub', sources=applied)
        return fails
    if ws is None:
        if cls in ('project_both', 'project_sub'):
            want = top_val if (sc.get('yield') and cls == 'project_both') else sdefault
        else:
            want = default
        ok = True
    else:
        ok, want = canon(kd, src[ws])
        if ok is None:
            return fails
    if not ok:
        add('invalid_value_accepted', where='sub', source=ws, got=enc_value(sub_val))
        return fails
    if sub_val != want:
        add('sub_precedence', expected=enc_value(want), got=enc_value(sub_val), winner=ws)
    # the top-level value is not disturbed by subproject-scoped sources
    if cls != 'project_sub':
        tv2 = st.get_value_for(topkey)
        if tv2 != top_val:
            add('top_changed_by_subproject', before=enc_value(top_val), after=enc_value(tv2))
    bad = invalid_stored(st)
    if bad:
        add('stored_invalid', keys=bad)
    return fails


BT = {'plain': ('plain', False), 'debug': ('0', True), 'debugoptimized': ('2', True),
      'release': ('3', False), 'minsize': ('s', True)}       # Builtin-options.md "buildtype" table
PRIO = {'p': 0, 'mf': 1, 'cl': 2}


def oracle_buildtype(sc):
    """sc: {'bt': (src, value), 'debug': (src, value)|None, 'opt': (src, value)|None}; sources p/mf/cl."""
    fails = []
    st = O.OptionStore(False)
    st.init_builtins()
    dicts = {'p': {}, 'mf': {}, 'cl': {}}
    for nm, key in (('debug', 'debug'), ('opt', 'optimization'), ('bt', 'buildtype')):   # buildtype LAST in -D order
        if sc.get(nm):
            dicts[sc[nm][0]][OptionKey(key)] = sc[nm][1]
    ns = _NS()
    ns.builtin_keys, ns.d_keys, ns.cmd_line_options = set(), set(), dicts['cl']
    from mesonbuild import cmdline
    cmdline.parse_cmd_line_options(ns)
    try:
        st.initialize_from_top_level_project_call(dicts['p'], ns.cmd_line_options, dicts['mf'])
    except MesonException:
        return [dict(kind='buildtype_rejected', scenario=sc)]
    b = sc['bt'][1]
    got_bt = st.get_value_for('buildtype')
    if got_bt != b:
        fails.append(dict(kind='buildtype_value', scenario=sc, got=got_bt))
    if b == 'custom':
        return fails
    for nm, key, idx, conv in (('debug', 'debug', 1, lambda x: x == 'true'), ('opt', 'optimization', 0, lambda x: x)):
        got = st.get_value_for(key)
        if not sc.get(nm):
            if got != BT[b][idx]:
                fails.append(dict(kind='buildtype_dependent', scenario=sc, option=key, expected=BT[b][idx], got=got))
        else:
            ps, pb = PRIO[sc[nm][0]], PRIO[sc['bt'][0]]
            if ps > pb or (ps == pb and sc[nm][0] == 'cl'):
                if got != conv(sc[nm][1]):
                    fails.append(dict(kind='explicit_dependent_lost', scenario=sc, option=key,
                                      expected=conv(sc[nm][1]), got=got))
    return fails


NOPREF_DOC = {'sysconfdir': {'/usr': '/etc'}, 'localstatedir': {'/usr': '/var', '/usr/local': '/var/local'},
              'sharedstatedir': {'/usr': '/var/lib', '/usr/local': '/var/local/lib'}}   # Builtin-options.md
NOPREF_DEF = {'sysconfdir': 'etc', 'localstatedir': 'var', 'sharedstatedir': 'com'}


def oracle_prefix(sc):
    """sc: {'prefix': {src: value}, 'explicit': {dirname: (src, value)}}"""
    fails = []
    st = O.OptionStore(False)
    st.init_builtins()
    dicts = {'p': {}, 'mf': {}, 'cl': {}}
    for s, v in sc['prefix'].items():
        dicts[s][OptionKey('prefix')] = v
    for dn, (s, v) in sc.get('explicit', {}).items():
        dicts[s][OptionKey(dn)] = v
    try:
        st.initialize_from_top_level_project_call(dicts['p'], dicts['cl'], dicts['mf'])
    except MesonException:
        return [dict(kind='prefix_rejected', scenario=sc)]
    want_prefix = '/usr/local'
    for s in ('p', 'mf', 'cl'):
        if s in sc['prefix']:
            want_prefix = sc['prefix'][s]
    if len(want_prefix) > 1 and want_prefix.endswith('/'):
        want_prefix = want_prefix[:-1]
    if st.get_value_for('prefix') != want_prefix:
        fails.append(dict(kind='prefix_precedence', scenario=sc, expected=want_prefix, got=st.get_value_for('prefix')))
    for dn in NOPREF_DOC:
        got = st.get_value_for(dn)
        if dn in sc.get('explicit', {}):
            want = sc['explicit'][dn][1]
        else:
            want = NOPREF_DOC[dn].get(want_prefix, NOPREF_DEF[dn])
        if got != want:
            fails.append(dict(kind='prefix_dependent_dir', scenario=sc, option=dn, expected=want, got=got))
    return fails


def oracle_yield(sc):
    """A subproject option `sub:name` (kind ck, value cv, yield y) next to a top-level option
    `:name` (kind pk, value pv; absent when pk is None), optionally followed by a change of the
    parent (`set`) or of the child (`set_child`).  Clauses (property text / Build-options.md
    "Yielding to superproject option" / options.py "If parent object has different type, do not yield"):
      yield_iff_same_type   the effective value is the parent's iff yield: true, the parent exists
                            and has the SAME option type, and the child was not set explicitly
      effective_value_valid the effective value satisfies the option's own type/choices/range
      stored_invalid        every stored value satisfies its option"""
    fails = []

    def add(kind, **kw):
        fails.append(dict(kind=kind, scenario=sc, **kw))
    name = 'yopt'
    st = O.OptionStore(sc.get('cross', False))
    st.init_builtins()
    pk, ck = sc.get('pk'), sc['ck']
    rkey, skey = OptionKey(name, ''), OptionKey(name, 'sub')
    try:
        if pk is not None:
            st.add_project_option(rkey, make_option(name, pk, sc['pv'], 'F', 'F', 'n'))
        st.add_project_option(skey, make_option(name, ck, sc['cv'], 'T' if sc['y'] else 'F', 'F', 'n'))
    except MesonException:
        return fails          # a declared default outside the option's own choices: not this clause
    child_set = False
    try:
        if 'set' in sc and pk is not None:
            st.set_option(rkey, dec_value(sc['set']))
    except MesonException:
        pass                  # rejected: the parent keeps its value
    try:
        if 'set_child' in sc:
            st.set_option(skey, dec_value(sc['set_child']))
            child_set = True
    except MesonException:
        pass
    eff = st.get_value_for(skey)
    own = st.get_value_object(skey).value
    same_type = pk is not None and pk[:1] == ck[:1]
    if sc['y'] and same_type and not child_set:
        want = st.get_value_for(rkey)
    else:
        want = own
    if eff != want or type(eff) is not type(want):
        add('yield_iff_same_type', expected=enc_value(want), got=enc_value(eff), same_type=same_type)
    ok, _ = canon(ck, eff)
    if ok is False:
        add('effective_value_valid', got=enc_value(eff), same_type=same_type, yielding=bool(sc['y']))
    bad = invalid_stored(st)
    if bad:
        add('stored_invalid', keys=bad)
    return fails


def oracle_aug(sc):
    """A per-subproject override that exists before the subproject is initialised keeps priority
    over every source (options.py: "merge everything ... while giving self.augments priority")."""
    fails = []
    st = O.OptionStore(sc.get('cross', False))
    st.init_builtins()
    name = sc['name']
    gkey, skey = OptionKey(name), OptionKey(name, 'sub')
    try:
        st.set_option(skey, dec_value(sc['pre']))
    except MesonException:
        return fails
    before = st.get_value_for(skey)
    src = {k: dec_value(v) for k, v in sc['src'].items()}

    def d(*pairs):
        return {k: src[x] for k, x in pairs if x in src}
    try:
        st.initialize_from_subproject_call('sub', d((gkey, 'spcall')), d((gkey, 's_opt')),
                                           d((gkey, 'cl_opt'), (skey, 'cl_sub')), d((gkey, 'mf_opt'), (skey, 'mf_sub')))
    except MesonException:
        return fails
    after = st.get_value_for(skey)
    if after != before:
        fails.append(dict(kind='existing_override_lost', scenario=sc, before=enc_value(before), after=enc_value(after)))
    return fails


def oracle_misc(sc):
    """read-only options, renamed (deprecated: 'new') options, replaced deprecated values"""
    fails = []

    def add(kind, **kw):
        fails.append(dict(kind=kind, scenario=sc, **kw))
    st = O.OptionStore(False)
    st.init_builtins()
    t = sc['t']
    if t == 'readonly':
        key = OptionKey(sc['name'])
        cur = st.get_value_for(key)
        ok, want = canon(sc['kind'], dec_value(sc['value']))
        try:
            st.set_option(key, dec_value(sc['value']), sc['first'])
            raised = False
        except MesonException:
            raised = True
        if not ok:
            if not raised:
                add('invalid_value_accepted', got=enc_value(st.get_value_for(key)))
            return fails
        changed = want != cur
        if changed and not sc['first'] and not raised:
            add('readonly_option_changed', value=enc_value(st.get_value_for(key)))
        if (not changed or sc['first']) and raised:
            add('readonly_refused_without_change')
        if not raised and st.get_value_for(key) != want:
            add('readonly_value', got=enc_value(st.get_value_for(key)), expected=enc_value(want))
    elif t == 'rename':
        kd = sc['kind']
        new_k, old_k = OptionKey('new_name', ''), OptionKey('old_name', '')
        st.add_project_option(new_k, make_option('new_name', kd, sc['default'], 'F', 'F', 'n'))
        st.add_project_option(old_k, make_option('old_name', kd, sc['default'], 'F', 'F', 'rnew_name'))
        v = dec_value(sc['value'])
        ok, want = canon(kd, v)
        try:
            if sc.get('via') == 'top':
                st.initialize_from_top_level_project_call({}, {OptionKey('old_name'): v}, {})
            else:
                st.set_option(old_k, v, True)
        except MesonException:
            if ok:
                add('rename_valid_value_rejected')
            return fails
        if ok is False:
            add('invalid_value_accepted', got=enc_value(st.get_value_for(old_k)))
            return fails
        if ok and (st.get_value_for(new_k) != want or st.get_value_for(old_k) != want):
            add('rename_not_applied_to_both', expected=enc_value(want), new=enc_value(st.get_value_for(new_k)), old=enc_value(st.get_value_for(old_k)))
    elif t == 'replace':
        key = OptionKey('dopt', '')
        st.add_project_option(key, make_option('dopt', sc['kind'], sc['default'], 'F', 'F', sc['depr']))
        v = dec_value(sc['value'])
        try:
            st.set_option(key, v, True)
        except MesonException:
            if sc.get('want') is not None:
                add('replaced_value_rejected')
            return fails
        if sc.get('want') is None:
            add('invalid_value_accepted', got=enc_value(st.get_value_for(key)))
        elif enc_value(st.get_value_for(key)) != sc['want']:
            add('deprecated_value_not_replaced', expected=sc['want'], got=enc_value(st.get_value_for(key)))
    bad = invalid_stored(st)
    if bad:
        add('stored_invalid', keys=bad)
    return fails


PER_MACHINE_DOC = ('pkg_config_path', 'cmake_prefix_path')      # Builtin-options.md: options that exist per machine
LANGS_DOC = ('c', 'cpp', 'objc', 'objcpp', 'fortran', 'rust', 'd', 'cuda', 'vala', 'cs', 'java', 'swift', 'cython', 'nasm', 'masm', 'linearasm')


def oracle_mf(sc):
    """Machine files (Machine-files.md, Builtin-options.md): an entry of a [sub:...] section is an
    option of subproject sub; an entry of a native file describes the BUILD machine when cross
    compiling (and the only machine otherwise); `build.` names the build machine; build-machine
    values exist only for per-machine options; [project options] are read for the host machine only."""
    fails = []
    cross = sc['cross']
    want = {}
    files = {'native': [], 'cross': []}
    for f, subp, kind, name, bp, v in sc['entries']:
        files[f].append((subp, kind, name, bp, v))
        build = bp or (f == 'native' and cross)
        if kind == 'project' and f == 'native' and cross:
            continue
        per_machine = name in PER_MACHINE_DOC or ('_' in name and name.split('_')[0] in LANGS_DOC)
        if build and not per_machine:
            continue
        want[(subp or None, 'B' if build else 'H', name)] = v

    def cfg(lst):
        sects = {}
        for subp, kind, name, bp, v in lst:
            sn = (subp + ':' if subp else '') + ('built-in options' if kind == 'builtin' else 'project options')
            sects.setdefault(sn, []).append((('build.' if bp else '') + name, v))
        return ''.join(S1 + n + S5 + ''.join(S2 + k + S3 + 'S' + v for k, v in e) for n, e in sects.items())
    try:
        r = mfload(['T' if cross else 'F', cfg(files['native']) if files['native'] else '-', cfg(files['cross']) if cross else '-'])
    except Exception as e:
        return [dict(kind='machine_file_rejected', scenario=sc, exc=type(e).__name__)]
    got = {}
    for ent in (r.split(S2) if r else []):
        k, v = ent.split(S3)
        su, m, n = k.split(S4)
        got[(su[1:] if su.startswith('=') else None, m, n)] = v[1:]
    if got != want:
        fails.append(dict(kind='machine_file_keys', scenario=sc,
                          missing=sorted(str(k) + '=' + v for k, v in want.items() if got.get(k) != v),
                          unexpected=sorted(str(k) + '=' + v for k, v in got.items() if want.get(k) != v)))
    return fails


def main():
    req = json.load(sys.stdin)
    out = {}
    bad = []
    SCRATCH[0] = req.get('scratch') or '/var/tmp'
    if 'cases' in req:
        out['results'] = [safe(fn, args, bad) for fn, args in req['cases']]
    out['stored_invalid'] = bad
    if 'oracle' in req:
        SCRATCH[0] = req.get('scratch') or '/var/tmp'
        res = []
        for sc in req['oracle']:
            try:
                f = {'prec': oracle_scenario, 'bt': oracle_buildtype, 'prefix': oracle_prefix, 'yield': oracle_yield, 'aug': oracle_aug, 'misc': oracle_misc, 'mf': oracle_mf}[sc['o']]
                res.extend(f(sc))
            except Exception as e:
                res.append({'kind': 'exception', 'exc': type(e).__name__ + ': ' + str(e), 'scenario': sc})
        out['oracle'] = res
    if 'libdir' in req:
        st = O.OptionStore(False)
        st.init_builtins()
        out['libdir'] = st.get_value_for('libdir')
    json.dump(out, _real_stdout)


main()
