"""Adapter for C10, run by /venv/bin/python with PYTHONPATH=<meson tree>.

 * {'wrap': [scenario, ...]} : builds each scenario on disk (a [wrap-file] wrap with
   file:// URLs, tar archives, packagefiles, package cache), runs the REAL
   mesonbuild.wrap.wrap.Resolver.resolve once per fault plan, and renders result class,
   primitive-step trace and the resulting tree to the canonical strings of
   coq/Deps/Entry.v (run_wrap).  Fault injection and step logging are done here by
   replacing names in the wrap module's namespace (os, shutil, time, Popen_safe,
   windows_proof_rmtree) and three Resolver/PackageDefinition methods - meson itself is
   not modified.  Also evaluates the property's wrap clauses on what was observed (oracle).
 * {'lookup_oracle': [cell, ...]} : the property's lookup clauses evaluated on the outputs
   that `meson setup` printed for each cell (no model involved).
"""
import sys, os, io, json, tarfile, hashlib, shutil, tempfile, time, types, subprocess

SEP1, SEP4 = '\x01', '\x04'


# ---------------------------------------------------------------------------------- archives
def mk_tar(members):
    import gzip
    raw = io.BytesIO()
    with tarfile.open(fileobj=raw, mode='w') as t:
        for name, data in members:
            ti = tarfile.TarInfo(name)
            ti.size = len(data)
            ti.mtime = 0
            t.addfile(ti, io.BytesIO(data))
    buf = io.BytesIO()
    with gzip.GzipFile(fileobj=buf, mode='wb', mtime=0) as g:      # byte-for-byte reproducible
        g.write(raw.getvalue())
    return buf.getvalue()


_BLOBS = {}


def blob_bytes(kind, lead_missing):
    """The byte strings the scenarios are made of.  kind -> bytes."""
    if (kind, lead_missing) not in _BLOBS:
        _BLOBS[kind, lead_missing] = blob_bytes1(kind, lead_missing)
    return _BLOBS[kind, lead_missing]


def blob_bytes1(kind, lead_missing):
    pre = '' if lead_missing else 'foo/'
    src_members = [(pre + 'meson.build', b"project('foo')\n"), (pre + 'src_a', b'a\n'), (pre + 'src_z', b'z\n')]
    patch_members = [('foo/meson.build', b"project('foo') # from the patch\n"), ('foo/patch_a', b'a\n'), ('foo/patch_z', b'z\n')]
    if kind == 'src_b':
        return mk_tar(src_members)
    if kind == 'src_nb':
        return mk_tar(src_members[1:])
    if kind == 'src_flip':
        b = bytearray(mk_tar(src_members))
        b[len(b) // 2] ^= 0x20
        return bytes(b)
    if kind == 'src_trunc':
        b = mk_tar(src_members)
        return b[:len(b) // 2]
    if kind == 'garbage':
        return b'this is not an archive\n' * 7
    if kind == 'garbage2':
        return b'neither is this\n' * 5
    if kind == 'patch_b':
        return mk_tar(patch_members)
    if kind == 'patch_nb':
        return mk_tar(patch_members[1:])
    if kind == 'patch_flip':
        b = bytearray(mk_tar(patch_members))
        b[len(b) // 2] ^= 0x20
        return bytes(b)
    raise ValueError(kind)


BLOB_IDS = {'src_b': 1, 'src_nb': 2, 'src_flip': 3, 'src_trunc': 4, 'garbage': 5, 'patch_b': 6, 'patch_nb': 7,
            'patch_flip': 8, 'garbage2': 9}
WRONG_HASH = 'ab' * 32      # id 99 in the model: the digest of no blob


def furl(path):
    import urllib.request
    return 'file://' + urllib.request.pathname2url(path)


def sha(b):
    return hashlib.sha256(b).hexdigest()


class Injected(RuntimeError):
    pass


# ---------------------------------------------------------------------------------- one scenario
class Run:
    """State shared by the interposed primitives during one resolve()."""

    def __init__(self, sc, root, blobs, faults):
        self.sc, self.root, self.blobs = sc, root, blobs
        self.faults = faults
        self.ctr = 0
        self.trace = []
        self.unpacked = []          # (what, sha of the bytes handed to unpack_archive)

    def tick(self, ev):
        self.trace.append(ev)
        f = self.faults.get(self.ctr)
        self.ctr += 1
        return f

    def boom(self, f):
        from mesonbuild.wrap.wrap import WrapException
        if f == 'W':
            raise WrapException('injected fault')
        raise Injected('injected fault')


def partial_unpack(path, dest):
    with tarfile.open(path) as t:
        ms = t.getmembers()
        for m in ms[:-1]:
            t.extract(m, dest)


def partial_copy(src, dst):
    files = []
    for d, _, fs in os.walk(src):
        for f in fs:
            files.append(os.path.relpath(os.path.join(d, f), src))
    files.sort()
    for rel in files[:-1]:
        os.makedirs(os.path.dirname(os.path.join(dst, rel)), exist_ok=True)
        shutil.copy2(os.path.join(src, rel), os.path.join(dst, rel))


def blob_id_of_file(run, path):
    try:
        h = sha(open(path, 'rb').read())
    except OSError:
        return '?'
    for k, b in run.blobs.items():
        if sha(b) == h:
            return str(BLOB_IDS[k])
    return '?'


def what_of(name):
    return 's' if 'src' in os.path.basename(name) else 'p'


def install_hooks(W, run, dirname, subdir_root, cachedir):
    saved = {}

    def save(obj, name):
        saved[(obj, name)] = getattr(obj, name)

    # --- os.mkdir / os.rename as called by wrap.py itself
    class OsProxy:
        def __getattr__(self, n):
            return getattr(os, n)

        def mkdir(self, p, *a, **k):
            if os.path.abspath(p) == dirname:
                f = run.tick('mkdir')
                if f:
                    run.boom(f)
            return os.mkdir(p, *a, **k)

        def rename(self, a, b):
            if os.path.dirname(os.path.abspath(b)) == cachedir:
                f = run.tick('rename:' + what_of(b))
                if f:
                    run.boom(f)
            return os.rename(a, b)

    class ShutilProxy:
        def __getattr__(self, n):
            return getattr(shutil, n)

        def unpack_archive(self, path, dest=None, *a, **k):
            bid = blob_id_of_file(run, path)
            d = os.path.abspath(dest)
            if d in (subdir_root, dirname):
                ev = 'unpack:%s:%s' % (what_of(path), bid)
                run.unpacked.append((what_of(path), sha(open(path, 'rb').read())))
            else:
                ev = 'unpacktmp:' + bid
                run.unpacked.append((what_of(path), sha(open(path, 'rb').read())))
            f = run.tick(ev)
            if f:
                try:
                    partial_unpack(path, dest)
                except Exception:
                    pass
                run.boom(f)
            return shutil.unpack_archive(path, dest, *a, **k)

    class TimeProxy:
        def __getattr__(self, n):
            return getattr(time, n)

        def sleep(self, d):
            return None

    save(W, 'os'); save(W, 'shutil'); save(W, 'time'); save(W, 'Popen_safe'); save(W, 'windows_proof_rmtree')
    W.os, W.shutil, W.time = OsProxy(), ShutilProxy(), TimeProxy()

    orig_popen = saved[(W, 'Popen_safe')]

    def popen_safe(cmd, *a, **k):
        idx = '?'
        for c in cmd:
            b = os.path.basename(str(c))
            if b.startswith('diff_') and b.endswith('.patch'):
                idx = b[5:-6]
        f = run.tick('diff:' + idx)
        if f == 'W':
            return types.SimpleNamespace(returncode=1), 'injected failure', ''
        if f:
            run.boom(f)
        return orig_popen(cmd, *a, **k)
    W.Popen_safe = popen_safe

    orig_rm = saved[(W, 'windows_proof_rmtree')]

    def rmtree(p):
        if os.path.lexists(p) and not os.path.isdir(p):
            os.unlink(p)
            return
        return shutil.rmtree(p, ignore_errors=True) if os.path.isdir(p) else None
    W.windows_proof_rmtree = rmtree

    R = W.Resolver
    save(R, 'get_data_with_backoff'); save(R, 'hash_file'); save(R, 'copy_tree')
    save(W.PackageDefinition, 'update_hash_cache')
    o_get, o_hash, o_copy = R.get_data_with_backoff, R.hash_file, R.copy_tree
    o_uhc = W.PackageDefinition.update_hash_cache

    def get_data_with_backoff(self, url):
        base = os.path.basename(url)
        f = run.tick('fetch:%s:%s' % (what_of(base), 'T' if 'fallback' in base else 'F'))
        if f:
            run.boom(f)
        return o_get(self, url)

    def hash_file(self, path):
        f = run.tick('hash:' + what_of(path))
        if f:
            run.boom(f)
        return o_hash(self, path)

    def copy_tree(self, src, dst):
        s = os.path.abspath(src)
        if s == os.path.join(cachedir, 'foo'):
            ev = 'copycached'
        elif s.startswith(os.path.join(subdir_root, 'packagefiles')):
            ev = 'copypatchdir'
        else:
            ev = 'copytmp'
        f = run.tick(ev)
        if f:
            try:
                if ev == 'copytmp':
                    partial_copy(os.path.join(src, 'foo'), os.path.join(dst, 'foo'))
                else:
                    partial_copy(src, dst)
            except Exception:
                pass
            run.boom(f)
        return o_copy(self, src, dst)

    def update_hash_cache(self, d):
        f = run.tick('writehash')
        if f:
            run.boom(f)
        return o_uhc(self, d)
    R.get_data_with_backoff, R.hash_file, R.copy_tree = get_data_with_backoff, hash_file, copy_tree
    W.PackageDefinition.update_hash_cache = update_hash_cache
    return saved


def remove_hooks(saved):
    for (obj, name), v in saved.items():
        setattr(obj, name, v)


def render_tree(run, root):
    d = os.path.join(root, 'subprojects', 'foo')
    if not os.path.lexists(d):
        ds = 'A'
    elif not os.path.isdir(d):
        ds = 'N'
    else:
        ex = lambda n: os.path.exists(os.path.join(d, n))
        fill = lambda a, z: 'F' if ex(a) and ex(z) else ('P' if ex(a) or ex(z) else 'N')
        nd = len([n for n in os.listdir(d) if n.startswith('diff_') and n.endswith('.txt')])
        ds = ':'.join(['D', 'T' if ex('meson.build') else 'F', fill('src_a', 'src_z'), fill('patch_a', 'patch_z'),
                       str(nd), 'T' if ex('.meson-subproject-wrap-hash.txt') else 'F'])
    cache = os.path.join(root, 'subprojects', 'packagecache')

    def cf(n):
        p = os.path.join(cache, n)
        return blob_id_of_file(run, p) if os.path.exists(p) else '-'
    return ds, cf('foo-src.tar.gz'), cf('foo-patch.tar.gz')


def write_tree(d, spec):
    """spec: A | N | D:build:src:patch:diffs:hash"""
    if spec == 'A':
        return
    if spec == 'N':
        open(d, 'w').write('not a directory\n')
        return
    _, b, s, p, nd, h = spec.split(':')
    os.makedirs(d)
    if b == 'T':
        open(os.path.join(d, 'meson.build'), 'w').write("project('foo')\n")
    for fl, a, z in ((s, 'src_a', 'src_z'), (p, 'patch_a', 'patch_z')):
        if fl in 'PF':
            open(os.path.join(d, a), 'w').write('a\n')
        if fl == 'F':
            open(os.path.join(d, z), 'w').write('z\n')
    for i in range(int(nd)):
        open(os.path.join(d, 'diff_%d.txt' % i), 'w').write('x\n')
    if h == 'T':
        open(os.path.join(d, '.meson-subproject-wrap-hash.txt'), 'w').write('0\n')


def do_scenario(sc, base):
    """sc: dict, see harness/check_C10.py gen_wrap_scenario.  Returns dict(out=canonical string, oracle=[...])."""
    from mesonbuild.wrap import wrap as W
    from mesonbuild.wrap import WrapMode
    # a project path with a blank, a non-ASCII letter and a percent sign when the scenario asks for it
    root = tempfile.mkdtemp(prefix='w %41 \u00fc-' if sc.get('hostile_path') else 'w-', dir=base)
    sub = os.path.join(root, 'subprojects')
    pf = os.path.join(sub, 'packagefiles')
    cache = os.path.join(sub, 'packagecache')
    srv = os.path.join(root, 'srv')
    os.makedirs(pf); os.makedirs(srv)
    lead = sc['lead_missing']
    blobs = {k: blob_bytes(k, lead) for k in BLOB_IDS}
    hx = lambda spec: None if spec is None else (WRONG_HASH if spec == 'wrong' else sha(blobs[spec]))
    lines = ['[wrap-file]', 'directory = foo', 'source_filename = foo-src.tar.gz']
    rec = {'s': hx(sc['src_hash']), 'p': None}
    urls = {'s': sc['src_url'], 'p': False}
    if sc['src_url']:
        lines.append('source_url = ' + furl(os.path.join(srv, 'src-primary.tar.gz')))
    if sc['src_fb']:
        lines.append('source_fallback_url = ' + furl(os.path.join(srv, 'src-fallback.tar.gz')))
    if rec['s']:
        lines.append('source_hash = ' + rec['s'])
    if lead:
        lines.append('lead_directory_missing = true')
    pk = sc['patch']['kind']
    if pk in ('F', 'B'):
        lines.append('patch_filename = foo-patch.tar.gz')
        if sc['patch']['url']:
            lines.append('patch_url = ' + furl(os.path.join(srv, 'patch-primary.tar.gz')))
            urls['p'] = True
        if sc['patch']['fb']:
            lines.append('patch_fallback_url = ' + furl(os.path.join(srv, 'patch-fallback.tar.gz')))
        rec['p'] = hx(sc['patch']['hash'])
        if rec['p']:
            lines.append('patch_hash = ' + rec['p'])
    if pk in ('D', 'B'):
        lines.append('patch_directory = foo_patchdir')
    if sc['diffs']:
        lines.append('diff_files = ' + ', '.join('diff_%d.patch' % i for i in range(len(sc['diffs']))))
    open(os.path.join(sub, 'foo.wrap'), 'w').write('\n'.join(lines) + '\n')
    for key, fn in (('net_src', 'src-primary.tar.gz'), ('net_src_fb', 'src-fallback.tar.gz'),
                    ('net_patch', 'patch-primary.tar.gz'), ('net_patch_fb', 'patch-fallback.tar.gz')):
        if sc[key]:
            open(os.path.join(srv, fn), 'wb').write(blobs[sc[key]])
    if sc['pf_src']:
        open(os.path.join(pf, 'foo-src.tar.gz'), 'wb').write(blobs[sc['pf_src']])
    if sc['pf_patch']:
        open(os.path.join(pf, 'foo-patch.tar.gz'), 'wb').write(blobs[sc['pf_patch']])
    if sc['pf_patchdir'] is not None:
        pd = os.path.join(pf, 'foo_patchdir')
        os.makedirs(pd)
        if sc['pf_patchdir']:
            open(os.path.join(pd, 'meson.build'), 'w').write("project('foo') # patch dir\n")
        open(os.path.join(pd, 'patch_a'), 'w').write('a\n')
        open(os.path.join(pd, 'patch_z'), 'w').write('z\n')
    for i, dspec in enumerate(sc['diffs']):
        if dspec is None:
            continue
        p = os.path.join(pf, 'diff_%d.patch' % i)
        if dspec:
            open(p, 'w').write('--- /dev/null\n+++ b/diff_%d.txt\n@@ -0,0 +1 @@\n+x\n' % i)
        else:
            open(p, 'w').write('--- a/no_such_file.txt\n+++ b/no_such_file.txt\n@@ -1,3 +1,3 @@\n ctx1\n-old\n+new\n ctx2\n')
    if sc['cached_tree'] is not None:
        ct = os.path.join(cache, 'foo')
        os.makedirs(ct)
        if sc['cached_tree']:
            open(os.path.join(ct, 'meson.build'), 'w').write("project('foo')\n")
        open(os.path.join(ct, 'src_a'), 'w').write('a\n')
        open(os.path.join(ct, 'src_z'), 'w').write('z\n')
    for key, fn in (('cache_src', 'foo-src.tar.gz'), ('cache_patch', 'foo-patch.tar.gz')):
        if sc[key]:
            os.makedirs(cache, exist_ok=True)
            open(os.path.join(cache, fn), 'wb').write(blobs[sc[key]])
    dirname = os.path.join(sub, 'foo')
    write_tree(dirname, sc['dir0'])

    outs, oracle = [], []
    complete = lambda ds: (ds.startswith('D:') and ds.split(':')[2] == 'F'
                           and (pk == 'N' or ds.split(':')[3] == 'F')
                           and ds.split(':')[4] == str(len(sc['diffs'])))
    made_here = sc['dir0'] == 'A'
    for ri, plan in enumerate(sc['plans']):
        run = Run(sc, root, blobs, {int(k): v for k, v in plan})
        before = render_tree(run, root)[0]
        saved = install_hooks(W, run, dirname, sub, cache)
        try:
            r = W.Resolver(root, 'subprojects', wrap_mode=WrapMode.nodownload if sc['nodownload'] else WrapMode.default)
            try:
                r.resolve('foo')
                res = 'OK'
            except W.WrapException:
                res = 'WRAP'
            except Exception as e:
                res = 'OTHER'
        finally:
            remove_hooks(saved)
        ds, c1, c2 = render_tree(run, root)
        outs.append(SEP1.join([res, ' '.join(run.trace), ds, c1, c2]))
        # ---- the property's clauses on what was observed
        ctx = {'run': ri, 'result': res, 'trace': run.trace, 'tree_before': before, 'tree_after': ds}
        for wh, h in run.unpacked:
            if rec[wh] is not None and h != rec[wh]:
                oracle.append(dict(ctx, kind='unverified-bytes-unpacked', what=wh))
            if rec[wh] is None and urls[wh]:
                oracle.append(dict(ctx, kind='unverified-bytes-unpacked', what=wh, note='no hash recorded for a downloaded file'))
        if sc['nodownload'] and any(t.startswith('fetch') for t in run.trace):
            oracle.append(dict(ctx, kind='fetch-under-nodownload'))
        if before == 'A' and res != 'OK':
            step = next((t.split(':')[0] for t in reversed(run.trace) if t != 'rmtree'), 'none')
            patch_phase = any(t.split(':')[0] in ('diff', 'copypatchdir', 'copytmp', 'unpacktmp') or t.startswith('unpack:p')
                              or t in ('hash:p', 'rename:p') or t.startswith('fetch:p') for t in run.trace)
            if ds != 'A' and not complete(ds):
                oracle.append(dict(ctx, kind='half-prepared-directory-left-behind', failed_step=step, in_patch_or_diff=patch_phase))
        if res == 'OK' and made_here and not (complete(ds) and ds.split(':')[1] == 'T'):
            oracle.append(dict(ctx, kind='half-prepared-subproject-accepted'))
    shutil.rmtree(root, ignore_errors=True)
    return {'out': SEP4.join(outs), 'oracle': oracle}


# ---------------------------------------------------------------------------------- lookup oracle
def version_ok(mesonlib, wanted, v):
    if not wanted:
        return True
    return v != 'undefined' and mesonlib.version_compare_many(v, wanted)[0]


def lookup_oracle(cell):
    """cell: {'opts':…, 'circ': the circumstances of each dependency() call as the generator built them,
    'observed': [...lines...], 'status': 'OK'|'ERR'|…}.  Checks the clauses of the property text that can be
    read off the observed results without any model: see check_C10.py for the fields."""
    from mesonbuild import mesonlib
    fails = []
    obs = cell['observed']
    status = cell['status']
    if status not in ('OK', 'ERR'):
        fails.append({'kind': 'meson-crashed', 'status': status})
        return fails
    lookups = cell['lookups']
    # every lookup before the failing one printed a line
    for i, lk in enumerate(lookups):
        if i >= len(obs):
            if status == 'OK':
                fails.append({'kind': 'missing-output', 'lookup': i})
            break
        found, typ, ver, name = obs[i]
        wanted = lk['version']
        if found and not (version_ok(mesonlib, wanted, ver) if typ == 'internal'
                          else (not wanted or (ver != '' and mesonlib.version_compare_many(ver, wanted)[0]))):
            fails.append({'kind': 'returned-version-violates-constraint', 'lookup': i, 'got': obs[i]})
        if lk['required'] and not found:
            fails.append({'kind': 'required-lookup-returned-not-found', 'lookup': i})
        if lk.get('expect') is not None:
            e = lk['expect']
            got = 'ERR' if False else ('T:%s:%s' % (typ, ver) if found else 'F')
            if e != got and e != 'ERR':
                kind = 'fallback-override-not-found' if lk.get('override_fallback') else 'policy'
                fails.append({'kind': kind, 'lookup': i, 'expected': e, 'got': got, 'why': lk.get('why', '')})
    # the fallback subproject overrides the name, yet the (required) lookup that configured it failed
    if lookups and lookups[0].get('override_fallback') and not obs and status == 'ERR':
        fails.append({'kind': 'fallback-override-not-found', 'lookup': 0, 'expected': lookups[0]['expect'], 'got': 'ERR',
                      'why': lookups[0].get('why', '')})
    # a lookup that the policy says must fail
    for i, lk in enumerate(lookups):
        if lk.get('expect') == 'ERR':
            if len(obs) > i or status == 'OK':
                fails.append({'kind': 'policy', 'lookup': i, 'expected': 'ERR',
                              'got': ('T:%s:%s' % (obs[i][1], obs[i][2]) if obs[i][0] else 'F') if len(obs) > i else status,
                              'why': lk.get('why', '')})
            break
        if lk.get('expect') is None:
            break
    # a name that an earlier successful multi-name lookup covered answers with the same dependency
    for j, lk in enumerate(lookups):
        i = lk.get('alias_of')
        if i is None or i >= len(obs) or not obs[i][0]:
            continue
        if j >= len(obs):
            if j == len(obs) and status == 'ERR':
                fails.append({'kind': 'name-of-found-lookup-not-aliased', 'first': i, 'later': j, 'got_first': obs[i], 'got_later': 'ERR'})
            continue
        if obs[j] != obs[i]:
            fails.append({'kind': 'name-of-found-lookup-not-aliased', 'first': i, 'later': j, 'got_first': obs[i], 'got_later': obs[j]})
    # repeated lookups with the same arguments return the same dependency
    seen = {}
    for i, lk in enumerate(lookups):
        if i >= len(obs):
            break
        key = json.dumps(lk['args'], sort_keys=True)
        if key in seen and not lk.get('state_changed_since_first'):
            j = seen[key]
            if obs[j] != obs[i]:
                fails.append({'kind': 'repeat-lookup-differs', 'first': j, 'again': i, 'got_first': obs[j], 'got_again': obs[i]})
        else:
            seen.setdefault(key, i)
    if status == 'ERR' and len(obs) >= len(lookups) and not cell.get('other_error_expected'):
        fails.append({'kind': 'setup-failed-after-all-lookups-succeeded'})
    return fails


def main():
    req = json.load(sys.stdin)
    real = sys.stdout
    sys.stdout = open(os.devnull, 'w')       # meson's log lines and progress output go nowhere
    out = {}
    try:
        if 'wrap' in req:
            res = []
            for sc in req['wrap']:
                try:
                    res.append(do_scenario(sc, req['scratch']))
                except Exception as e:
                    import traceback
                    res.append({'out': 'EXC:' + type(e).__name__, 'oracle': [], 'tb': traceback.format_exc()[-1500:]})
            out['wrap'] = res
        if 'lookup_oracle' in req:
            out['lookup_oracle'] = [lookup_oracle(c) for c in req['lookup_oracle']]
    finally:
        sys.stdout = real
    json.dump(out, sys.stdout)


if __name__ == '__main__':
    main()
