"""C01 — build definitions evaluate exactly as the language reference prescribes.
Theorems: coq/Props/C01.v.  Model (the formalised reference): coq/Eval/{Values,Ops,Methods,Interp}.v on
the proved parser coq/Syntax/Parser.v.  Implementation: `meson setup --backend=none` of /repo
(mesonbuild/interpreterbase, mesonbuild/interpreter/primitives, mparser) through harness/impl/c01.py.
Observables: tagged `Message:` lines in order, success / failure class (meson error vs internal
Python error) and the build file:line the failure is reported at - never message texts."""
import hashlib, json, os, sys, time
from common import *
sys.path.insert(0, os.path.join(VERIF, 'harness', 'impl'))
import c01 as ADAPTER          # extract_msgs (same tagged-message extraction for both sides)
import c01_gen as G

SEP1, SEP2 = '\x01', '\x02'


# ------------------------------------------------------------------------------ model side
def model_cases(projects):
    return [('run', sum(([k, v] for k, v in sorted(p.items(), key=lambda kv: (kv[0] != 'meson.build', kv[0]))), [])) for p in projects]


def parse_model(o):
    parts = o.split(SEP1)
    cls = parts[0]
    r = {'cls': cls, 'file': '', 'line': 0, 'msgs': []}
    raw = ''
    if cls == 'ERR' and len(parts) >= 4:
        r['file'], r['line'], raw = parts[1], int(parts[2]), SEP1.join(parts[3:])
    elif cls in ('OK', 'PY') and len(parts) >= 2:
        raw = SEP1.join(parts[1:])
    ms = raw.split(SEP2) if raw != '' else []
    r['msgs'] = ADAPTER.extract_msgs(''.join('Message: %s\n' % m for m in ms))
    r['nmsg'] = len(ms)
    return r


def key_of(r):
    if r['cls'] == 'PY':
        return ('PY', '', 0, tuple(map(tuple, r['msgs'])))
    return (r['cls'], r['file'], r['line'], tuple(map(tuple, r['msgs'])))


def run_both(ctx, projects, built):
    impl = []
    CH = 400
    for i in range(0, len(projects), CH):
        impl += run_impl('c01.py', {'projects': projects[i:i + CH], 'scratch': os.path.join(ctx.mkscratch(), 'impl')},
                         timeout=7200)['results']
    sick = [r['cls'] for r in impl if r['cls'] == 'TIMEOUT']
    if sick:
        raise HarnessError('%d meson runs did not finish (%s): machine overloaded?' % (len(sick), sick[0]))
    if built:
        outs = ctx.run_model(model_cases(projects), shards=NPROC if len(projects) > 64 else 1)
        model = [parse_model(o) for o in outs]
    else:
        outs, model = None, None
    return impl, model, outs


# ------------------------------------------------------------------------------ shrinking
def chunks_of(text):
    """top-level statements of a build file (with their nested blocks / continuation lines)"""
    lines = text.split('\n')
    out, cur, depth, brk = [], [], 0, 0
    for ln in lines:
        s = ln.strip()
        if not cur and s == '':
            continue
        cur.append(ln)
        # bracket balance outside string literals
        i, n = 0, len(ln)
        while i < n:
            c = ln[i]
            if ln.startswith("'''", i):
                j = ln.find("'''", i + 3)
                i = n if j < 0 else j + 3
                continue
            if c == "'":
                i += 1
                while i < n and ln[i] != "'":
                    i += 2 if ln[i] == '\\' else 1
                i += 1
                continue
            if c == '#':
                break
            if c in '([{':
                brk += 1
            elif c in ')]}':
                brk -= 1
            i += 1
        if brk <= 0:
            brk = 0
            w = s.split(' ')[0] if s else ''
            if w in ('if', 'foreach'):
                depth += 1
            elif w in ('endif', 'endforeach'):
                depth -= 1
            if depth <= 0:
                depth = 0
                out.append('\n'.join(cur))
                cur = []
    if cur:
        out.append('\n'.join(cur))
    return out


def shrink(ctx, files, still_fails, rounds=7):
    """delta-debug the top-level statements of the root file; still_fails(list of files dicts) -> list of bool"""
    root = files['meson.build']
    ch = chunks_of(root)
    head, body = ch[:1], ch[1:]
    g = max(1, len(body) // 2)
    for _ in range(rounds):
        if not body:
            break
        cands = []
        for i in range(0, len(body), g):
            nb = body[:i] + body[i + g:]
            f = dict(files)
            f['meson.build'] = '\n'.join(head + nb) + '\n'
            cands.append((nb, f))
        res = still_fails([f for _, f in cands])
        hit = [nb for (nb, _), ok in zip(cands, res) if ok]
        if hit:
            body = min(hit, key=len)
            files = dict(files)
            files['meson.build'] = '\n'.join(head + body) + '\n'
            g = max(1, min(g, len(body) // 2 or 1))
        elif g == 1:
            break
        else:
            g = max(1, g // 2)
    return files


# ------------------------------------------------------------------------------ replay
def replay(ctx):
    rec = json.load(open(ctx.replay))
    r = rec['replay']
    files = r['files']
    print('replaying build definition:')
    for k, v in files.items():
        print('--- %s\n%s' % (k, v))
    built = ctx.build('Props/C01.v', 'Eval/Extract.v', 'C01')
    impl, model, _ = run_both(ctx, [files], built)
    print('implementation:', json.dumps(impl[0]))
    if model:
        print('model         :', json.dumps(model[0]))
    if 'expect' in r:
        res = run_impl('c01.py', {'oracle': [{'law': r.get('law', '?'), 'files': files, 'expect': r['expect']}]})
        print('property clause on the implementation:', json.dumps(res['oracle'], indent=1) if res['oracle'] else 'holds')
    ctx.cleanup()
    return 0


# ------------------------------------------------------------------------------ the check
def run(ctx):
    if ctx.replay:
        return replay(ctx)
    rng = ctx.rng
    thorough = ctx.tier == 'thorough'
    built = ctx.build('Props/C01.v', 'Eval/Extract.v', 'C01')

    if thorough and built:
        # independent re-check of the compiled closure of the property file
        r = subprocess.run(['timeout', '1500', 'coqchk', '-silent', '-o', '-Q', COQ, 'MV', 'MV.Props.C01'], capture_output=True, text=True)
        out = r.stdout + r.stderr
        m = re.search(r'\* Axioms:\s*(.*?)\n\s*\n', out, re.S)
        ctx.extra['coqchk'] = {'returncode': r.returncode, 'axioms': (m.group(1).strip() if m else '?')}
        if r.returncode != 0 or not m or m.group(1).strip() != '<none>':
            ctx.broken.append({'obligation': 'coqchk MV.Props.C01', 'detail': out[-1500:]})

    cases = []       # dict(kind, name, files)
    dist = {}

    def add(kind, name, files):
        cases.append({'kind': kind, 'name': name, 'files': files})
        dist[kind] = dist.get(kind, 0) + 1

    # 1. corpus of corner cases (runs first)
    for name, files in G.corpus():
        add('corpus', name, files)

    # 1b. the four string literal forms x every escape kind, packed 150 statements per project
    for k in range(12 if thorough else 3):
        files, _ = G.string_form_project(G.string_form_statements(rng, 150))
        add('string-forms', 'sf%d' % k, files)
        cases[-1]['rows'] = [l for l in files['meson.build'].split('\n') if l.startswith('message(')]

    # 2. typing table and method table: the model classifies each single statement; all accepted
    #    ones run batched (exhaustive), rejected ones one project each (sampled in the quick tier)
    table = [('typing', i, s) for i, s in G.typing_table()] + [('method', i, s) for i, s in G.method_table()]
    nprim = 12000 if thorough else 3000
    table += [('prim', i, 'x = ' + e) for i, e in G.prim_exprs(rng, nprim)]
    # the documented methods / core functions of docs/yaml x arities 0..3 x argument types x keyword
    # names (wrong arity, wrong types, every optional and keyword argument)
    api = G.documented_api(REPO)
    api_rows = G.api_rows(rng, api)
    api_key = {}
    for key, ident, lines in api_rows:
        api_key[ident] = key
        table.append(('api', ident, '\n'.join(lines)))
    singles = [G.P(s + "\nmessage('#r', x, '$')\n") for _, _, s in table]
    oom_table = 0
    if built:
        single_out = [parse_model(o) for o in ctx.run_model(model_cases(singles), shards=NPROC)]
        okrows = [(k, i, s) for (k, i, s), r in zip(table, single_out) if r['cls'] == 'OK']
        badrows = [(k, i, s) for (k, i, s), r in zip(table, single_out) if r['cls'] in ('ERR', 'PY')]
        oom_table = sum(1 for r in single_out if r['cls'] in ('OOM', 'FUEL'))
        for b in range(0, len(okrows), 90):
            body = ''.join("%s\nmessage('#t%s', x, '$')\n" % (s, G.b36(b + j)) for j, (_, _, s) in enumerate(okrows[b:b + 90]))
            add('table-accepted', 'batch%d' % (b // 90), G.P(body))
            cases[-1]['rows'] = [s for _, _, s in okrows[b:b + 90]]
        nbad = len(badrows) if thorough else 70
        nrej = len(badrows)
        if thorough:
            # the typing / method tables completely; of the random primitive applications a sample
            # (the typing table completely; the method table - mostly 'unknown method' rows - and
            # the random primitive applications sampled, to stay inside the time envelope)
            def some(kind, n):
                rows = [r for r in badrows if r[0] == kind]
                return rng.sample(rows, min(n, len(rows)))
            badrows = [r for r in badrows if r[0] == 'typing'] + some('method', 300) + some('prim', 300) + some('api', 400)
        if not thorough:
            # a sample of every kind, and of the documented API one rejected call per method
            per = {}
            for r in badrows:
                if r[0] == 'api':
                    per.setdefault(api_key[r[1]], []).append(r)
            badrows = rng.sample([r for r in badrows if r[0] != 'api'], min(nbad, len(badrows))) + \
                [rng.choice(per[k]) for k in sorted(per)]
        run_bad = badrows
        for k, i, s in badrows:
            # the rejected statement ends a generated valid program, so that the same meson run
            # also compares a few dozen ordinary statements
            if thorough:
                add('table-rejected', '%s: %s' % (k, i), G.P("message('#a', 1, '$')\n" + s + "\nmessage('#r', x, '$')\n"))
                continue
            g = G.ProgGen(rng, max_depth=rng.choice([2, 3]))
            add('table-rejected', '%s: %s' % (k, i), g.program(rng.randint(5, 14), err=[s, "message('#r', x, '$')"], at_end=True))
        # coverage of the documented API: modelled? compared on how many accepted / rejected calls?
        cov = {}
        for (ty, name), doc in sorted(api.items()):
            cov['%s.%s' % (ty, name)] = {'documented_in': doc, 'modelled': name in G.MODELLED.get(ty, []),
                                         'calls_generated': 0, 'accepted_compared': 0, 'rejected_generated': 0, 'rejected_compared': 0}
        for (k, i, s), r in zip(table, single_out):
            if k == 'api':
                e = cov['%s.%s' % api_key[i]]
                e['calls_generated'] += 1
                if r['cls'] == 'OK':
                    e['accepted_compared'] += 1
                elif r['cls'] in ('ERR', 'PY'):
                    e['rejected_generated'] += 1
        for k, i, s in run_bad:
            if k == 'api':
                cov['%s.%s' % api_key[i]]['rejected_compared'] += 1
        for fn in ('subdir', 'subproject'):
            if 'function.' + fn in cov:
                cov['function.' + fn]['note'] = 'needs build files: exercised by the corpus, the oracle laws and the random programs'
        ctx.extra['documented_api_coverage'] = cov
        ctx.extra['documented_api_not_modelled'] = sorted(k for k, v in cov.items() if not v['modelled'])
        ctx.extra['table'] = {'rows': len(table), 'accepted_by_model': len(okrows), 'rejected_by_model': nrej,
                              'out_of_model': oom_table, 'rejected_run': len(run_bad),
                              'random_primitive_applications': nprim,
                              'exhaustive': False, 'exhaustive_typing_table': bool(thorough), 'exhaustive_accepted': True}

    # 3. structured random programs (mostly valid) and the same with one erroneous statement
    nvalid = 800 if thorough else 90
    nerr = 500 if thorough else 30
    if True:
        # every erroneous statement of the list once per run, alone
        for j, e in enumerate(G.ERRORS):
            g = G.ProgGen(rng, max_depth=rng.choice([2, 3]))
            add('error-alone', 'a%d:%s' % (j, e[0]), g.program(rng.randint(5, 14), err=list(e) + ["message('#b', 1, '$')"], at_end=True))
    fixed = len(cases)
    rnd = []
    for i in range(max(nvalid, nerr)):
        if i < nvalid:
            g = G.ProgGen(rng, max_depth=rng.choice([2, 3, 4, 5]))
            rnd.append({'kind': 'random-valid', 'name': 'v%d' % i, 'files': g.program(rng.randint(30, 70) if not thorough else rng.randint(12, 60))})
        if i < nerr:
            g = G.ProgGen(rng, max_depth=rng.choice([2, 3, 4]))
            e = G.ERRORS[i % len(G.ERRORS)]
            rnd.append({'kind': 'random-error', 'name': 'e%d:%s' % (i, e[0]), 'files': g.program(rng.randint(4, 20), err=list(e))})

    t1 = time.time()
    impl, model, outs = run_both(ctx, [c['files'] for c in cases], built)
    for c in rnd:
        cases.append(c)
        dist[c['kind']] = dist.get(c['kind'], 0) + 1
    i2, m2, o2 = run_both(ctx, [c['files'] for c in rnd], built)
    impl += i2
    if built:
        model += m2
        outs += o2
    projects = [c['files'] for c in cases]
    ctx.extra['t_run_s'] = round(time.time() - t1, 1)

    out_of_model = 0
    nstmt = 0
    cls_dist = {}
    bad = []
    for idx, c in enumerate(cases):
        ri = impl[idx]
        rm = model[idx] if model else ri
        nstmt += sum(len(chunks_of(v)) for v in c['files'].values())
        if rm['cls'] in ('OOM', 'FUEL'):
            out_of_model += 1
            continue
        ctx.count((c['kind'], c['name'], c['files']['meson.build']), nontrivial=True)
        if key_of(ri) == key_of(rm):
            # every statement of a packed project is an assertion of its own: its tagged message
            # was compared
            for row in c.get('rows', []):
                ctx.count(('row', row), nontrivial=True)
        cls_dist[rm['cls']] = cls_dist.get(rm['cls'], 0) + 1
        if key_of(ri) != key_of(rm):
            bad.append(idx)
    ctx.cov['traces_validated_against_impl'] = len(cases) - out_of_model
    ctx.extra['statements_evaluated'] = nstmt
    ctx.extra['messages_compared'] = sum(len(r['msgs']) for r in impl)
    ctx.extra['projects_run'] = len(cases)
    # the generated inputs are a function of the seed alone: their digest makes that checkable
    hs = [hashlib.sha1(json.dumps(c['files'], sort_keys=True).encode()).hexdigest() for c in cases]
    ctx.extra['generated_projects_digest'] = hashlib.sha1(''.join(hs).encode()).hexdigest()
    ctx.extra['generated_projects_first'] = hs[:3] + hs[-3:]
    ctx.extra['out_of_model'] = out_of_model
    ctx.extra['input_distribution'] = {'projects_by_kind': dist, 'model_outcome_classes': cls_dist,
                                       'error_statement_kinds': len(G.ERRORS),
                                       'files_per_project_max': max(len(c['files']) for c in cases)}
    for c in cases[:2] + cases[len(G.corpus()) + 3:len(G.corpus()) + 5]:
        ctx.sample({'kind': c['kind'], 'name': c['name'], 'meson.build': c['files']['meson.build'][:400]})

    t1 = time.time()
    if built and outs is not None:
        mc = model_cases(projects)
        small = [i for i in range(len(mc)) if sum(len(a) for a in mc[i][1]) < (700 if thorough else 500)]
        ctx.kernel_crosscheck('Eval.Entry', [mc[i] for i in small], [outs[i] for i in small], limit=300 if thorough else 100)

    ctx.extra['t_kernel_s'] = round(time.time() - t1, 1)
    t1 = time.time()
    # disagreements: the model is the formalised reference, so each one is a concrete failing input
    def still_fails(flist):
        i2, m2, _ = run_both(ctx, flist, built)
        return [(m['cls'] not in ('OOM', 'FUEL')) and key_of(a) != key_of(m) for a, m in zip(i2, m2)]

    for idx in bad[:200]:
        c = cases[idx]
        ctx.disagreements.append({'kind': c['kind'], 'name': c['name'], 'files': c['files'],
                                  'implementation': impl[idx], 'model': model[idx]})
    seen_sig = set()
    # one representative of every (implementation class, exception, reference class) first, so that
    # the replays written out cover different causes
    cat_seen, first, rest = set(), [], []
    for idx in bad:
        cat = (impl[idx]['cls'], impl[idx].get('exc', ''), model[idx]['cls'])
        (rest if cat in cat_seen else first).append(idx)
        cat_seen.add(cat)
    for idx in first + rest:
        c, ri, rm = cases[idx], impl[idx], model[idx]
        sig = (c['kind'] if c['kind'] != 'random-valid' else 'rv', ri['cls'], ri.get('exc', ''), rm['cls'],
               c['name'].split(':', 1)[-1] if c['kind'] in ('random-error', 'error-alone', 'table-rejected') else c['name'] if c['kind'] == 'corpus' else '')
        if sig in seen_sig or len(seen_sig) >= 12:
            continue
        seen_sig.add(sig)
        files = c['files']
        if built and c['kind'] in ('random-valid', 'random-error', 'table-accepted'):
            try:
                files = shrink(ctx, files, still_fails)
            except HarnessError:
                pass
            i2, m2, _ = run_both(ctx, [files], built)
            ri, rm = i2[0], m2[0]
        if ri['cls'] == 'PY':
            ident = 'C01:internal-error:%s:%s' % (ri.get('exc', '?'), hashlib.sha1(files['meson.build'].encode()).hexdigest()[:10])
            what = 'an internal Python exception (%s) escapes instead of a located meson error' % ri.get('exc', '?')
        else:
            ident = 'C01:differs-from-reference:%s' % hashlib.sha1(json.dumps(files, sort_keys=True).encode()).hexdigest()[:12]
            what = 'meson setup computes %s, the reference prescribes %s' % (json.dumps(ri)[:300], json.dumps(rm)[:300])
        ctx.violation(ident, '%s [%s %s]' % (what, c['kind'], c['name']),
                      {'files': files, 'implementation': ri, 'reference_model': rm,
                       'how': 'write the files into a directory and run: meson setup --backend=none <builddir> <dir>'})

    ctx.extra['t_shrink_s'] = round(time.time() - t1, 1)
    t1 = time.time()
    # 4. the property's clauses evaluated on the implementation's answers alone (no model)
    laws = G.laws(rng, thorough)
    res = run_impl('c01.py', {'oracle': laws, 'scratch': os.path.join(ctx.mkscratch(), 'oracle')}, timeout=3600)
    ctx.extra['oracle_laws'] = len(laws)
    ctx.extra['t_oracle_s'] = round(time.time() - t1, 1)
    ctx.cov['evaluations'] += len(laws)
    by_name = {l['law']: l for l in laws}
    for f in res['oracle']:
        law = by_name[f['law']]
        ident = law.get('ident') or ('C01:law:' + f['law'])
        ctx.violation(ident, 'property clause "%s" fails on the implementation: %s' % (f['law'], f['why']),
                      {'law': f['law'], 'files': f['files'], 'expect': f['expect'], 'observed': f['observed']})

    return ctx.finish(
        level='proof',
        trusted=['Coq 8.16.1 kernel (coqc, vm_compute; no native_compute)',
                 'extraction with ExtrOcamlBasic directives only + OCaml + extract/driver.ml (cross-checked in-kernel on a sample each run)',
                 'harness/check_C01.py, harness/c01_gen.py (generators, shrinker) and harness/impl/c01.py (CLI adapter, canonicaliser, oracle)',
                 'the model coq/Eval is the formalised language reference: its agreement with the ~1 kLOC interpreter is differential '
                 '(CLI runs), its laws are theorems (Props/C01.v)',
                 'not modelled (reported as out_of_model, never compared): non-core functions/objects, Unicode case mapping and '
                 'non-ASCII digits, \\N{..} escapes, identity comparison of range/subproject objects, subdir/subproject keyword '
                 'arguments and unusual path spellings, difflib hints, FeatureNew/Deprecated notices'],
        assumptions=['Print Assumptions: all property theorems closed under the global context (no axioms)',
                     'message framing: generated string data never contains # $ | (used to delimit tagged messages on stdout)'],
        rule='type-directed generator of core-language programs (all operators, methods, control forms, literal spellings, '
             'subdir/subproject files; nesting depth <= 5) with a tagged message() of every intermediate value; the same programs '
             'with one erroneous statement injected; the full operator x operand-type and method x receiver x argument tables '
             '(statements the model accepts run batched, rejected ones one project each); a corpus of corner cases; each project is '
             'run through `meson setup --backend=none` and through the extracted Coq model and compared on (class, file:line, tagged '
             'messages). distinct = distinct (kind, name, root build file); every project evaluates statements, so all are non-trivial')
