"""C05 — the project IR of coq/Graph/Gen.v: path resolution, wire encoding, and the comparison
of the model's build statements with those of the real build.ninja.

The harness resolves every path that the IR carries (naming is not modelled in Coq): outputs
of custom targets, library / executable files, private directories, generator outputs and
object files.  A wrong resolution cannot hide an edge: it shows up as a model statement without
a real counterpart (and a real one without a model counterpart), which is reported."""
import os

SOURCE_SUFFIXES = ('.c',)
HEADER_SUFFIXES = ('.h', '.hh', '.hpp', '.hxx', '.H', '.ipp', '.moc', '.vapi', '.di')


def fkind(name):
    if name.endswith(SOURCE_SUFFIXES):
        return 0
    if name.endswith(HEADER_SUFFIXES):
        return 1
    return 2


def canonicalize(fname):
    # backends.py canonicalize_filename, short paths only (the generator makes no deep paths)
    assert len(fname.split('/')) <= 5
    for ch in ('/', '\\', ':'):
        fname = fname.replace(ch, '_')
    return fname


class Resolver:
    """Names (absolute, normalised) <-> numbers; layout of the build directory."""

    def __init__(self, srcdir, bdir):
        self.src, self.b = srcdir, bdir
        self.num, self.name = {}, {}

    def n(self, path):
        path = os.path.normpath(path)
        if path not in self.num:
            self.num[path] = len(self.num) + 1
            self.name[self.num[path]] = path
        return self.num[path]

    def srcfile(self, rel):
        return os.path.join(self.src, rel)

    def target_out(self, t):
        kind, name, sub = t['kind'], t['name'], t['subdir']
        fn = {'executable': name, 'static_library': 'lib%s.a' % name, 'shared_library': 'lib%s.so' % name}[kind]
        return os.path.join(self.b, sub, fn)

    def privdir(self, t):
        return self.target_out(t) + '.p'

    def obj_for_file(self, t, rel):
        # object_filename_from_source, not built: path relative to the target's source directory
        r = os.path.relpath(self.srcfile(rel), os.path.join(self.src, t['subdir']))
        return os.path.join(self.privdir(t), canonicalize(r) + '.o')

    def obj_for_built(self, t, path):
        # object_filename_from_source, built: 'meson-generated_' + path relative to the private dir
        r = os.path.relpath(path, self.privdir(t))
        return os.path.join(self.privdir(t), canonicalize('meson-generated_' + r) + '.o')


def encode(spec, R):
    """spec (from gen_project) -> list of numbers (the wire format of Graph/GenEntry.v)."""
    index = {}
    custom_outs = {}

    def L(items):
        out = [len(items)]
        for it in items:
            out += it
        return out

    def tref(var):
        return index[var]

    def cin(x):
        return [0, R.n(R.srcfile(x[1]))] if x[0] == 'file' else [1, tref(x[1])]

    def carg(x):
        if x[0] == 'str':
            return [0]
        if x[0] == 'file':
            return [1, R.n(R.srcfile(x[1]))]
        if x[0] == 'prog':
            return [2, R.n(R.srcfile('gen.py'))]
        return [4, tref(x[1])]

    def bsrc(t, s):
        if s[0] == 'file':
            return [0, R.n(R.srcfile(s[1])), R.n(R.obj_for_file(t, s[1]))]
        if s[0] == 'custom':
            outs = custom_outs[s[1]]
            objs = [R.n(R.obj_for_built(t, o)) for o in outs if fkind(o) == 0]
            return [1, tref(s[1])] + L([[o] for o in objs])
        g = s[1]
        items = []
        for rel in g['items']:
            base = os.path.splitext(os.path.basename(rel))[0]
            outs = [os.path.join(R.privdir(t), g['outfmt'] % base)]
            objs = [R.n(R.obj_for_built(t, o)) for o in outs if fkind(o) == 0]
            items.append([R.n(R.srcfile(rel))] + L([[R.n(o), fkind(o)] for o in outs]) + L([[o] for o in objs]))
        return [2] + carg(g['exe']) + L([[tref(v)] for v in g['depends']]) + L(items)

    def dep(t, d):
        return L([bsrc(t, s) for s in d['srcs']]) + L([[tref(v)] for v in d['lw']]) + L([[tref(v)] for v in d['lwh']]) \
            + L([dep(t, x) for x in d['sub']])

    decls = []
    for what, var, t in spec:
        if what == 'custom':
            outs = [os.path.join(R.b, t['subdir'], o) for o in t['outs']]
            custom_outs[var] = outs
            decls.append([0] + L([[R.n(o), fkind(o)] for o in outs]) + L([cin(x) for x in t['inputs']])
                         + L([carg(x) for x in t['command']]) + L([cin(x) for x in t['depends']])
                         + L([[R.n(R.srcfile(f))] for f in t['depend_files']]))
        else:
            kind = {'executable': 0, 'static_library': 1, 'shared_library': 2}[t['kind']]
            out = R.target_out(t)
            sym = os.path.join(R.privdir(t), os.path.basename(out) + '.symbols')
            decls.append([1, kind, R.n(out), R.n(sym)] + L([bsrc(t, s) for s in t['srcs']])
                         + L([[tref(v)] for v in t['lw']]) + L([[tref(v)] for v in t['lwh']])
                         + L([[tref(v)] for v in t.get('objects', [])]) + L([dep(t, d) for d in t['deps']]))
        index[var] = len(index)
    return ','.join(str(x) for x in L(decls))


IGNORED_RULES = ('phony', 'REGENERATE_BUILD')


def ignored(outs, rule):
    """Bookkeeping statements that no target of the project produces: phony aliases (all, clean,
    test, benchmark, install, dist, uninstall, reconfigure, PHONY, meson-*-prereq, the phony
    statement for the build files), the regeneration rule, and meson's internal commands
    (meson-internal__test/benchmark/install/dist/uninstall/clean/clean-ctlist, coverage and
    scan-build helpers)."""
    return rule in IGNORED_RULES or any(os.path.basename(o).startswith('meson-internal__') for o in outs)


def real_statements(manifest, bdir):
    """Non-bookkeeping statements of the real build.ninja: key (frozenset of outputs) ->
    {explicit, implicit, order_only, ancestors (first output of each), index}."""
    norm = lambda p: os.path.normpath(os.path.join(bdir, p))
    keep = {b.index for b in manifest.builds if not ignored(b.all_outs(), b.rule)}
    memo = {}
    out = {}
    for b in manifest.builds:
        if b.index not in keep:
            continue
        anc = sorted(norm(manifest.builds[a].all_outs()[0]) for a in manifest.ancestors(b, memo) if a in keep)
        out[frozenset(norm(o) for o in b.all_outs())] = {
            'explicit': sorted({norm(x) for x in b.ins}), 'implicit': sorted({norm(x) for x in b.implicit}),
            'order_only': sorted({norm(x) for x in b.order_only}), 'ancestors': anc, 'index': b.index,
            'first': norm(b.all_outs()[0]), 'rule': b.rule}
    return out


READ_CLAUSES = [
    'custom command: generated input', 'custom command: output of depends', 'custom command: built tool',
    'custom command: library of the built tool', 'custom command: built executable as input',
    'generator rule: built tool', 'generator rule: output of depends',
    'compilation: generated source', 'compilation: declared generated header (custom target)',
    'compilation: generated header of the target\'s own generator',
    'compilation: generator-made header of a linked library', 'compilation: what the generated source refers to (closure)',
    'link: object', 'link: static library', 'link: object of a (thin) static library', 'link: shared library',
    'link: library behind a shared library', 'archive: object', 'symbol file: shared library']


def classify_reads(real, observed_reads, produced):
    """Which clauses of the read assumption of coq/Graph/Gen.v did strace actually observe?  One
    count per (step, generated file read), classified from the REAL statement: its rule, whether
    the file is an explicit / implicit / order-only input or only reachable through ancestors,
    and what kind of file it is."""
    from collections import Counter
    c = Counter()
    by_first = {r['first']: (key, r) for key, r in real.items()}
    for first, reads in observed_reads.items():
        if first not in by_first:
            continue
        key, st = by_first[first]
        rule = st['rule']
        own_priv = None
        if '.p' + os.sep in first:
            own_priv = first[:first.index('.p' + os.sep) + 2]
        for p in reads:
            if p not in produced or p in key:
                continue
            where = ('explicit' if p in st['explicit'] else 'implicit' if p in st['implicit'] else
                     'order_only' if p in st['order_only'] else 'ancestor')
            is_lib = p.endswith(('.so', '.a'))
            is_exe = not os.path.splitext(p)[1] and '.p' + os.sep not in p
            in_priv = '.p' + os.sep in p
            if rule.startswith('CUSTOM_COMMAND'):
                gen_rule = own_priv is not None     # generator outputs go to the private directory of the using target
                pre = 'generator rule: ' if gen_rule else 'custom command: '
                if p.endswith('.so'):
                    c[pre + 'library of the built tool'] += 1
                elif is_exe and where == 'explicit':
                    c[pre + 'built executable as input'] += 1
                elif is_exe:
                    c[pre + 'built tool'] += 1
                elif where == 'explicit':
                    c[pre + 'generated input'] += 1
                else:
                    c[pre + 'output of depends'] += 1
            elif rule.endswith('_COMPILER'):
                if where == 'explicit':
                    c['compilation: generated source'] += 1
                elif where == 'order_only' and in_priv and own_priv and p.startswith(own_priv):
                    c['compilation: generated header of the target\'s own generator'] += 1
                elif where == 'order_only' and in_priv:
                    c['compilation: generator-made header of a linked library'] += 1
                elif where == 'order_only':
                    c['compilation: declared generated header (custom target)'] += 1
                else:
                    c['compilation: what the generated source refers to (closure)'] += 1
            elif rule == 'STATIC_LINKER':
                c['archive: object'] += 1
            elif rule == 'SHSYM':
                c['symbol file: shared library'] += 1
            elif rule.endswith('_LINKER'):
                if where == 'explicit':
                    c['link: object'] += 1
                elif p.endswith('.a'):
                    c['link: static library'] += 1
                elif p.endswith('.o'):
                    c['link: object of a (thin) static library'] += 1
                elif p.endswith('.so'):
                    direct = any(i.startswith(p + '.p' + os.sep) for i in st['implicit'])
                    c['link: shared library' if direct else 'link: library behind a shared library'] += 1
                else:
                    c['link: other'] += 1
            else:
                c['other: ' + rule] += 1
    return c


def parse_model(answer, R):
    """The answer of entry `gen` -> (flags, {key: {explicit, implicit, order_only, reads, ancestors}})."""
    head, _, body = answer.partition('#')
    flags = head.split(':')
    names = lambda s: sorted({R.name[int(x)] for x in s.split(',') if x})
    stmts = {}
    for st in body.split('|') if body else []:
        f = st.split(';')
        outs = [R.name[int(x)] for x in f[0].split(',') if x]
        stmts[frozenset(outs)] = {'explicit': names(f[1]), 'implicit': names(f[2]), 'order_only': names(f[3]),
                                  'reads': names(f[4]), 'ancestors': names(f[5]), 'first': outs[0] if outs else None}
    return flags, stmts


def compare(real, model, observed_reads, produced):
    """List of disagreements between the real statements and the model's, plus the check that
    the strace-observed reads of generated files are within the ASSUMED reads of the model.
    observed_reads: {first output (normalised): set of paths read}; produced: set of all paths
    that some real statement writes."""
    bad = []
    n = 0
    for key in sorted(set(real) | set(model), key=lambda k: sorted(k)):
        r, m = real.get(key), model.get(key)
        if r is None:
            bad.append({'kind': 'model-statement-without-real-counterpart', 'outs': sorted(key), 'model': m})
            continue
        if m is None:
            bad.append({'kind': 'real-statement-without-model-counterpart', 'outs': sorted(key), 'real': r})
            continue
        n += 1
        for field in ('explicit', 'implicit', 'order_only', 'ancestors'):
            if r[field] != m[field]:
                bad.append({'kind': 'edges-differ', 'field': field, 'outs': sorted(key),
                            'only_real': sorted(set(r[field]) - set(m[field])), 'only_model': sorted(set(m[field]) - set(r[field]))})
        obs = observed_reads.get(r['first'])
        if obs is not None:
            extra = sorted(p for p in obs if p in produced and p not in key and p not in m['reads'])
            if extra:
                bad.append({'kind': 'observed-read-outside-assumed-reads', 'outs': sorted(key), 'reads': extra})
    return n, bad
