"""C11 — installation is confined to DESTDIR, exact, and reversible.
Theorems: coq/Props/C11.v.  Model: coq/Install/{Tree,Model}.v.  Implementation: mesonbuild/minstall.py,
mesonbuild/scripts/{__init__,uninstall}.py, driven through the real CLI on generated projects."""
import json, os, copy, hashlib
from common import *

S1, S2, S3 = '\x01', '\x02', '\x03'

# ---------------------------------------------------------------------------- generator vocabulary
SRC_NAMES = ['a.txt', 'b b.txt', 'ü€ñ.dat', 'UP.TXT', '#hash', ' lead', 'id　', 't\tb', 'semi;c', "quo'te",
             'dollar$x', 'dash-', '.hidden', 'x.y.z', 'e=q', 'pa(r)', 'nb ']
DST_NAMES = SRC_NAMES + ['x ', 'tab\t', 'two  ', 'r n']
DIR_NAMES = ['d1', 'd 2', 'dü', 'deep', 'Up', '.dot', 'e e']
REL_DIRS = ['share/p', 'share/p q', 'share/ü', 'etc/x', 'lib/p', 'a/b/c/d', 'share/./dot', 'share//dbl',
            'share/p/', 'opt', 'share/sp ', 'share/nb ', 'share/p/sub', 'share/t\t']
ABS_DIRS = ['@ROOT@/abs/etc/p', '@ROOT@/abs/o p t', '@ROOT@/abs/ü/x', '@ROOT@/abs//dd/./e']
MODES = [None, None, None, 'rw-r--r--', 'rwxr-x---', 'rw-------', 'rwxrwxrwx', 'r--r--r--', 'rwsr-xr-x', 'rwxr-sr-x', 'rwxrwxrwt', 'rw-rw-r--']
SRC_MODES = [0o644, 0o644, 0o755, 0o600, 0o444, 0o640, 0o775, 0o700]
MTIMES = [1400000000, 1500000000, 1600000000]
TAGS = [None, None, 'runtime', 'devel', 'doc', 'tg x', 'man']
UMASKS = [None, None, '027', '077', '002', '0', 'preserve', '022']
PREFIXES = ['pfx', 'my pfx', 'püx', 'p/usr', 'usr/']
LINK_TARGETS = ['a.txt', '../a b', 'no/such', '@ROOT@/abs/t', '.', 'x/../y', 'ü']


def perms_bits(s):
    if s is None:
        return None
    b = 0
    for i, c in enumerate(s):
        if c == '-':
            continue
        bit = 1 << (8 - i)
        if c in 'rwx':
            b |= bit
        elif c in 'sS' and i == 2:
            b |= 0o4000 | (bit if c == 's' else 0)
        elif c in 'sS' and i == 5:
            b |= 0o2000 | (bit if c == 's' else 0)
        elif c in 'tT' and i == 8:
            b |= 0o1000 | (bit if c == 't' else 0)
    return b


def mstr(s):
    return "'" + s.replace('\\', '\\\\').replace("'", "\\'") + "'"


def digest(content):
    return hashlib.sha1(content.encode('utf-8')).hexdigest()[:10]


class ProjGen:
    """One generated project: files, meson.build texts, expected installation (the generator's own
    reading of the documented semantics of each install rule) and histories."""

    def __init__(self, rng, idx, hostile=False, corner=None):
        self.rng, self.idx = rng, idx
        self.files, self.prebuilt, self.expect = [], [], []
        self.hostile = hostile
        self.counter = 0
        self.used_src = set()
        self.excluded_dirs = []

    def fresh(self, stem):
        self.counter += 1
        return '%s%d' % (stem, self.counter)

    def new_file(self, base, name=None, sub=''):
        rng = self.rng
        for _ in range(50):
            n = name or rng.choice(SRC_NAMES)
            p = os.path.join(base, n) if base else n
            if p not in self.used_src:
                break
            name = None
        else:
            p = os.path.join(base, self.fresh('f'))
        self.used_src.add(p)
        content = 'C%d-%d-%s' % (self.idx, len(self.files), p)
        f = {'path': os.path.join(sub, p) if sub else p, 'content': content, 'mode': rng.choice(SRC_MODES), 'mtime': rng.choice(MTIMES)}
        self.files.append(f)
        return p, f

    SENTINEL = {'path': 'sentinel/secret.txt', 'content': 'SECRET', 'mode': 0o600, 'mtime': 1400000000}

    def new_alias(self, srcs, sub):
        """a source that is a symbolic link: to a sibling source of the same rule (relative) or to a file outside the
        source tree and outside DESTDIR (absolute).  Returned like new_file(): (path, attributes of the TARGET + 'link')."""
        rng = self.rng
        cands = [(p, f) for p, f in srcs if f.get('link') is None]
        if cands and rng.random() < 0.7:
            tp, tf = rng.choice(cands)
            base = os.path.dirname(tp)
            target, tcontent, tmode = os.path.basename(tp), tf['content'], tf['mode']
        else:
            base = rng.choice(['', 'sd'])
            target, tcontent, tmode = '@ROOT@/' + self.SENTINEL['path'], self.SENTINEL['content'], self.SENTINEL['mode']
        p = os.path.join(base, self.fresh('alias')) if base else self.fresh('alias')
        self.files.append({'path': os.path.join(sub, p) if sub else p, 'link': target})
        return p, {'link': target, 'content': tcontent, 'mode': tmode}

    def follow_kw(self, fs):
        return '' if fs is None else ', follow_symlinks: %s' % ('true' if fs else 'false')

    def exp_src(self, dest, f, fs, subname, tag, tag_known, mb):
        """expectation for one file source: a link installed as a link, or a regular file (possibly a followed link)"""
        if f.get('link') is not None and (fs is False or f.get('content') is None):
            self.exp('link', dest, subname, tag, tag_known, target=f['link'])
        else:
            self.exp('file', dest, subname, tag, tag_known, digest=digest(f['content']), srcmode=f['mode'], mode=mb)

    def pick_dir(self):
        rng = self.rng
        if self.hostile and rng.random() < 0.6:
            k = rng.choice([1, 1, 2, 3, 5, 8, 12])
            return rng.choice(['share/' + '../' * k + 'esc', '../' * k + 'e s c', 'share/../lib2', 'a/b/../../c'])
        r = rng.random()
        if r < 0.2:
            return rng.choice(ABS_DIRS)
        return rng.choice(REL_DIRS)

    def tag_kw(self, tag):
        return ', install_tag: %s' % mstr(tag) if tag is not None else ''

    def mode_kw(self, mode):
        return ', install_mode: %s' % mstr(mode) if mode is not None else ''

    def exp(self, kind, dest, sub, tag, tag_known, **kw):
        self.expect.append(dict(kind=kind, dest=dest, sub=sub, tag=tag, tag_known=tag_known, **kw))

    def rules(self, sub, subname, nrules):
        """returns meson.build body lines for one (sub)project"""
        rng = self.rng
        out = []
        for _ in range(nrules):
            kind = rng.choice(['data', 'data', 'data', 'headers', 'man', 'subdir', 'subdir', 'emptydir', 'symlink', 'target'])
            tag = rng.choice(TAGS)
            mode = rng.choice(MODES)
            mb = perms_bits(mode)
            if mb is not None and kind != 'emptydir':
                mb &= ~0o1000     # interpreter.py:2627 the sticky bit is dropped for files (documented since 0.64)
            if kind == 'data':
                n = rng.choice([1, 1, 2, 3])
                srcs = [self.new_file(rng.choice(['', '', 'sd']), sub=sub) for _ in range(n)]
                fs = None
                if rng.random() < 0.3:
                    srcs.append(self.new_alias(srcs, sub))
                    fs = rng.choice([None, True, False, False])
                idir = self.pick_dir() if rng.random() < 0.85 else None
                rename = None
                if rng.random() < 0.35:
                    rename = []
                    for _ in srcs:
                        rename.append(rng.choice(DST_NAMES) if rng.random() < 0.8 else 'rn/' + rng.choice(SRC_NAMES))
                line = 'install_data(%s' % ', '.join(mstr(p) for p, _ in srcs)
                if idir is not None:
                    line += ', install_dir: %s' % mstr(idir)
                if rename:
                    line += ', rename: [%s]' % ', '.join(mstr(r) for r in rename)
                line += self.mode_kw(mode) + self.tag_kw(tag) + self.follow_kw(fs) + ')'
                out.append(line)
                base = idir if idir is not None else 'share/' + (subname or 'proj%d' % self.idx)
                for j, (p, f) in enumerate(srcs):
                    dn = rename[j] if rename else os.path.basename(p)
                    self.exp_src(base.rstrip('/') + '/' + dn if base else dn, f, fs, subname, tag, tag is not None, mb)
            elif kind == 'headers':
                n = rng.choice([1, 2])
                srcs = [self.new_file(rng.choice(['', 'inc']), sub=sub) for _ in range(n)]
                fs = None
                if rng.random() < 0.25:
                    srcs.append(self.new_alias(srcs, sub))
                    fs = rng.choice([None, True, False, False])
                line = 'install_headers(%s' % ', '.join(mstr(p) for p, _ in srcs)
                r = rng.random()
                if r < 0.4:
                    sd = rng.choice(['ph', 'p h/x', 'ü'])
                    line += ', subdir: %s' % mstr(sd)
                    base = 'include/' + sd
                elif r < 0.8:
                    base = self.pick_dir()
                    line += ', install_dir: %s' % mstr(base)
                else:
                    base = 'include'
                line += self.mode_kw(mode) + self.follow_kw(fs) + ')'
                out.append(line)
                for p, f in srcs:
                    self.exp_src(base.rstrip('/') + '/' + os.path.basename(p), f, fs, subname, 'devel', True, mb)
            elif kind == 'man':
                sec = rng.choice('1358')
                nm = rng.choice(['tool', 'my tool', 'tü']) + str(len(self.files)) + '.' + sec
                p, f = self.new_file('', name=nm, sub=sub)
                line = 'install_man(%s' % mstr(p)
                if rng.random() < 0.4:
                    base = self.pick_dir()
                    line += ', install_dir: %s' % mstr(base)
                else:
                    base = 'share/man/man' + sec
                line += self.mode_kw(mode) + ')'
                out.append(line)
                self.exp('file', base.rstrip('/') + '/' + os.path.basename(p), subname, 'man', True,
                         digest=digest(f['content']), srcmode=f['mode'], mode=mb)
            elif kind == 'emptydir':
                d = self.pick_dir().rstrip('/') + '/' + rng.choice(DIR_NAMES + ['e ', 'var/empty'])
                out.append('install_emptydir(%s%s%s)' % (mstr(d), self.mode_kw(mode), self.tag_kw(tag)))
                self.exp('dir', d, subname, tag, tag is not None, mode=mb, srcmode=None)
            elif kind == 'symlink':
                d = self.pick_dir()
                nm = rng.choice(DST_NAMES)
                tgt = rng.choice(LINK_TARGETS)
                out.append('install_symlink(%s, pointing_to: %s, install_dir: %s%s)' % (mstr(nm), mstr(tgt), mstr(d), self.tag_kw(tag)))
                self.exp('link', d.rstrip('/') + '/' + nm, subname, tag, tag is not None, target=tgt)
            elif kind == 'target':
                p, f = self.new_file('', sub=sub)
                oname = self.fresh('ct') + rng.choice(['.out', ' o', '.bin', 'ü'])
                d = self.pick_dir()
                pm = rng.choice(SRC_MODES)
                out.append('custom_target(%s, input: %s, output: %s, command: [\'cp\', \'@INPUT@\', \'@OUTPUT@\'], install: true, install_dir: %s%s%s)'
                           % (mstr(self.fresh('t')), mstr(p), mstr(oname), mstr(d), self.mode_kw(mode), self.tag_kw(tag)))
                content = 'BUILT-%d-%s' % (self.idx, oname)
                self.prebuilt.append({'path': os.path.join(sub, oname) if sub else oname, 'content': content, 'mode': pm, 'mtime': rng.choice(MTIMES)})
                self.exp('file', d.rstrip('/') + '/' + oname, subname, tag, tag is not None, digest=digest(content), srcmode=pm, mode=mb)
            else:   # subdir
                top = self.fresh('tree')
                tree = self.gen_tree(top, sub)
                d = self.pick_dir()
                strip = rng.random() < 0.4
                files = [t for t in tree if not t.get('dir')]
                dirs = [t for t in tree if t.get('dir') and t['rel']]
                ef = [t['rel'] for t in files if rng.random() < 0.25]
                ed = [t['rel'] for t in dirs if rng.random() < 0.25]
                ef_w, ed_w = list(ef), list(ed)
                if rng.random() < 0.2:
                    ef_w.append('no/such.txt')
                if rng.random() < 0.15 and ef:
                    ef_w.append(ef[0])        # duplicate
                if rng.random() < 0.15 and dirs:
                    x = dirs[0]['rel']
                    ed_w.append(x + '/../' + os.path.basename(x) if '/' not in x else x + '/.')   # normpath'ed by do_copydir
                    ed.append(x)
                line = 'install_subdir(%s, install_dir: %s' % (mstr(top), mstr(d))
                if ef_w:
                    line += ', exclude_files: [%s]' % ', '.join(mstr(x) for x in ef_w)
                if ed_w:
                    line += ', exclude_directories: [%s]' % ', '.join(mstr(x) for x in ed_w)
                if strip:
                    line += ', strip_directory: true'
                fs = rng.choice([None, None, True, False, False]) if any(t.get('link') is not None for t in tree) else None
                line += self.mode_kw(mode) + self.tag_kw(tag) + self.follow_kw(fs) + ')'
                out.append(line)
                base = d.rstrip('/') if strip else d.rstrip('/') + '/' + top
                self.exp('dir', base, subname, tag, tag is not None, mode=None, srcmode=None)
                for x in ed:
                    self.excluded_dirs.append(base + '/' + x)
                    rr = rng.random()
                    if rr < 0.25:
                        # another rule of the same project creates the excluded directory at the destination
                        out.append('install_emptydir(%s)' % mstr(base + '/' + x))
                        self.exp('dir', base + '/' + x, subname, None, False, mode=None, srcmode=None)
                    elif rr < 0.4:
                        p2, f2 = self.new_file('', sub=sub)
                        out.append('install_data(%s, install_dir: %s)' % (mstr(p2), mstr(base + '/' + x)))
                        self.exp('file', base + '/' + x + '/' + os.path.basename(p2), subname, None, False,
                                 digest=digest(f2['content']), srcmode=f2['mode'], mode=None)
                if strip and dirs and rng.random() < 0.35:
                    # a second install_subdir into the same install_dir that installs what this one excludes (and vice versa)
                    top2 = self.fresh('tree')
                    tree2 = self.gen_tree(top2, sub, like=tree)
                    dirs2 = [t['rel'] for t in tree2 if t.get('dir') and t['rel']]
                    ed2 = [x for x in dirs2 if x not in ed and rng.random() < 0.5]
                    line2 = 'install_subdir(%s, install_dir: %s, strip_directory: true' % (mstr(top2), mstr(d))
                    if ed2:
                        line2 += ', exclude_directories: [%s]' % ', '.join(mstr(x) for x in ed2)
                    out.append(line2 + ')')

                    def excl2(rel, isdir):
                        parts = rel.split('/')
                        return any('/'.join(parts[:i]) in ed2 for i in range(1, len(parts) + (1 if isdir else 0)))
                    for t in tree2:
                        if not t['rel'] or excl2(t['rel'], bool(t.get('dir'))):
                            continue
                        if t.get('dir'):
                            self.exp('dir', base + '/' + t['rel'], subname, None, False, mode=None, srcmode=t['mode'])
                        else:
                            self.exp_src(base + '/' + t['rel'], t, None, subname, None, False, None)
                    for x in ed2:
                        self.excluded_dirs.append(base + '/' + x)

                def excluded(rel, isdir):
                    parts = rel.split('/')
                    for i in range(1, len(parts) + (1 if isdir else 0)):
                        if '/'.join(parts[:i]) in ed:
                            return True
                    return (not isdir) and rel in ef
                for t in tree:
                    if not t['rel'] or excluded(t['rel'], bool(t.get('dir'))):
                        continue
                    if t.get('dir'):
                        self.exp('dir', base + '/' + t['rel'], subname, tag, tag is not None, mode=None, srcmode=t['mode'])
                    else:
                        self.exp_src(base + '/' + t['rel'], t, fs, subname, tag, tag is not None, mb)
        return out

    def gen_tree(self, top, sub, like=None):
        rng = self.rng
        tree = [{'rel': '', 'dir': True, 'mode': 0o755}]
        dirs = ['']
        if like is not None:
            for t in like:
                if t.get('dir') and t['rel']:
                    dirs.append(t['rel'])
                    tree.append({'rel': t['rel'], 'dir': True, 'mode': t['mode']})
        for _ in range(rng.choice([0, 1, 2, 3, 4]) if like is None else 0):
            parent = rng.choice(dirs)
            nm = rng.choice(DIR_NAMES)
            rel = (parent + '/' + nm) if parent else nm
            if rel in dirs:
                continue
            dirs.append(rel)
            tree.append({'rel': rel, 'dir': True, 'mode': rng.choice([0o755, 0o750, 0o700, 0o775])})
        seen = set()
        for _ in range(rng.choice([1, 2, 3, 4, 6, 8])):
            parent = rng.choice(dirs[1:] or dirs) if rng.random() < 0.6 else rng.choice(dirs)
            nm = rng.choice(SRC_NAMES)
            rel = (parent + '/' + nm) if parent else nm
            if rel in seen or rel in dirs:
                continue
            seen.add(rel)
            tree.append({'rel': rel, 'content': 'T%d-%s-%s' % (self.idx, top, rel), 'mode': rng.choice(SRC_MODES), 'mtime': rng.choice(MTIMES)})
        regs = [t for t in tree if not t.get('dir')]
        for _ in range(rng.choice([0, 0, 0, 1, 1, 2])):
            parent = rng.choice(dirs)
            rel = (parent + '/' if parent else '') + self.fresh('lnk')
            sib = [t for t in regs if os.path.dirname(t['rel']) == parent]
            r = rng.random()
            if sib and r < 0.5:
                tt = rng.choice(sib)
                tree.append({'rel': rel, 'link': os.path.basename(tt['rel']), 'content': tt['content'], 'mode': tt['mode']})
            elif r < 0.8:
                tree.append({'rel': rel, 'link': '@ROOT@/' + self.SENTINEL['path'], 'content': self.SENTINEL['content'], 'mode': self.SENTINEL['mode']})
            else:
                tree.append({'rel': rel, 'link': rng.choice(['nowhere', '../gone', '@ROOT@/sentinel/none']), 'content': None, 'mode': 0})
        for t in tree:
            p = os.path.join(sub, top, t['rel']) if t['rel'] else os.path.join(sub, top)
            if t.get('dir'):
                self.files.append({'path': p, 'dir': True, 'mode': t['mode']})
            elif t.get('link') is not None:
                self.files.append({'path': p, 'link': t['link']})
            else:
                self.files.append({'path': p, 'content': t['content'], 'mode': t['mode'], 'mtime': t['mtime']})
        return tree

    def build(self, nrules=None, nhist=4):
        rng = self.rng
        nrules = nrules if nrules is not None else rng.choice([1, 2, 3, 4, 5, 7])
        top = ["project('proj%d')" % self.idx] + self.rules('', '', nrules)
        subs = []
        if rng.random() < 0.4:
            for sn in rng.sample(['sp', 'sub two', 'zlibü'], rng.choice([1, 1, 2])):
                safe = sn
                body = ["project(%s)" % mstr(sn)] + self.rules('subprojects/' + safe, sn, rng.choice([1, 2, 3]))
                self.files.append({'path': 'subprojects/%s/meson.build' % safe, 'content': '\n'.join(body) + '\n'})
                top.append('subproject(%s)' % mstr(sn))
                subs.append(sn)
        self.files.append({'path': 'meson.build', 'content': '\n'.join(top) + '\n'})
        um = rng.choice(UMASKS)
        args = ['--prefix=@ROOT@/' + rng.choice(PREFIXES)]
        if um is not None:
            args.append('-Dinstall_umask=' + um)
        if rng.random() < 0.15:
            args.append('--includedir=include')   # explicit default
        alltags = sorted({e['tag'] for e in self.expect if e['tag']})
        hists = []
        for h in range(nhist):
            hists.append(self.history(h, subs, alltags))
        return {'idx': self.idx, 'files': self.files, 'prebuilt': self.prebuilt, 'setup_args': args, 'expect': self.expect,
                'histories': hists, 'hostile': self.hostile, 'subprojects': subs, 'excluded_dirs': self.excluded_dirs,
                'root_files': [dict(self.SENTINEL)]}

    def inst(self, **kw):
        d = {'op': 'install'}
        d.update(kw)
        return d

    def rand_inst(self, subs, alltags):
        rng = self.rng
        kw = {}
        r = rng.random()
        if r < 0.25 and alltags:
            k = rng.choice([1, 1, 2])
            kw['tags'] = rng.choice([',', ' , ', ', ']).join(rng.sample(alltags, min(k, len(alltags)))) if rng.random() < 0.8 else rng.choice(['nosuch', ',', 'devel, man'])
        elif r < 0.4:
            kw['skip'] = rng.choice(['*DEFAULT*', '*', (subs[0] if subs else 'sp'), ' sp , zlibü', 'nosuch', ''] + subs)
        if rng.random() < 0.2:
            kw['only_changed'] = True
        if rng.random() < 0.15:
            kw['dry'] = True
        return self.inst(**kw)

    def history(self, h, subs, alltags):
        rng = self.rng
        hist = {'umask': rng.choice([0o022, 0o022, 0o027, 0o077, 0o002]), 'destdir_style': rng.choice(['opt', 'opt', 'opt', 'env', 'slash', 'rel', 'dslash'])}
        if h == 0:
            hist['steps'] = [self.inst(), {'op': 'uninstall'}]
        elif h == 1:
            i = self.rand_inst(subs, alltags)
            i.pop('dry', None)
            hist['steps'] = [i, copy.deepcopy(i), {'op': 'uninstall'}]
        elif h == 2:
            hist['pre'] = self.prepop()
            steps = [self.rand_inst(subs, alltags)]
            for _ in range(rng.choice([1, 2])):
                steps.append(rng.choice([self.rand_inst(subs, alltags), {'op': 'uninstall'}, self.inst(only_changed=True), self.inst(dry=True)]))
            hist['steps'] = steps
        else:
            steps = []
            for _ in range(rng.choice([2, 3, 4])):
                steps.append(rng.choice([self.rand_inst(subs, alltags), self.rand_inst(subs, alltags), {'op': 'uninstall'}, self.inst()]))
            if rng.random() < 0.5:
                steps[0] = self.inst(dry=True)
            hist['steps'] = steps
        return hist

    def prepop(self):
        """pre-existing content of DESTDIR: older/newer/equal files at destinations, conflicting kinds,
        directories with odd modes, unrelated files, stale links"""
        rng = self.rng
        pre = [{'path': '@D@', 'dir': True, 'mode': rng.choice([0o755, 0o700, 0o777])}]
        if rng.random() < 0.7:
            pre.append({'path': '@D@/junk/keep me.txt', 'content': 'KEEP', 'mode': 0o600, 'mtime': 1300000000})
        for e in self.expect:
            if rng.random() > 0.35:
                continue
            dest = e['dest']
            if '..' in dest.split('/'):
                continue
            p = ('@D@' + dest) if dest.startswith('@ROOT@') else '@PFX@/' + dest
            r = rng.random()
            if e['kind'] == 'file':
                if r < 0.6:
                    pre.append({'path': p, 'content': 'OLD', 'mode': rng.choice([0o600, 0o644, 0o755]), 'mtime': rng.choice([1300000000] + MTIMES + [1700000000])})
                elif r < 0.7:
                    pre.append({'path': p, 'dir': True, 'mode': 0o755})
                elif r < 0.8:
                    pre.append({'path': os.path.dirname(p), 'dir': True, 'mode': rng.choice([0o700, 0o711, 0o775])})
                else:
                    # a symbolic link is in the way of a file: dangling, to a file, to a directory, absolute
                    pre.append({'path': p, 'link': rng.choice(['stale', 'stale', 'keep-target', '.', '@ROOT@/outside/x', '../up'])})
            elif e['kind'] == 'dir':
                if r < 0.5:
                    pre.append({'path': p, 'dir': True, 'mode': rng.choice([0o700, 0o711, 0o775])})
                elif r < 0.6:
                    pre.append({'path': p, 'content': 'FILE-IN-THE-WAY', 'mode': 0o644, 'mtime': 1300000000})
            else:
                if r < 0.5:
                    pre.append({'path': p, 'link': 'stale'})
                elif r < 0.6:
                    pre.append({'path': p, 'content': 'FILE-IN-THE-WAY', 'mode': 0o644, 'mtime': 1300000000})
        for x in self.excluded_dirs:
            if rng.random() < 0.5 and '..' not in x.split('/'):
                px = ('@D@' + x) if x.startswith('@ROOT@') else '@PFX@/' + x
                pre.append({'path': px, 'dir': True, 'mode': rng.choice([0o755, 0o700])})
        # keep the first occurrence of every path; drop entries below a path that is a file/link
        seen, out = {}, []
        for f in pre:
            q = os.path.normpath(f['path'].replace('@D@', '/D').replace('@PFX@', '/D/PFX').replace('@ROOT@', '/R'))
            if q in seen:
                continue
            seen[q] = f
            out.append(f)
        blockers = [q for q, f in seen.items() if not f.get('dir')]
        out2 = []
        for f in out:
            q = os.path.normpath(f['path'].replace('@D@', '/D').replace('@PFX@', '/D/PFX').replace('@ROOT@', '/R'))
            if any(q != b and q.startswith(b + '/') for b in blockers):
                continue
            out2.append(f)
        return out2


def file_conflicts(expect):
    """two rules give the same FILE (or link) destination different content / mode / target: contradictory
    rules, outside what the property specifies (directories may be shared)"""
    seen = {}
    for e in expect:
        if e['kind'] == 'dir':
            continue
        key = os.path.normpath(e['dest'])
        attrs = (e['kind'], e.get('digest'), e.get('srcmode'), e.get('mode'), e.get('target'))
        if seen.setdefault(key, attrs) != attrs:
            return True
    return False


def gen_project(rng, idx, hostile=False, nhist=4):
    """a generated project whose rules do not contradict each other (retry with fresh random choices)"""
    for _ in range(40):
        spec = ProjGen(rng, idx, hostile=hostile).build(nhist=nhist)
        if not file_conflicts(spec['expect']):
            return spec
    spec['no_expect'] = True
    return spec


# ---------------------------------------------------------------------------- hand-picked corner projects
def corpus_projects():
    """run first on every check: minimal projects for every clause and every candidate defect"""
    out = []

    def proj(idx, body, files, expect, hists, args=None, hostile=False, prebuilt=None):
        fl = list(files) + [{'path': 'meson.build', 'content': "project('c%d')\n" % idx + body + '\n'}]
        return {'idx': idx, 'files': fl, 'prebuilt': prebuilt or [], 'setup_args': args or ['--prefix=@ROOT@/pfx'], 'expect': expect,
                'histories': hists, 'hostile': hostile, 'subprojects': []}
    A = {'path': 'a.txt', 'content': 'AAA', 'mode': 0o644, 'mtime': 1500000000}
    X = {'path': 'x.sh', 'content': 'XXX', 'mode': 0o755, 'mtime': 1500000000}
    full = [{'op': 'install'}, {'op': 'uninstall'}]
    # 1: plain data + mode + absolute dir
    out.append(proj(9001, "install_data('a.txt', install_dir: 'share/p')\ninstall_data('x.sh', install_dir: '@ROOT@/abs/etc', install_mode: 'rwxr-x---')",
                    [A, X], [dict(kind='file', dest='share/p/a.txt', sub='', tag=None, tag_known=False, digest=digest('AAA'), srcmode=0o644, mode=None),
                             dict(kind='file', dest='@ROOT@/abs/etc/x.sh', sub='', tag=None, tag_known=False, digest=digest('XXX'), srcmode=0o755, mode=0o750)],
                    [{'steps': full}, {'steps': [{'op': 'install'}, {'op': 'install'}]}, {'steps': [{'op': 'install', 'dry': True}]},
                     {'steps': [{'op': 'install'}, {'op': 'install', 'only_changed': True}, {'op': 'uninstall'}]}]))
    # 2: names that str.strip() alters (candidate defect k, second half)
    out.append(proj(9002, "install_data('a.txt', rename: 'x ', install_dir: 'share/sp ')\ninstall_emptydir('share/e　')\ninstall_symlink('l\t', pointing_to: 'a', install_dir: 'share/q')",
                    [A], [dict(kind='file', dest='share/sp /x ', sub='', tag=None, tag_known=False, digest=digest('AAA'), srcmode=0o644, mode=None),
                          dict(kind='dir', dest='share/e　', sub='', tag=None, tag_known=False, mode=None, srcmode=None),
                          dict(kind='link', dest='share/q/l\t', sub='', tag=None, tag_known=False, target='a')],
                    [{'steps': full}, {'pre': [{'path': '@PFX@/share/sp', 'dir': True, 'mode': 0o755}], 'steps': full}]))
    # 3: '..' in an install dir (candidate defect k, first half)
    out.append(proj(9003, "install_data('a.txt', install_dir: '../../../../../../../../esc')\ninstall_data('x.sh', install_dir: 'share/../lib2')",
                    [A, X], [dict(kind='file', dest='../../../../../../../../esc/a.txt', sub='', tag=None, tag_known=False, digest=digest('AAA'), srcmode=0o644, mode=None),
                             dict(kind='file', dest='share/../lib2/x.sh', sub='', tag=None, tag_known=False, digest=digest('XXX'), srcmode=0o755, mode=None)],
                    [{'steps': full}], hostile=True))
    # 4: subdir with excludes, strip_directory, preserve umask
    tree = [{'path': 't', 'dir': True, 'mode': 0o755}, {'path': 't/d1', 'dir': True, 'mode': 0o750}, {'path': 't/d1/in', 'content': 'IN', 'mode': 0o600, 'mtime': 1400000000},
            {'path': 't/top', 'content': 'TOP', 'mode': 0o755, 'mtime': 1400000000}, {'path': 't/no', 'content': 'NO', 'mode': 0o644, 'mtime': 1400000000},
            {'path': 't/ex', 'dir': True, 'mode': 0o755}, {'path': 't/ex/gone', 'content': 'G', 'mode': 0o644, 'mtime': 1400000000}]
    out.append(proj(9004, "install_subdir('t', install_dir: 'share/s', exclude_files: ['no'], exclude_directories: ['ex'], strip_directory: true)\ninstall_subdir('t', install_dir: 'share/u')",
                    tree, [dict(kind='dir', dest='share/s', sub='', tag=None, tag_known=False, mode=None, srcmode=None),
                           dict(kind='dir', dest='share/s/d1', sub='', tag=None, tag_known=False, mode=None, srcmode=0o750),
                           dict(kind='file', dest='share/s/d1/in', sub='', tag=None, tag_known=False, digest=digest('IN'), srcmode=0o600, mode=None),
                           dict(kind='file', dest='share/s/top', sub='', tag=None, tag_known=False, digest=digest('TOP'), srcmode=0o755, mode=None),
                           dict(kind='dir', dest='share/u/t', sub='', tag=None, tag_known=False, mode=None, srcmode=None),
                           dict(kind='dir', dest='share/u/t/d1', sub='', tag=None, tag_known=False, mode=None, srcmode=0o750),
                           dict(kind='dir', dest='share/u/t/ex', sub='', tag=None, tag_known=False, mode=None, srcmode=0o755),
                           dict(kind='file', dest='share/u/t/d1/in', sub='', tag=None, tag_known=False, digest=digest('IN'), srcmode=0o600, mode=None),
                           dict(kind='file', dest='share/u/t/top', sub='', tag=None, tag_known=False, digest=digest('TOP'), srcmode=0o755, mode=None),
                           dict(kind='file', dest='share/u/t/no', sub='', tag=None, tag_known=False, digest=digest('NO'), srcmode=0o644, mode=None),
                           dict(kind='file', dest='share/u/t/ex/gone', sub='', tag=None, tag_known=False, digest=digest('G'), srcmode=0o644, mode=None)],
                    [{'steps': full, 'umask': 0o027}, {'steps': [{'op': 'install'}, {'op': 'install'}, {'op': 'uninstall'}]}, {'steps': [{'op': 'install', 'dry': True}, {'op': 'uninstall'}]}],
                    args=['--prefix=@ROOT@/my pfx', '-Dinstall_umask=preserve']))
    # 5: tags and symlink replacement, emptydir with mode, umask 077
    out.append(proj(9005, "install_data('a.txt', install_dir: 'share/p', install_tag: 'doc')\ninstall_data('x.sh', install_dir: 'share/p', install_tag: 'runtime')\n"
                          "install_symlink('lnk', pointing_to: 'a.txt', install_dir: 'share/p', install_tag: 'runtime')\ninstall_emptydir('var/e', install_mode: 'rwx------', install_tag: 'doc')",
                    [A, X], [dict(kind='file', dest='share/p/a.txt', sub='', tag='doc', tag_known=True, digest=digest('AAA'), srcmode=0o644, mode=None),
                             dict(kind='file', dest='share/p/x.sh', sub='', tag='runtime', tag_known=True, digest=digest('XXX'), srcmode=0o755, mode=None),
                             dict(kind='link', dest='share/p/lnk', sub='', tag='runtime', tag_known=True, target='a.txt'),
                             dict(kind='dir', dest='var/e', sub='', tag='doc', tag_known=True, mode=0o700, srcmode=None)],
                    [{'steps': [{'op': 'install', 'tags': 'doc'}, {'op': 'uninstall'}]}, {'steps': [{'op': 'install', 'tags': ' runtime , nosuch'}, {'op': 'install', 'tags': ' runtime , nosuch'}]},
                     {'steps': full, 'destdir_style': 'rel'}, {'pre': [{'path': '@PFX@/share/p/lnk', 'link': 'stale'}, {'path': '@PFX@/share/p/a.txt', 'content': 'OLD', 'mode': 0o600, 'mtime': 1600000000}],
                                                            'steps': [{'op': 'install', 'only_changed': True}, {'op': 'uninstall'}]}],
                    args=['--prefix=@ROOT@/pfx', '-Dinstall_umask=077']))
    # 6: a dangling symbolic link is already where a file is to be installed (finding C11:symlink-write-through)
    out.append(proj(9006, "install_data('a.txt', install_dir: 'share/p')",
                    [A], [dict(kind='file', dest='share/p/a.txt', sub='', tag=None, tag_known=False, digest=digest('AAA'), srcmode=0o644, mode=None)],
                    [{'pre': [{'path': '@PFX@/share/p/a.txt', 'link': '@ROOT@/outside/escaped.txt'}, {'path': '@ROOT@/outside', 'dir': True, 'mode': 0o755}],
                      'steps': [{'op': 'install'}, {'op': 'uninstall'}]},
                     {'pre': [{'path': '@PFX@/share/p/a.txt', 'link': 'stale'}], 'steps': [{'op': 'install', 'dry': True}, {'op': 'install'}, {'op': 'uninstall'}]}]))
    # 7: exclusions hold whatever exists at the destination: the excluded directory is created by another rule
    #    (so it exists at the second install), exists beforehand, or is installed by a sibling install_subdir
    tree7 = [{'path': 't', 'dir': True, 'mode': 0o755}, {'path': 't/ex', 'dir': True, 'mode': 0o755}, {'path': 't/ex/deep', 'dir': True, 'mode': 0o755},
             {'path': 't/ex/gone', 'content': 'G', 'mode': 0o644, 'mtime': 1400000000}, {'path': 't/ex/deep/gone2', 'content': 'G2', 'mode': 0o644, 'mtime': 1400000000},
             {'path': 't/keep', 'content': 'K', 'mode': 0o644, 'mtime': 1400000000}, {'path': 't/no', 'content': 'NO', 'mode': 0o644, 'mtime': 1400000000},
             {'path': 'u', 'dir': True, 'mode': 0o755}, {'path': 'u/ex', 'dir': True, 'mode': 0o755}, {'path': 'u/ex/mine', 'content': 'M', 'mode': 0o644, 'mtime': 1400000000}]
    b7 = dict(sub='', tag=None, tag_known=False)
    out.append(proj(9007, "install_subdir('u', install_dir: 'share/s', strip_directory: true)\n"
                          "install_subdir('t', install_dir: 'share/s', strip_directory: true, exclude_directories: ['ex'], exclude_files: ['no'])\n"
                          "install_subdir('t', install_dir: 'share/r', strip_directory: true, exclude_directories: ['ex/deep'])\ninstall_emptydir('share/r/ex/deep')",
                    tree7, [dict(b7, kind='dir', dest='share/s', mode=None, srcmode=None), dict(b7, kind='dir', dest='share/s/ex', mode=None, srcmode=0o755),
                            dict(b7, kind='file', dest='share/s/ex/mine', digest=digest('M'), srcmode=0o644, mode=None),
                            dict(b7, kind='file', dest='share/s/keep', digest=digest('K'), srcmode=0o644, mode=None),
                            dict(b7, kind='dir', dest='share/r', mode=None, srcmode=None), dict(b7, kind='dir', dest='share/r/ex', mode=None, srcmode=0o755),
                            dict(b7, kind='file', dest='share/r/ex/gone', digest=digest('G'), srcmode=0o644, mode=None),
                            dict(b7, kind='file', dest='share/r/keep', digest=digest('K'), srcmode=0o644, mode=None),
                            dict(b7, kind='file', dest='share/r/no', digest=digest('NO'), srcmode=0o644, mode=None),
                            dict(b7, kind='dir', dest='share/r/ex/deep', mode=None, srcmode=None)],
                    [{'steps': [{'op': 'install'}, {'op': 'install'}, {'op': 'uninstall'}]},
                     {'pre': [{'path': '@PFX@/share/r/ex/deep', 'dir': True, 'mode': 0o755}], 'steps': [{'op': 'install'}, {'op': 'uninstall'}]}]))
    # 8: sources that are symbolic links, installed as links: the mode of what they point to (inside the installed
    #    tree, or a sentinel outside DESTDIR and outside the source tree) must not change
    t8 = [{'path': 'real.txt', 'content': 'REAL', 'mode': 0o644, 'mtime': 1500000000}, {'path': 'alias.txt', 'link': 'real.txt'},
          {'path': 'k', 'dir': True, 'mode': 0o755}, {'path': 'k/f', 'content': 'F', 'mode': 0o600, 'mtime': 1400000000},
          {'path': 'k/to-f', 'link': 'f'}, {'path': 'k/out', 'link': '@ROOT@/sentinel/secret.txt'}, {'path': 'k/dang', 'link': 'nowhere'}]
    b8 = dict(sub='', tag=None, tag_known=False)
    p8 = proj(9008, "install_data('real.txt', 'alias.txt', install_dir: 'share/p', follow_symlinks: false)\n"
                    "install_subdir('k', install_dir: 'share/q', follow_symlinks: false)\n"
                    "install_data('alias.txt', install_dir: 'share/followed', follow_symlinks: true, install_mode: 'rw-r-----')",
              t8, [dict(b8, kind='file', dest='share/p/real.txt', digest=digest('REAL'), srcmode=0o644, mode=None),
                   dict(b8, kind='link', dest='share/p/alias.txt', target='real.txt'),
                   dict(b8, kind='dir', dest='share/q/k', mode=None, srcmode=None),
                   dict(b8, kind='file', dest='share/q/k/f', digest=digest('F'), srcmode=0o600, mode=None),
                   dict(b8, kind='link', dest='share/q/k/to-f', target='f'), dict(b8, kind='link', dest='share/q/k/out', target='@ROOT@/sentinel/secret.txt'),
                   dict(b8, kind='link', dest='share/q/k/dang', target='nowhere'),
                   dict(b8, kind='file', dest='share/followed/alias.txt', digest=digest('REAL'), srcmode=0o644, mode=0o640)],
              [{'steps': [{'op': 'install'}, {'op': 'install'}, {'op': 'uninstall'}]}, {'steps': [{'op': 'install', 'only_changed': True}, {'op': 'install', 'only_changed': True}]}],
              args=['--prefix=@ROOT@/pfx', '-Dinstall_umask=022'])
    p8['root_files'] = [dict(ProjGen.SENTINEL)]
    out.append(p8)
    return out



def exhaustive_projects():
    """small exhaustive enumeration: every rule kind x umask x {relative, absolute} install dir x {no mode, mode}
    as a single-rule project, each with the history install; install; uninstall"""
    out = []
    idx = 20000
    A = {'path': 'a b.txt', 'content': 'AAA', 'mode': 0o755, 'mtime': 1500000000}
    M = {'path': 'tool.1', 'content': 'MAN', 'mode': 0o644, 'mtime': 1500000000}
    tree = [{'path': 't', 'dir': True, 'mode': 0o755}, {'path': 't/d1', 'dir': True, 'mode': 0o750},
            {'path': 't/d1/in', 'content': 'IN', 'mode': 0o600, 'mtime': 1400000000}, {'path': 't/top', 'content': 'TOP', 'mode': 0o644, 'mtime': 1400000000}]
    for kind in ('data', 'headers', 'man', 'subdir', 'emptydir', 'symlink', 'target'):
        for um in (None, '077', 'preserve'):
            for d in ('share/x y', '@ROOT@/abs/e'):
                for mode in (None, 'rwxr-x---'):
                    if kind == 'symlink' and mode:
                        continue
                    mb = perms_bits(mode)
                    mk = (", install_mode: '%s'" % mode) if mode else ''
                    files, exp, pre = [], [], []
                    base = dict(sub='', tag=None, tag_known=False)
                    if kind == 'data':
                        body = "install_data('a b.txt', install_dir: %s%s)" % (mstr(d), mk)
                        files = [A]
                        exp = [dict(base, kind='file', dest=d + '/a b.txt', digest=digest('AAA'), srcmode=0o755, mode=mb)]
                    elif kind == 'headers':
                        body = "install_headers('a b.txt', install_dir: %s%s)" % (mstr(d), mk)
                        files = [A]
                        exp = [dict(base, kind='file', dest=d + '/a b.txt', digest=digest('AAA'), srcmode=0o755, mode=mb, tag='devel', tag_known=True)]
                    elif kind == 'man':
                        body = "install_man('tool.1', install_dir: %s%s)" % (mstr(d), mk)
                        files = [M]
                        exp = [dict(base, kind='file', dest=d + '/tool.1', digest=digest('MAN'), srcmode=0o644, mode=mb, tag='man', tag_known=True)]
                    elif kind == 'subdir':
                        body = "install_subdir('t', install_dir: %s%s)" % (mstr(d), mk)
                        files = tree
                        exp = [dict(base, kind='dir', dest=d + '/t', mode=None, srcmode=None), dict(base, kind='dir', dest=d + '/t/d1', mode=None, srcmode=0o750),
                               dict(base, kind='file', dest=d + '/t/d1/in', digest=digest('IN'), srcmode=0o600, mode=mb),
                               dict(base, kind='file', dest=d + '/t/top', digest=digest('TOP'), srcmode=0o644, mode=mb)]
                    elif kind == 'emptydir':
                        body = "install_emptydir(%s%s)" % (mstr(d + '/e m'), mk)
                        exp = [dict(base, kind='dir', dest=d + '/e m', mode=mb, srcmode=None)]
                    elif kind == 'symlink':
                        body = "install_symlink('l n', pointing_to: 'a b.txt', install_dir: %s)" % mstr(d)
                        exp = [dict(base, kind='link', dest=d + '/l n', target='a b.txt')]
                    else:
                        body = "custom_target('t', input: 'a b.txt', output: 'o.bin', command: ['cp', '@INPUT@', '@OUTPUT@'], install: true, install_dir: %s%s)" % (mstr(d), mk)
                        files = [A]
                        pre = [{'path': 'o.bin', 'content': 'BIN', 'mode': 0o755, 'mtime': 1500000000}]
                        exp = [dict(base, kind='file', dest=d + '/o.bin', digest=digest('BIN'), srcmode=0o755, mode=mb)]
                    idx += 1
                    out.append({'idx': idx, 'files': list(files) + [{'path': 'meson.build', 'content': "project('x%d')\n%s\n" % (idx, body)}],
                                'prebuilt': pre, 'setup_args': ['--prefix=@ROOT@/pfx'] + (['-Dinstall_umask=' + um] if um else []), 'expect': exp,
                                'histories': [{'steps': [{'op': 'install'}, {'op': 'install'}, {'op': 'uninstall'}], 'umask': 0o027}],
                                'hostile': False, 'subprojects': []})
    return out


# ---------------------------------------------------------------------------- comparison
def parse_model(out):
    blocks, cur = [], None
    for line in out.split('\n'):
        if line.startswith('='):
            cur = {'status': line[1:], 'nodes': [], 'log': []}
            blocks.append(cur)
        elif cur is not None:
            if line.startswith('N' + S1):
                cur['nodes'].append(line)
            else:
                cur['log'].append(line)
    return blocks


def under(p, d):
    return p == d or p.startswith(d + '/')


def compare(hist_res, model_out):
    """-> (None | description of the first difference, out_of_model?)"""
    mb = parse_model(model_out)
    arena = hist_res['arena']
    for k, ib in enumerate(hist_res['impl']):
        if k >= len(mb):
            return 'model produced no block for step %d' % k, False
        m = mb[k]
        if m['status'] == 'OOM':
            return None, True
        if m['status'] != ib['status']:
            return 'step %d: status model=%s implementation=%s (%s)' % (k, m['status'], ib['status'], ib.get('tail', '')[-200:]), False
        mn = sorted(l for l in m['nodes'] if under(l.split(S1)[1], arena))
        if mn != ib['nodes']:
            ms, is_ = set(mn), set(ib['nodes'])
            return 'step %d: tree differs; only in model: %r; only in implementation: %r' % (k, sorted(ms - is_)[:4], sorted(is_ - ms)[:4]), False
        if sorted(m['log']) != sorted(ib['log']):
            ms, is_ = set(m['log']), set(ib['log'])
            return 'step %d: install log differs; only in model: %r; only in implementation: %r' % (k, sorted(ms - is_)[:4], sorted(is_ - ms)[:4]), False
    return None, False


def classify(f, spec, hist_res):
    """stable identifier of an oracle failure (matched against known_findings.json)"""
    if spec.get('hostile'):
        return 'C11:dotdot-escape'
    if f.get('via_symlink'):
        return 'C11:symlink-write-through'
    kind = f['kind']
    if kind in ('uninstall_left', 'uninstall_not_inverse', 'uninstall_touched_other', 'uninstall_left_files'):
        p = f.get('line') or f.get('path') or ''
        loglines = [l[2:] for b in hist_res['impl'] for l in b['log'] if l.startswith('G')]
        if any(l != l.strip() and (p == l or p == l.strip() or under(l, p) or under(p, l.strip())) for l in loglines):
            return 'C11:uninstall-strip'
    return 'C11:%s:proj%s' % (kind, spec['idx'])


PATH_ATOMS = ['', 'a', 'b c', '.', '..', 'ü', 'x.y']


def gen_path(rng):
    n = rng.choice([0, 1, 1, 2, 2, 3, 4, 6])
    comps = [rng.choice(PATH_ATOMS) for _ in range(n)]
    s = '/'.join(comps)
    r = rng.random()
    if r < 0.45:
        s = '/' + s
    elif r < 0.55:
        s = '//' + s
    elif r < 0.6:
        s = '///' + s
    if rng.random() < 0.2:
        s += '/'
    return s


def path_cases(rng, n):
    cases = [('join', ['/a', 'b']), ('join', ['a/', '/b']), ('join', ['', 'b']), ('join', ['a', '']), ('dirname', ['/']), ('dirname', ['//a']),
             ('dirname', ['a//b']), ('dirname', ['///']), ('normpath', ['']), ('normpath', ['//']), ('normpath', ['///a/../..']), ('normpath', ['a/../../b']),
             ('djoin', ['/d', '/usr']), ('djoin', ['/d/', '//usr/./x/']), ('djoin', ['//d', '/']), ('djoin', ['', '/usr']), ('djoin', ['/', '/usr']),
             ('basename', ['a/b/']), ('isabs', ['']), ('isabs', ['/']),
             ('should', ['0', '', '', '', '0', '']), ('should', ['1', 'a, b', '', '', '1', 'b']), ('should', ['1', ',', '*', 'sp', '1', '']),
             ('should', ['0', '', 'x, sp ', 'sp', '0', ''])]
    for _ in range(n):
        k = rng.random()
        if k < 0.25:
            cases.append(('join', [gen_path(rng), gen_path(rng)]))
        elif k < 0.4:
            cases.append(('dirname', [gen_path(rng)]))
        elif k < 0.5:
            cases.append(('basename', [gen_path(rng)]))
        elif k < 0.7:
            cases.append(('normpath', [gen_path(rng)]))
        elif k < 0.75:
            cases.append(('isabs', [gen_path(rng)]))
        elif k < 0.9:
            a = gen_path(rng)
            b = gen_path(rng)
            if not b.startswith('/'):
                b = '/' + b
            cases.append(('djoin', [a if a.startswith('/') or a == '' else '/' + a, b]))
        else:
            tags = rng.choice(['', 'a', 'a,b', ' a , b ', ',', 'b,', 'tg x'])
            tp = rng.choice(['0', '1'])
            skip = rng.choice(['', '*', 'sp', 'sp, x', ' sp ', 'x,*'])
            sub = rng.choice(['', 'sp', 'x', 'other'])
            tgp = rng.choice(['0', '1'])
            tg = rng.choice(['', 'a', 'b', 'tg x'])
            cases.append(('should', [tp, tags, skip, sub, tgp, tg]))
    return cases


# ---------------------------------------------------------------------------- run
def run_projects(ctx, specs):
    scratch = ctx.mkscratch()

    def one(spec):
        d = os.path.join(scratch, 'p%s' % spec['idx'])
        if os.path.exists(d):
            shutil.rmtree(d)
        os.makedirs(d)
        try:
            return run_impl('c11.py', {'project': spec, 'dir': d, 'repo': REPO, 'ninja': os.path.join(VERIF, 'tools', 'fakeninja'),
                                       'exec': bool(spec.get('exec'))}, timeout=900)
        finally:
            shutil.rmtree(d, ignore_errors=True)
    return pmap(one, specs)


def evaluate(ctx, specs, results, built, stats):
    """model vs implementation, oracle failures -> ctx"""
    cases, owners = [], []
    for spec, res in zip(specs, results):
        if 'adapter_error' in res:
            raise HarnessError('adapter failed on project %s: %s' % (spec['idx'], res['adapter_error']))
        if not res.get('setup_ok'):
            stats['setup_rejected'] += 1
            stats.setdefault('setup_errors', []).append(res.get('setup_err', '')[-300:])
            continue
        stats['projects'] += 1
        stats['hostile_projects'] = stats.get('hostile_projects', 0) + (1 if spec.get('hostile') else 0)
        stats['with_subprojects'] = stats.get('with_subprojects', 0) + (1 if spec.get('subprojects') else 0)
        for e in spec['expect']:
            k = 'expected_' + e['kind'] + ('_abs' if e['dest'].startswith('@ROOT@') else '')
            stats[k] = stats.get(k, 0) + 1
        for it, n in (res.get('meta', {}).get('items') or {}).items():
            stats['plan_' + it] = stats.get('plan_' + it, 0) + n
        for hi, hr in enumerate(res['histories']):
            stats['histories'] += 1
            if spec['histories'][hi].get('pre'):
                stats['prepopulated_histories'] = stats.get('prepopulated_histories', 0) + 1
            ds = spec['histories'][hi].get('destdir_style', 'opt')
            stats['destdir_' + ds] = stats.get('destdir_' + ds, 0) + 1
            stats['steps'] += len(hr['impl'])
            for b, st in zip(hr['impl'], spec['histories'][hi]['steps']):
                key = st['op'] + ('-dry' if st.get('dry') else '') + ('-only_changed' if st.get('only_changed') else '') + \
                    ('-tags' if st.get('tags') is not None else '') + ('-skip' if st.get('skip') is not None else '')
                stats['ops'][key] = stats['ops'].get(key, 0) + 1
                stats['status'][b['status']] = stats['status'].get(b['status'], 0) + 1
            cases.append(('hist', hr['records']))
            owners.append((spec, res, hi, hr))
            for f in hr['oracle']:
                ident = classify(f, spec, hr)
                one = copy.deepcopy(spec)
                one['histories'] = [spec['histories'][hi]]
                ctx.violation(ident, 'property clause %s fails on the implementation (project %s, history %d): %s'
                              % (f['kind'], spec['idx'], hi, json.dumps(f, ensure_ascii=False)[:600]),
                              {'project': one, 'failure': f})
    model = ctx.run_model(cases) if built and cases else [None] * len(cases)
    for (spec, res, hi, hr), (fn, recs), mo in zip(owners, cases, model):
        ctx.count((spec['idx'], hi, len(recs), hash(tuple(recs))), nontrivial=True)
        if mo is None:
            continue
        if res.get('oom'):
            stats['out_of_model'] += 1
            continue
        diff, oom = compare(hr, mo)
        if oom:
            stats['out_of_model'] += 1
        elif diff:
            one = copy.deepcopy(spec)
            one['histories'] = [spec['histories'][hi]]
            if len(ctx.disagreements) < 60:
                ctx.disagreements.append({'project': spec['idx'], 'history': hi, 'difference': diff, 'replay': {'project': one}})
    return cases, model


def replay(ctx):
    rec = json.load(open(ctx.replay))
    if 'replay' in rec:
        items = [rec['replay']]
    else:
        items = [d.get('replay') or {'case': d['case']} for d in rec.get('correspondence_disagreements', [])]
    built = ctx.build('Props/C11.v', 'Install/Extract.v', 'C11')
    for r in items:
        if 'case' in r:
            print('replaying', json.dumps(r['case'], ensure_ascii=False))
            print('implementation:', repr(run_impl('c11.py', {'paths': [r['case']]})['results'][0]))
            if built:
                print('model         :', repr(ctx.run_model([tuple(r['case'])])[0]))
            continue
        spec = r['project']
        print('replaying project %s (%d histories); meson.build:' % (spec['idx'], len(spec['histories'])))
        print([f['content'] for f in spec['files'] if f['path'] == 'meson.build'][0])
        print('setup args:', spec['setup_args'])
        print('histories:', json.dumps([{k: v for k, v in h.items() if not k.startswith('_')} for h in spec['histories']], ensure_ascii=False))
        if 'failure' in r:
            print('recorded failure:', json.dumps(r['failure'], ensure_ascii=False))
        res = run_projects(ctx, [spec])[0]
        if not res.get('setup_ok'):
            print('meson setup failed:', res.get('setup_err'))
            continue
        for hi, hr in enumerate(res['histories']):
            print('history %d: implementation statuses %s' % (hi, [b['status'] for b in hr['impl']]))
            print(' property clauses failing on the implementation:', json.dumps(hr['oracle'], indent=1, ensure_ascii=False))
            if built:
                mo = ctx.run_model([('hist', hr['records'])])[0]
                d, oom = compare(hr, mo)
                print(' model vs implementation:', 'outside the model' if oom else (d or 'agree'))
    ctx.cleanup()
    return 0


def run(ctx):
    if ctx.replay:
        return replay(ctx)
    rng = ctx.rng
    thorough = ctx.tier == 'thorough'
    built = ctx.build('Props/C11.v', 'Install/Extract.v', 'C11')
    stats = {'projects': 0, 'histories': 0, 'steps': 0, 'setup_rejected': 0, 'out_of_model': 0, 'ops': {}, 'status': {}}

    # ---- 1. path algebra and should_install, in-process, high volume
    import time
    tph = {}
    t0 = time.time()
    pcases = path_cases(rng, 60000 if thorough else 8000)
    pimpl = run_impl('c11.py', {'paths': pcases})['results']
    pmodel = ctx.run_model(pcases) if built else pimpl
    for (fn, args), ri, rm in zip(pcases, pimpl, pmodel):
        ctx.count((fn, tuple(args)))
        if ri != rm and len(ctx.disagreements) < 60:
            ctx.disagreements.append({'case': [fn, args], 'implementation': ri, 'model': rm})
    ctx.extra['path_algebra_cases'] = len(pcases)
    tph['paths'] = round(time.time() - t0, 1); t0 = time.time()

    # ---- 2. projects: corpus first, then structured random, then the hostile stream
    specs = corpus_projects()
    nproj = 600 if thorough else 60
    nhost = 60 if thorough else 6
    for sp in specs:
        sp['exec'] = True           # the corpus goes through a fresh `python meson.py` per step
    for i in range(nproj):
        specs.append(gen_project(rng, i))
        if i % 25 == 0:
            specs[-1]['exec'] = True
    for i in range(nhost):
        specs.append(gen_project(rng, 100000 + i, hostile=True, nhist=2))
    # small exhaustive enumeration (thorough tier; a quarter of it in the quick tier)
    ex = exhaustive_projects()
    ctx.extra['exhaustive'] = thorough
    ctx.extra['exhaustive_space'] = 'rule kind (7) x install_umask (3) x install dir relative/absolute (2) x install_mode absent/present (2), history install;install;uninstall: %d projects' % len(ex)
    specs += ex if thorough else ex[::4]
    results = run_projects(ctx, specs)
    tph['cli'] = round(time.time() - t0, 1); t0 = time.time()
    cases, model = evaluate(ctx, specs, results, built, stats)
    tph['model'] = round(time.time() - t0, 1); t0 = time.time()
    ctx.cov['traces_validated_against_impl'] = stats['histories']
    ctx.extra['distribution'] = stats
    ctx.extra['out_of_model'] = stats['out_of_model']
    for spec in specs[:2] + specs[7:9]:
        ctx.sample({'meson.build': [f['content'] for f in spec['files'] if f['path'] == 'meson.build'][0][:400],
                    'histories': [[s['op'] + ''.join(' %s=%s' % (k, v) for k, v in s.items() if k != 'op') for s in h['steps']] for h in spec['histories']]})
    if built:
        allc = pcases[:2000] + cases
        allm = pmodel[:2000] + model
        small = [(c, m) for c, m in zip(allc, allm) if sum(len(a) for a in c[1]) < 5000]
        rng.shuffle(small)
        small.sort(key=lambda cm: 0 if cm[0][0] == 'hist' else 1)      # histories first, then path algebra
        nh = 0
        budget, chosen = (450000 if thorough else 180000), []
        for cm in small:          # keep the generated kc.v below ~2.5 MB: coqc's parser overflows its stack on much larger literals
            cost = sum(len(a) for a in cm[0][1]) + len(cm[1]) + 50
            if cost > budget or len(chosen) >= (200 if thorough else 50):
                continue
            if cm[0][0] == 'hist':
                nh += 1
                if nh > (100 if thorough else 25):
                    continue
            budget -= cost
            chosen.append(cm)
        ctx.kernel_crosscheck('Install.Entry', [c for c, _ in chosen], [m for _, m in chosen], limit=len(chosen))
    tph['kernel'] = round(time.time() - t0, 1)
    if thorough and built:
        import subprocess
        r = subprocess.run(['timeout', '1500', 'coqchk', '-silent', '-o', '-Q', COQ, 'MV', 'MV.Props.C11'], capture_output=True, text=True)
        out = r.stdout + r.stderr
        ctx.extra['coqchk'] = {'rc': r.returncode, 'axioms_none': '* Axioms: <none>' in out, 'tail': out[-400:]}
        if r.returncode != 0 or '* Axioms: <none>' not in out:
            ctx.broken.append({'obligation': 'coqchk MV.Props.C11', 'detail': out[-1500:]})
    ctx.extra['phase_seconds'] = tph

    ctx.extra['disagreement_samples'] = [(d.get('difference') or json.dumps(d, ensure_ascii=False))[:700] for d in ctx.disagreements[:12]]
    # a disagreement whose observable is itself fixed by the property is a concrete failing input
    if ctx.disagreements and not ctx.violations:
        for d in ctx.disagreements:
            if 'replay' in d:
                ctx.violation('C11:model-mismatch:proj%s' % d['project'], 'implementation deviates from the proven model: ' + d['difference'], d['replay'])
                break
    return ctx.finish(
        level='proof',
        trusted=['Coq 8.16.1 kernel (coqc, vm_compute; no native_compute)',
                 'extraction with ExtrOcamlBasic directives only + OCaml + extract/driver.ml (cross-checked in-kernel on a sample each run)',
                 'harness/check_C11.py generator and expected-installation oracle; harness/impl/c11.py adapter (listing, install.dat reader)',
                 'reference semantics of the POSIX filesystem calls in coq/Install/Tree.v (validated against the real filesystem through the CLI runs)',
                 'not modelled: strip, rpath fixing, .js/.wasm and stamp-file targets, directory targets, chown, SELinux, install scripts, '
                 'symbolic links among the sources or inside DESTDIR paths, names containing newline, privilege elevation'],
        assumptions=['Print Assumptions: all property theorems closed under the global context (no axioms)',
                     'os.walk order of a source directory is stable between two calls in the same run',
                     'the installing user may chmod and write everywhere below DESTDIR (the harness runs as the owner)'],
        rule='generated projects (install_data/headers/man/subdir/emptydir/symlink, installed custom targets, subprojects; names with '
             'blanks, unicode, trailing blanks; modes; tags; absolute and relative install dirs; prefixes; umasks) are configured by the real '
             '`meson setup`; every history (install, reinstall, --only-changed, --dry-run, --tags, --skip-subprojects, uninstall; DESTDIR '
             'given by option, environment, relative, with redundant slashes; empty or pre-populated DESTDIR) is run through the real CLI and '
             'through the extracted Coq model fed with install.dat; trees (type, mode, mtime, digest, link target) of the whole scratch '
             'directory and the install log are compared after every step; distinct = distinct (plan, initial tree, history) triples')
