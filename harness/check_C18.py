"""C18 — TAP streams are interpreted per the TAP specification.
Theorems: coq/Props/C18.v.  Model: coq/Tap/{Lines,Machine,Verdict}.v.  Implementation:
mesonbuild/mtest.py (TAPParser, TestRunTAP), in-process, plus `meson test` on a generated
project with protocol:'tap' tests."""
import itertools, json, os, shutil
from common import *

SEP1, SEP2 = '\x01', '\x02'
ADAPTER = 'c18.py'

# ---------------------------------------------------------------------------- abstract TAP lines
NAMES = ['', 'a', 'first test', 'x-y_z', 'the 2nd', 'é', 'with  blanks', '- dash', 'ok', 'not ok really',
         'TODO later', 'skip me', 'a.b(c)', '€ cost', 'sub/test:1']
EXPLS = ['', 'why', 'not yet done', 'needs  libfoo', 'é €', 'see #12', '1..2']
SKIPW = ['SKIP', 'skip', 'Skip', 'SKIPPED', 'skipped', 'SKIPPING', 'sKiP']
TODOW = ['TODO', 'todo', 'Todo', 'tOdO']
INDENTS = ['  ', ' ', '\t', '    ', ' \t']
YTEXT = ['message: "x"', 'severity: fail', 'k: v', '- item', 'got: 1', '# not a diag', 'ok 1', '1..4', '']
# lines that are not TAP ('okay' / 'ok1' are NOT in this list: the implementation's regex has no word
# boundary after ok and reads them as test lines named 'ay' / numbered 1; the TAP text does not settle it,
# so they are left to the differential part, via the corpus)
JUNK = ['pragma +strict', 'pragma -strict', '    ok 1 - nested', '    1..2', '    not ok 2', 'TAP version 14',
        '    # Subtest: inner', '}', 'hello', 'OK 1', 'Not ok', '1.2', '1..', 'TAP version', 'Bail out', 'tap version 13',
        'PASS: x', '---', '...', 'no k', ' ok 1', '  1..2', 'nok', 'not  ok', 'o k', 'Ok']


def render(a, rng):
    """abstract line -> text (without the newline), with layout variants"""
    k = a[0]
    sp = lambda: rng.choice([' ', ' ', ' ', '  ', '\t'])
    if k == 'test':
        _, ok, num, name, d, expl = a
        s = 'ok' if ok else 'not ok'
        if num is not None:
            s += sp() + str(num)
        if name:
            s += sp() + name
        if d:
            w = rng.choice(SKIPW if d == 'skip' else TODOW)
            s += rng.choice([' ', '', '  ']) + '#' + rng.choice([' ', '', '  ']) + w
            if expl:
                s += sp() + expl
        elif rng.random() < 0.08:
            # a trailing comment that is NOT a directive (word continues after todo; no directive word)
            s += ' # ' + rng.choice(['todox', 'TODO_later', 'TODOs fixed', 'note', 'sk ip', 'to do', 'was TODO', 'not skip'])
        return s
    if k == 'plan':
        _, n, d, expl = a
        s = '1..%d' % n
        if d:
            w = rng.choice(SKIPW if d == 'skip' else TODOW)
            s += rng.choice([' ', '', '  ']) + '#' + rng.choice([' ', '']) + w
            if expl:
                s += sp() + expl
        return s
    if k == 'bail':
        return 'Bail out!' + ((rng.choice([' ', '  ', '']) + a[1]) if a[1] else '')
    if k == 'version':
        return 'TAP version %d' % a[1]
    if k == 'yaml_start':
        return a[1] + '---'
    if k == 'yaml_line':
        return a[1] + a[2]
    if k == 'yaml_end':
        return a[1] + '...'
    if k == 'diag':
        return '#' + a[1]
    if k == 'blank':
        return ''
    if k == 'junk':
        return a[1]
    raise ValueError(k)


def gen_test(rng, num):
    ok = rng.random() < 0.7
    d = rng.choice([None, None, None, 'skip', 'todo'])
    name = rng.choice(NAMES)
    if num is None and name[:1].isdigit():
        name = 'n' + name
    return ('test', ok, num, name, d, rng.choice(EXPLS) if d else '')


def gen_abs_stream(rng, maxlen=40):
    """mostly well-formed TAP 12/13 with faults injected at a low rate each"""
    out = []
    v13 = rng.random() < 0.6
    if v13:
        out.append(('version', rng.choice([13, 13, 13, 14, 12, 1]) if rng.random() < 0.15 else 13))
        v13 = out[0][1] >= 13
    ntests = rng.choice([0, 1, 2, 3, 3, 4, 5, 8, 12])
    faulty = rng.random() < 0.55
    fr = 0.08 if faulty else 0.0
    plan_pos = rng.choice(['first', 'first', 'last', 'none']) if not faulty else rng.choice(['first', 'last', 'none', 'middle', 'both'])
    plan_n = ntests if rng.random() >= fr * 3 else max(0, ntests + rng.choice([-2, -1, 1, 2]))
    pdir = None
    if plan_n == 0 and rng.random() < 0.6:
        pdir = 'skip'
    elif rng.random() < fr:
        pdir = rng.choice(['skip', 'todo'])
    plan = ('plan', plan_n, pdir, rng.choice(EXPLS) if pdir else '')
    if plan_pos in ('first', 'both'):
        out.append(plan)
    explicit = rng.random() < 0.6
    mid = rng.randint(0, ntests) if plan_pos == 'middle' else -1
    for i in range(1, ntests + 1):
        if i - 1 == mid:
            out.append(plan)
        num = i if (explicit and rng.random() < 0.85) else None
        if rng.random() < fr:
            num = rng.choice([i - 1, i + 1, 1, ntests, ntests + 1, 0, i + 7])
        out.append(gen_test(rng, num))
        r = rng.random()
        if r < 0.25:           # YAML block after the test
            ind = rng.choice(INDENTS)
            out.append(('yaml_start', ind))
            for _ in range(rng.randint(0, 3)):
                out.append(('yaml_line', ind + rng.choice(['', '', ' ', '  ']), rng.choice(YTEXT)))
                if rng.random() < fr / 2:     # an unindented line breaks the block
                    out.append(('junk', rng.choice(['...', '---', 'x: y', '.. .'])))
            if rng.random() >= max(fr, 0.03):
                out.append(('yaml_end', ind if rng.random() < 0.9 else rng.choice(INDENTS)))
        elif r < 0.45:
            out.append(('diag', rng.choice([' a diagnostic', '', ' 1..3', 'ok 1', ' Bail out!'])))
        elif r < 0.5:
            out.append(('blank',))
        elif r < 0.54:
            # things that only LOOK like YAML delimiters (no indentation): not TAP, nothing is swallowed
            out.append(('junk', rng.choice(['---', '--- #', '---x', '...', '... '])))
            if rng.random() < 0.7:
                for j in range(rng.randint(1, 2)):
                    out.append(gen_test(rng, None))
                out.append(('yaml_end', rng.choice(INDENTS)))
        if rng.random() < fr / 2:
            out.append(rng.choice([('junk', rng.choice(JUNK)), ('bail', rng.choice(['', 'stop now', 'é'])),
                                   ('version', 13), plan, ('yaml_line', '  ', 'stray: 1'), ('yaml_end', '  '),
                                   ('yaml_start', '  ')]))
    if ntests == mid:
        out.append(plan)
    if plan_pos in ('last', 'both'):
        out.append(plan if plan_pos == 'last' or rng.random() < 0.5 else ('plan', plan_n + 1, None, ''))
    return out[:maxlen]


# the 14 line forms of the exhaustive enumeration (fixed rendering)
FORMS = [(('test', True, None, '', None, ''), 'ok'),
         (('test', False, None, 'n', None, ''), 'not ok n'),
         (('test', True, 1, 'a', None, ''), 'ok 1 a'),
         (('test', True, 2, '', None, ''), 'ok 2'),
         (('test', False, 2, 'b', 'todo', 'x'), 'not ok 2 b # TODO x'),
         (('test', True, 3, '', 'skip', ''), 'ok 3 # SKIP'),
         (('plan', 2, None, ''), '1..2'),
         (('plan', 0, 'skip', 'why'), '1..0 # skip why'),
         (('version', 13), 'TAP version 13'),
         (('yaml_start', '  '), '  ---'),
         (('yaml_line', '  ', 'k: v'), '  k: v'),
         (('yaml_end', '  '), '  ...'),
         (('diag', ' d'), '# d'),
         (('bail', 'stop'), 'Bail out! stop')]

ABS_CORPUS = [
    [('version', 13), ('test', True, 1, '', None, ''), ('junk', '---'), ('test', False, 2, 'swallowed?', None, ''), ('yaml_end', '  '), ('plan', 2, None, '')],
    [('version', 13), ('test', True, None, 'a', None, ''), ('junk', '---'), ('bail', 'stop'), ('yaml_end', ' ')],
    [('version', 13), ('test', True, None, 'a', 'skip', 'x'), ('yaml_start', '  '), ('yaml_line', '  ', 'k: v'), ('yaml_end', '  '), ('plan', 1, None, '')],
    [('version', 13), ('test', True, None, 'a', None, ''), ('yaml_start', '  '), ('yaml_line', '  ', 'ok 2'), ('yaml_line', '  ', '1..7'), ('yaml_line', '  ', 'Bail out!'), ('yaml_end', '    '), ('test', True, 2, 'b', None, '')],
    [('test', True, None, 'a', None, ''), ('yaml_start', '  '), ('yaml_end', '  '), ('plan', 1, None, '')],
    [('version', 14), ('plan', 1, None, ''), ('junk', '# Subtest: inner'), ('junk', '    1..2'), ('junk', '    ok 1'), ('junk', '    not ok 2'), ('test', False, 1, '- inner', None, '')],
    [('test', True, 0, 'zero', None, '')], [('plan', 2, None, ''), ('test', True, 1, '', None, ''), ('test', True, 0, '', None, '')],
    [('test', True, None, 'only skip', 'skip', '')], [('plan', 0, 'skip', 'nothing to do')], [],
]

CORPUS = [
    ['ok'], ['not ok'], ['ok 1 abc'], ['1..0'], ['1..0 # skipped for some reason'], ['1..1 # skipped for some reason', 'ok 1'],
    ['1..1 # todo not supported here', 'ok 1'], ['ok 2'], ['1..2', 'ok 2', 'ok 1'], ['1..3', 'ok 2', 'ok', 'ok 1'],
    ['ok 1', '1..2', 'ok 2'], ['1..1', '1..2', 'ok 1'], ['ok 1', 'not ok 2', '1..1'], ['1..1', 'ok 1', 'not ok 2'],
    ['ok 1', 'not ok 2', '1..3'], ['1..3', 'ok 1', 'not ok 2'], ['ok 1', 'ok 1'], ['ok 1', 'ok 1', 'ok 3'],
    ['ok 0', 'ok', 'ok 3'], ['1..2', 'ok', 'ok 1'], ['Bail out! no reason', 'ok 1'], ['ok 1', 'Bail out!'],
    ['TAP version 13', 'ok 1', '  ---', '  foo: bar', '  ...', '1..1'], ['TAP version 13', 'ok 1', '  ---', '  foo: bar'],
    ['TAP version 13', 'ok 1', '  ---', ' foo', '  ...'], ['TAP version 13', 'ok 1 # SKIP x', '  ---', '  y: z', '  ...', '1..1'],
    ['TAP version 13', 'ok 1 # SKIP x', '  ---', '  ...', '1..1', 'ok 2'],
    ['ok 1', '  ---', '  ...'], ['TAP version 12', 'ok 1', '  ---'], ['ok 1', 'TAP version 13'], ['TAP version 14', 'ok'],
    ['TAP version 13', 'TAP version 13'], ['', 'TAP version 13'], ['# c', 'TAP version 13', 'ok', ' ---', ' ...'],
    ['ok 1 # todo', 'not ok 2 # TODO x', 'ok 3 # skip', 'not ok 4 # SKIP y'], ['ok # SKIPPED!! because', 'ok # skip!', 'ok # skip_x!?'],
    ['ok # todoé', 'ok # todo€', 'ok # todo_', 'ok # todo:', 'ok #todo', 'ok # TODOx'], ['ok 1 - name # comment', 'ok 2 # # todo'],
    ['not ok 12 foo bar # skipped!! because'], ['ok\n', 'ok 5\r\n', '1..5\n'], ['ok 1 a\nb # SKIP x\ny', '1..1 # skip a \nb'],
    ['okay', 'not okay 3x', 'ok3', 'ok 3x', 'not ok3'], ['1..5abc', '1..2# skip', '1..', '1..x'], ['Bail out!x\ny', 'Bail out'],
    ['  ok 1', '\tok', 'ok\x0c7'], ['ok \x1f 7 \x85 n\xa0 # skip\u2028why\u3000'], ['ok 00012', 'ok 13'], ['1..007', 'ok 7'],
    ['TAP version 013', 'ok', '\t---', '\t...'], ['TAP version 13 extra', 'ok', '  --- # x', '  x', '   ... y'],
    ['TAP version 13', 'ok', '  ---', '', '  ...'], ['TAP version 13', 'ok', '  ---', '  ---', '  ...', '  ...'],
    ['TAP version 13', 'ok', '\n---', '\n...'],
    # TAP 14 (not implemented by meson: subtests and pragmas are unknown lines, the parent test line counts)
    ['TAP version 14', '1..1', '# Subtest: inner', '    1..2', '    ok 1', '    not ok 2', 'not ok 1 - inner'],
    ['TAP version 14', 'pragma +strict', 'ok 1', '    ---', '    x: y', '    ...', '1..1'],
    ['TAP version 14', 'ok 1 - outer', '  ---', '  ...', '    ok 1 - nested after yaml', '1..1'], ['TAP version 13', 'ok', ' \t---', ' \tx', ' ...'],
]

DIGITS = lambda k, c='9': c * k
PATHOLOGICAL = [
    ['ok ' + DIGITS(4300)], ['ok ' + DIGITS(4301)], ['ok ' + DIGITS(4300), 'ok'], ['ok ' + DIGITS(4299), 'ok', 'ok'],
    ['1..' + DIGITS(4300)], ['1..' + DIGITS(4301)], ['1..1', '1..' + DIGITS(4301)], ['TAP version ' + DIGITS(4301)],
    ['ok', 'TAP version ' + DIGITS(4301)], ['ok ' + DIGITS(5000, '0')], ['ok ' + DIGITS(4300, '0') + '1'],
    ['# ' + DIGITS(5000)], ['ok n' + DIGITS(5000)], ['TAP version 13', 'ok', '  ---', '  ' + DIGITS(5000), '  ...'],
    ['1..5', 'ok ' + DIGITS(4300), 'ok'], ['1..5', 'ok ' + DIGITS(4300), 'ok named'], ['Bail out!', 'ok ' + DIGITS(4300), 'ok'],
    ['ok ' + DIGITS(100), 'ok'], ['ok ' + DIGITS(101), 'ok'], ['1..' + DIGITS(101), 'ok'], ['1..' + DIGITS(100, '0') + '1', 'ok'],
    ['TAP version ' + DIGITS(101, '1'), 'ok', '  ---'], ['TAP version ' + DIGITS(100, '0') + '13', 'ok', '  ---'], ['1..2', '1..' + DIGITS(101)],
    ['1..' + DIGITS(101), '1..1', 'ok'], ['ok 1', 'ok ' + DIGITS(200), 'ok 3', '1..3'],
    ['ok 1 ' + DIGITS(4301)], ['x' * 5000], ['ok ' + 'n' * 5000 + ' # SKIP ' + 'y' * 5000],
]

CHARS = list(' \t#0123456789.!-') + list('oknotskipSKIPTODOtodoBailu!TAPversion') + ['\n', '\r', '\x0c', '\x1f', '\x85', '\xa0', 'é', '€', '_', ':', 'x', '«', '\u2028', '中']
TEXT = [chr(c) for c in range(32, 127)] + ['\t', '\n', '\r', '\x0b', '\x0c', '\x1c', '\x00', '\x7f', '\x85', '\xa0', 'é', '€', 'Ж', '→', '\U0001f600', '\u2003', '\u3000', 'ñ']


def mutate(line, rng):
    s = list(line)
    for _ in range(rng.choice([1, 1, 2, 3])):
        k = rng.random()
        p = rng.randint(0, len(s))
        if k < 0.4:
            s.insert(p, rng.choice(CHARS))
        elif k < 0.7 and s:
            del s[min(p, len(s) - 1)]
        elif s:
            s[min(p, len(s) - 1)] = rng.choice(CHARS)
    return ''.join(s)


def with_newlines(lines, rng):
    r = rng.random()
    if r < 0.5:
        return [l + '\n' for l in lines]
    if r < 0.6:
        return [l + '\n' for l in lines[:-1]] + lines[-1:]
    if r < 0.65:
        return [l + '\r\n' for l in lines]
    return list(lines)


def ok_for_wire(lines):
    return not any(c in l for l in lines for c in '\x01\x02\x03')


def ident_of(f):
    if f['kind'] in ('exception', 'exception_in_TestRunTAP') and f.get('exc') == 'ValueError' and f.get('longest_digit_run', 0) >= 4300:
        return 'C18:int-max-str-digits'
    if f['kind'] == 'numbering':
        return 'C18:numbering-undetected'
    return 'C18:%s:%s' % (f['kind'], json.dumps(f.get('lines'), sort_keys=True))


def same_events(a, b):
    """canonical event strings equal, an unrecognised error wording ('?') matching any kind"""
    if a == b:
        return True
    ea, eb = a.split(SEP1), b.split(SEP1)
    if len(ea) != len(eb):
        return False
    for x, y in zip(ea, eb):
        if x != y and not (x == 'E' + SEP2 + '?' and y.startswith('E' + SEP2)):
            return False
    return True


def replay(ctx):
    rec = json.load(open(ctx.replay))
    r = rec['replay']
    print('replaying', json.dumps(r)[:2000])
    if 'item' in r:
        res = run_impl(ADAPTER, {'streams': [r['item']]})
        print('implementation events:', repr(res['streams'][0][0])[:3000])
        print('property clauses failing on the implementation:', json.dumps(res['streams'][0][1], indent=1)[:6000])
        if ctx.build('Props/C18.v', 'Tap/Extract.v', 'C18'):
            print('model               :', repr(ctx.run_model([('parse', r['item']['lines'])])[0])[:3000])
    if 'case' in r:
        res = run_impl(ADAPTER, {'cases': [r['case']]})
        print('implementation:', repr(res['results'][0])[:3000])
        if ctx.build('Props/C18.v', 'Tap/Extract.v', 'C18'):
            print('model         :', repr(ctx.run_model([tuple(r['case'])])[0])[:3000])
    if 'cli' in r:
        print(json.dumps(cli_round(ctx, [r['cli']]), indent=1))
    return 0


# ---------------------------------------------------------------------------- meson test (CLI)
def cli_round(ctx, tests):
    """tests: list of dict(lines=[...], rc=int, should_fail=bool).  Builds one project with one
    protocol:'tap' test per entry, runs `meson test`, returns the reported result per test."""
    d = os.path.join(ctx.mkscratch(), 'cli%d' % ctx.rng.randrange(10 ** 9))
    src, bld = os.path.join(d, 'src'), os.path.join(d, 'bld')
    os.makedirs(src)
    with open(os.path.join(src, 'emit.py'), 'w') as f:
        f.write('import sys, json\nt = json.load(open(sys.argv[1]))[int(sys.argv[2])]\n'
                'sys.stdout.buffer.write(t.get("out", "".join(t["lines"])).encode("utf-8"))\nsys.stdout.flush()\nsys.exit(t["rc"])\n')
    json.dump(tests, open(os.path.join(src, 'tests.json'), 'w'))
    mb = ["project('c18', meson_version: '>=0.50')", "py = find_program('%s')" % PY]
    for i, t in enumerate(tests):
        mb.append("test('t%d', py, args: [files('emit.py'), files('tests.json'), '%d'], protocol: 'tap'%s)"
                  % (i, i, ", should_fail: true" if t.get('should_fail') else ''))
    open(os.path.join(src, 'meson.build'), 'w').write('\n'.join(mb) + '\n')
    r = meson_cli(['setup', '--backend=none', bld, src], timeout=300)
    if r.returncode != 0:
        raise HarnessError('meson setup of the TAP project failed: ' + (r.stdout + r.stderr)[-1500:])
    r = meson_cli(['test', '-C', bld, '--no-rebuild', '--num-processes', str(min(NPROC, 8)), '-t', '0'], timeout=900)
    log = os.path.join(bld, 'meson-logs', 'testlog.json')
    if not os.path.exists(log):
        raise HarnessError('meson test wrote no testlog.json: ' + (r.stdout + r.stderr)[-1500:])
    got = {}
    for line in open(log, encoding='utf-8'):
        j = json.loads(line)
        got[j['name'].split(':')[-1].split()[-1]] = j['result']
    shutil.rmtree(d, ignore_errors=True)
    return [got.get('t%d' % i) for i in range(len(tests))]


def run(ctx):
    if ctx.replay:
        return replay(ctx)
    rng = ctx.rng
    thorough = ctx.tier == 'thorough'
    import time
    T0 = [time.time()]
    phases = {}

    def lap(name):
        phases[name] = round(time.time() - T0[0], 1)
        T0[0] = time.time()
    built = ctx.build('Props/C18.v', 'Tap/Extract.v', 'C18')
    lap('coq_build')

    # -------- tables the model relies on, read from the running interpreter
    tb = run_impl(ADAPTER, {'tables': 1})['tables']
    SPACES = [9, 10, 11, 12, 13, 28, 29, 30, 31, 32, 133, 160, 5760] + list(range(8192, 8203)) + [8232, 8233, 8239, 8287, 12288]
    WORD = [c for c in range(128) if chr(c).isalnum() or c == 95]
    if (tb['isspace'] != SPACES or tb['re_space_below_0x3100'] != SPACES or tb['word_ascii'] != WORD
            or tb['word_extra'] != {'233': True, '1046': True, '20013': True, '8364': False, '171': False, '8594': False, '128512': False}):
        raise HarnessError('the interpreter\'s \\s / \\w tables differ from the ones the model is written for: %r' % tb)
    if tb['max_str_digits'] != 4300:
        raise HarnessError('sys.get_int_max_str_digits() = %r, the model is written for 4300' % tb['max_str_digits'])
    have_re = tb['have_regex_attrs']
    ctx.extra['tables_checked'] = 'str.isspace over all code points, \\s below U+3100, \\w on ASCII and the 7 listed code points, int max_str_digits'

    # -------- streams
    items = []          # dict(lines=..., abs=?, rcs=?, src=...)
    for ls in CORPUS:
        items.append({'lines': ls, 'rcs': [0, 1], 'src': 'corpus'})
        items.append({'lines': [l + '\n' for l in ls], 'rcs': [0], 'src': 'corpus'})
    for ab in ABS_CORPUS:
        for nl in ('', '\n'):
            items.append({'lines': [render(a, rng) + nl for a in ab], 'abs': ab, 'rcs': [0, 1, -9], 'src': 'corpus'})
    for ls in PATHOLOGICAL:
        items.append({'lines': ls, 'rcs': [0, 1] if len(ls) == 3 else [0], 'src': 'pathological'})
    # exhaustive: every sequence of at most L of the 14 line forms
    L = 5 if thorough else 4
    nex = 0
    for n in range(0, L + 1):
        for t in itertools.product(range(len(FORMS)), repeat=n):
            it = {'lines': [FORMS[i][1] + '\n' for i in t], 'abs': [FORMS[i][0] for i in t], 'src': 'exhaustive'}
            if n <= 3:
                it['rcs'] = [0, 2]
            items.append(it)
            nex += 1
    ctx.extra['exhaustive'] = True
    ctx.extra['exhaustive_scope'] = 'all %d sequences of length <= %d over %d TAP line forms' % (nex, L, len(FORMS))
    nabs = 80000 if thorough else 4000
    for _ in range(nabs):
        ab = gen_abs_stream(rng)
        ls = with_newlines([render(a, rng) for a in ab], rng)
        items.append({'lines': ls, 'abs': ab, 'rcs': [rng.choice([0, 0, 1, 77, -11])] if rng.random() < 0.3 else [], 'src': 'structured'})
    nmut = 80000 if thorough else 4000
    for _ in range(nmut):
        ab = gen_abs_stream(rng, maxlen=rng.choice([3, 6, 12, 40]))
        ls = [render(a, rng) for a in ab]
        for _ in range(rng.choice([1, 1, 2, 4])):
            if ls:
                i = rng.randrange(len(ls))
                ls[i] = mutate(ls[i], rng)
        items.append({'lines': with_newlines(ls, rng), 'rcs': [rng.choice([0, 1])] if rng.random() < 0.2 else [], 'src': 'mutated'})
    ntext = 20000 if thorough else 1500
    for _ in range(ntext):
        ls = [''.join(rng.choice(TEXT) for _ in range(rng.choice([0, 1, 3, 8, 20, 60]))) for _ in range(rng.randint(0, 12))]
        if rng.random() < 0.5:
            ls = [rng.choice(['ok ', 'not ok ', '1..', 'ok 1 # ', 'Bail out!', 'TAP version ', '  ']) + l if rng.random() < 0.4 else l for l in ls]
        items.append({'lines': ls, 'rcs': [0] if rng.random() < 0.1 else [], 'src': 'text'})
    items = [it for it in items if ok_for_wire(it['lines'])]
    # Streams with a digit run of more than 100 characters are where the parser with the fix
    # pending/C18-int-max-str-digits.diff (which the model describes) and the unpatched parser differ;
    # until the fix is applied they are only generated with VERIF_C18_BIGNUM=1.
    import re as _re0
    BIG = os.environ.get('VERIF_C18_BIGNUM', '1') == '1'
    longrun = lambda ls: any(len(x) > 100 for l in ls for x in _re0.findall('[0-9]+', l))
    nbig = sum(1 for it in items if longrun(it['lines']))
    if not BIG:
        items = [it for it in items if not longrun(it['lines'])]
    ctx.extra['bignum_scenario'] = {'enabled': BIG, 'streams_with_a_digit_run_over_100': nbig}

    # -------- single lines for the scanners (regex level)
    single = []
    if have_re:
        seen = set()
        for it in items:
            if it['src'] in ('structured', 'mutated', 'corpus', 'text'):
                for l in it['lines']:
                    if l not in seen and len(seen) < (150000 if thorough else 15000):
                        seen.add(l)
        toks = [' ', 'skip', 'SKIP', 'todo', 'x', '!', '_', '\t', 'é', '€', '\n', '#']
        for base in ['ok #', '1..2 #', 'ok 1 n #', 'not ok#', '1..0']:
            for n in range(0, 5 if thorough else 4):
                for t in itertools.product(toks, repeat=n):
                    seen.add(base + ''.join(t))
        for w in itertools.product(['o', 'k', 'n', 't', ' ', '1', '#', '.', '-', '\t'], repeat=5 if thorough else 4):
            seen.add(''.join(w))
        for l in sorted(seen):
            if not BIG and longrun([l]):
                continue
            single.append(('classify', [l]))
            if l[:1].isspace():
                single.append(('ystart', [l]))
                single.append(('yend', [l]))
    # -------- verdict cases (TestRunTAP.parse + complete)
    vcases = []
    for it in items:
        for rc in it.get('rcs', []):
            vcases.append(('verdict', [str(rc), 'F', *it['lines']]))
            if rng.random() < 0.3:
                vcases.append(('verdict', [str(rc), 'T', *it['lines']]))

    lap('generate')
    # -------- implementation
    chunks = [items[i::NPROC] for i in range(NPROC)]
    res = pmap(lambda ch: run_impl(ADAPTER, {'streams': [{k: v for k, v in it.items() if k != 'src'} for it in ch]})['streams'] if ch else [], chunks)
    impl_streams = [None] * len(items)
    for k, ch in enumerate(res):
        for j, x in enumerate(ch):
            impl_streams[k + j * NPROC] = x
    other = single + vcases
    ochunks = [other[i::NPROC] for i in range(NPROC)]
    ores = pmap(lambda ch: run_impl(ADAPTER, {'cases': ch})['results'] if ch else [], ochunks)
    impl_other = [None] * len(other)
    for k, ch in enumerate(ores):
        for j, x in enumerate(ch):
            impl_other[k + j * NPROC] = x

    lap('implementation')
    # -------- model
    cases = [('parse', it['lines']) for it in items] + other
    impl = [x[0] for x in impl_streams] + impl_other
    if built:
        # spread neighbouring (similarly expensive) cases over the driver's shards
        perm = sorted(range(len(cases)), key=lambda i: (i % NPROC, i))
        out = ctx.run_model([cases[i] for i in perm])
        model = [None] * len(cases)
        for k, i in enumerate(perm):
            model[i] = out[k]
    else:
        model = impl
    lap('model')
    oom = 0
    dist = {}
    for i, ((fn, args), ri, rm) in enumerate(zip(cases, impl, model)):
        src = items[i]['src'] if i < len(items) else fn
        dist[src] = dist.get(src, 0) + 1
        if rm == 'OOM':
            oom += 1
            continue
        if ri == 'NA':
            continue
        ctx.count((fn, tuple(args)), nontrivial=True)
        if not (same_events(ri, rm) if fn == 'parse' else ri == rm):
            if len(ctx.disagreements) < 200:
                ctx.disagreements.append({'case': [fn, args if len(''.join(args)) < 3000 else [a[:80] for a in args]],
                                          'implementation': ri[:3000], 'model': rm[:3000]})
    ctx.cov['traces_validated_against_impl'] = len(cases) - oom
    ctx.extra['out_of_model'] = oom
    ctx.extra['input_distribution'] = dist
    ctx.extra['stream_lengths'] = {str(k): sum(1 for it in items if len(it['lines']) == k) for k in (0, 1, 2, 3, 4, 5)}
    ctx.extra['stream_lengths']['6-40'] = sum(1 for it in items if len(it['lines']) > 5)
    classes = {}
    for r in impl[:len(items)]:
        for e in (r.split(SEP1) if r and not r.startswith('EXC:') else [r[:16]]):
            key = e.split(SEP2)[0] + (':' + e.split(SEP2)[1] if e.startswith('E' + SEP2) else '') if e else 'none'
            classes[key] = classes.get(key, 0) + 1
    ctx.extra['event_classes_seen'] = classes
    for s in [cases[0], cases[len(CORPUS) * 2 + len(PATHOLOGICAL) + 700], cases[len(items) - 5], cases[len(items) - 3000],
              cases[len(items) + 10], cases[-1]]:
        ctx.sample({'fn': s[0], 'args': [a[:120] for a in s[1]][:12]})
    lap('compare')
    if built:
        small = [(c, m) for c, m in zip(cases, model) if sum(len(a) for a in c[1]) < 400 and m != 'OOM']
        ctx.kernel_crosscheck('Tap.Entry', [c for c, _ in small], [m for _, m in small], limit=300)

    lap('kernel_crosscheck')
    # -------- the property's clauses evaluated on the implementation (failing-input search)
    nfail = 0
    for it, (r, fails) in zip(items, impl_streams):
        for f in fails:
            nfail += 1
            item = {k: v for k, v in it.items() if k != 'src'}
            if sum(len(l) for l in it['lines']) > 20000:
                item = {'lines': it['lines']}
            ctx.violation(ident_of(f), 'property clause "%s" fails on the implementation: %s' % (f['kind'], json.dumps(f)[:1500]),
                          {'item': item, 'failure': f})
    ctx.extra['oracle_streams'] = len(items)
    kinds = {}
    for it in items:
        for a in it.get('abs', []):
            k = a[0] + (':' + str(a[4]) if a[0] == 'test' and a[4] else '') + (':numbered' if a[0] == 'test' and a[2] is not None else '')
            kinds[k] = kinds.get(k, 0) + 1
    ctx.extra['abstract_line_kinds_generated'] = kinds
    ctx.extra['oracle_clause_failures'] = nfail

    # -------- `meson test` on a generated project: the result reported for a protocol:'tap' test
    cli = []
    pool = [it for it in items if it['src'] in ('corpus', 'structured', 'mutated', 'text') and len(it['lines']) <= 40
            and all('\x00' not in l and len(l) < 500 for l in it['lines'])]
    rng.shuffle(pool)
    import re as _re
    for it in pool[:(1200 if thorough else 150)]:
        # what the test program prints: the lines joined, with LF / CRLF endings, the last line
        # possibly unterminated.  The harness (read_decode) splits at LF and turns CRLF into LF.
        eol = rng.choice(['\n', '\n', '\n', '\r\n'])
        body = [l.rstrip('\n').replace('\n', ' ') for l in it['lines']]
        out = eol.join(body) + (eol if body and rng.random() < 0.8 else '')
        ls = [x.replace('\r\n', '\n') for x in _re.findall(r'[^\n]*\n|[^\n]+$', out)]
        cli.append({'lines': ls, 'out': out, 'rc': rng.choice([0, 0, 0, 1, 3, 77, 99]), 'should_fail': rng.random() < 0.25})
    got = []
    for i in range(0, len(cli), 100):
        got += cli_round(ctx, cli[i:i + 100])
    vc = [('verdict', [str(t['rc']), 'T' if t['should_fail'] else 'F', *t['lines']]) for t in cli]
    vm = ctx.run_model(vc) if built else [None] * len(vc)
    vi = run_impl(ADAPTER, {'cases': vc})['results']
    ncli = 0
    for t, g, m, i_ in zip(cli, got, vm, vi):
        if m == 'OOM':
            continue
        ncli += 1
        ctx.count(('cli', json.dumps(t)), nontrivial=True)
        if g != i_:
            # the CLI and the in-process TestRunTAP disagree: glue (decoding, line splitting) changed
            ctx.disagreements.append({'case': ['meson test', t], 'meson_test_reports': g, 'in_process_TestRunTAP': i_, 'model': m})
        if m is not None and not m.startswith('EXC:') and g != m and len(ctx.disagreements) < 200:
            ctx.disagreements.append({'case': ['meson test', t], 'meson_test_reports': g, 'model': m})
    ctx.extra['meson_test_cli_tests'] = ncli
    lap('meson_test_cli')
    ctx.extra['phase_seconds'] = phases
    ctx.cov['traces_validated_against_impl'] += ncli

    # an implementation/model disagreement on the verdict or on the event list is itself a failing
    # input when the model's answer is forced by a theorem; it is reported through finish() as a
    # broken correspondence with the disagreeing cases listed (the oracle above found no clause).
    return ctx.finish(
        level='proof',
        trusted=['Coq 8.16.1 kernel (coqc, vm_compute; no native_compute)',
                 'extraction with ExtrOcamlBasic directives only + OCaml 4.13.1 + extract/driver.ml (cross-checked in-kernel on a sample each run)',
                 'harness/check_C18.py generators and harness/impl/c18.py adapter/canonicaliser/oracle',
                 'model covers mtest.py:283-291, 315-502 (TAPParser), 1049-1061, 1147-1200 (TestRunTAP); not modelled: parse_async '
                 '(same parse_line), \\w for non-ASCII code points outside the 7 listed, interactive console mode, logging of subtests'],
        assumptions=['Print Assumptions: all property theorems closed under the global context (no axioms)',
                     'Python \\s/str.isspace, \\w on the modelled code points and the 4300-digit int/str limit are read from the running interpreter on every run and must equal the model\'s tables'],
        rule='streams of TAP lines: hand-picked corpus (unittests/taptests.py streams and corner cases), pathological lengths, ALL sequences up to the '
             'stated length over 14 line forms, structured random streams from abstract TAP lines (layout variants, faults injected), '
             'character-level mutations of those, arbitrary text; plus single lines for the regex scanners and (exit status, should_fail, stream) '
             'triples for TestRunTAP; each case is run through the implementation and the extracted Coq model and compared as canonical strings '
             '(events by constructor, number, name, result, explanation; error messages reduced to a kind); distinct = distinct (function, arguments) '
             'tuples inside the model\'s character set; every case drives the scanners and/or the state machine, so all are non-trivial')
