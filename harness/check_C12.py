"""C12 — `meson test` runs each test once, isolates serial tests and reports truthfully.
Theorems: coq/Props/C12.v.  Model: coq/Mtest/{Sched,Classify,Select}.v.
Implementation: mesonbuild/mtest.py (TestHarness._run_tests, TestRun*.complete, process_test_result,
summary, get_tests, SingleTestRunner) run in-process with stub runners, and the real CLI
`meson test` on generated language-free projects whose tests are shell scripts that log their own
start/end."""
import itertools, json, os, re, shutil, subprocess, sys, time
from common import *
sys.path.insert(0, os.path.join(VERIF, 'harness', 'impl'))
import c12 as O        # oracle functions + encodings (no meson import at module level)

SEP1, SEP2, SEP3 = O.SEP1, O.SEP2, O.SEP3
RES = 'OTISFXUEG'


# ====================================================================== in-process generators
TAP_LINES = ['ok', 'not ok', 'ok 1', 'not ok 2 - x', 'ok 1 # SKIP why', 'ok # skip', 'not ok 1 # TODO later',
             'ok 2 # TODO', 'Bail out! no', '# comment', 'garbage', 'TAP version 13', 'TAP version 14', '1..0 # SKIP all',
             '1..1', '1..2', '1..3', '', '  ok 1 - sub', 'not ok']
RUST_LINES = ['test a::b ... ok', 'test c ... FAILED', 'test d ... ignored', 'test e ... ignored, reason', 'test f ... bench',
              'running 3 tests', 'test result: ok. 1 passed', '']
RCS = ['0', '1', '2', '3', '77', '99', '127', '255', '-9', '-15']


def gen_classify(rng, n):
    cases = []
    for p, xf, xe, w, rc in itertools.product('eg', 'FT', ['', '77', '3'], 'xtc', ['0', '1', '77', '99', '3', '-15']):
        cases.append(['classify', [p, xf, xe, '', w, rc]])
    # tap streams with a verdict known by construction x exit status (incl. signals) x should_fail x wait kind
    for kind, text in sorted(O.TAP_KINDS.items()):
        for xf, w, rc in itertools.product('FT', 'xtc', ['0', '1', '3', '77', '99', '127', '-9', '-11']):
            cases.append(['classify', ['t', xf, '', text, w, rc]])
    nex = len(cases)
    for _ in range(n):
        p = rng.choice('eegttttrr')
        xf = rng.choice('FFT')
        xe = rng.choice(['', '', '', '0', '1', '77', '99', '3'])
        w = rng.choice('xxxxxtc')
        rc = rng.choice(RCS)
        text = ''
        if p == 't':
            k = rng.randint(0, 5)
            lines = [rng.choice(TAP_LINES) for _ in range(k)]
            if rng.random() < 0.6:
                cnt = sum(1 for l in lines if l.lstrip().startswith(('ok', 'not ok')) and not l.startswith(' '))
                lines.insert(rng.choice([0, len(lines)]), '1..%d' % max(cnt + rng.choice([0, 0, 0, 1, -1]), 0))
            text = ''.join(l + '\n' for l in lines)
        elif p == 'r':
            text = ''.join(rng.choice(RUST_LINES) + '\n' for _ in range(rng.randint(0, 4)))
        cases.append(['classify', [p, xf, xe, text, w, rc]])
    return cases, nex


def gen_tally(rng, n, exlen):
    cases = [['tally', ['']]]
    for k in range(1, exlen + 1):
        for t in itertools.product(RES, repeat=k):
            cases.append(['tally', [''.join(t)]])
    nex = len(cases)
    for _ in range(n):
        w = rng.choice(['OOOOOOFEITSXUG', 'OS', 'OX', RES, 'OOOOOOOOF'])
        cases.append(['tally', [''.join(rng.choice(w) for _ in range(rng.randint(0, 30)))]])
    return cases, nex


def gen_sched_one(rng, nmax):
    n = rng.randint(1, nmax)
    pser = rng.choice([0.0, 0.15, 0.3, 0.6, 1.0])
    par = ''.join('F' if rng.random() < pser else 'T' for _ in range(n))
    jobs = rng.choice([1, 2, 2, 3, 3, 4, 6])
    maxfail = rng.choice([0, 0, 0, 1, 1, 2, 3, -1])
    rep = rng.random() < 0.3
    pbad = rng.choice([0.0, 0.1, 0.3, 0.6])
    maxstep = rng.choice([0, 1, 3, 6, 12])
    specs = []
    for _ in range(n):
        res = rng.choice('FFETU') if rng.random() < pbad else rng.choice('OOOOOSX')
        specs.append('%d,%s,%s,%d' % (rng.randint(0, maxstep), res, rng.choice('IIIV'), rng.randint(0, 3)))
    return ['sched', [par, str(jobs), str(maxfail), 'T' if rep else 'F'] + specs]


def gen_sched(rng, n, nmax):
    cases = []
    # corpus
    cases.append(['sched', ['TTFTT', '2', '0', 'F', '3,O,I,0', '1,F,I,0', '2,O,I,0', '0,O,I,0', '5,E,I,1']])
    cases.append(['sched', ['TTTTT', '2', '1', 'F', '3,O,I,0', '1,F,I,0', '2,O,I,0', '0,O,I,0', '5,E,V,1']])
    cases.append(['sched', ['TTTTTT', '3', '1', 'F', '5,O,V,0', '1,F,I,0', '6,O,I,2', '0,O,I,0', '5,E,V,1', '1,O,I,0']])
    cases.append(['sched', ['FTFTTF', '3', '0', 'T', '1,O,I,0', '1,O,I,0', '0,F,I,0', '2,O,I,0', '1,O,I,0', '1,O,I,0']])
    cases.append(['sched', ['TTTT', '1', '2', 'F', '1,E,I,0', '0,T,I,0', '2,F,I,0', '1,O,I,0']])
    # exhaustive: <= 3 runners, every parallel/serial vector, jobs 1..2, steps in {0,1,2}
    for k in range(1, 4):
        for par in itertools.product('TF', repeat=k):
            for jobs in (1, 2):
                for steps in itertools.product((0, 1, 2), repeat=k):
                    cases.append(['sched', [''.join(par), str(jobs), '0', 'F'] + ['%d,O,I,0' % s for s in steps]])
    nex = len(cases)
    for _ in range(n):
        cases.append(gen_sched_one(rng, nmax))
    return cases, nex


SUITE_ARGS = ['p', 'q', 'x', 'y', ':x', ':y', 'p:x', 'q:x', 'p:y', 'p:', 'q:', ':', 'nosuch', 'p:nosuch', 'a:b:c', 'x:y']
TEST_SUITES = ['p', 'q', 'p:x', 'p:y', 'q:x', 'q:y', 'p:a:b', 'x:y', 'p:']


def gen_select_one(rng):
    nt = rng.randint(0, 8)
    names = ['a', 'b', 'c', 'd', 'e', 'f', 'g', 'h']
    tests = []
    for i in range(nt):
        prj = rng.choice('pppq')
        su = [s for s in (rng.choice(TEST_SUITES) for _ in range(rng.randint(1, 3)))]
        tests.append(SEP2.join([names[i] if rng.random() < 0.9 else 'a', prj, SEP3.join(su)]))
    pick = lambda pool, p: SEP2.join(rng.choice(pool) for _ in range(rng.randint(1, 2))) if rng.random() < p else ''
    inc = pick(SUITE_ARGS, 0.35)
    exs = pick(SUITE_ARGS, 0.3)
    ex = pick(['a', 'b', 'p:a', 'q:a', 'q:b', 'zz', 'p:c'], 0.3)
    ar = pick(['a', 'b', 'c', 'q:a', 'p:a', 'q:', 'p:', ':a', '*', ':', 'zz', 'q:zz', 'd'], 0.3)
    if rng.random() < 0.25:
        # overlapping test-name arguments: exact + glob, `proj:` + name, the same name twice, ...
        n0 = rng.choice(names[:max(nt, 1)])
        ar = SEP2.join(rng.choice([[n0, '*'], [n0, n0], ['p:' + n0, n0, '?'], ['p:', n0], [':' + n0, n0, 'q:*'],
                                   ['*', '?'], [n0, '*:' + n0], ['p:*', 'q:*', n0], [n0[0] + '*', n0], ['[%sz]' % n0, n0], ['[!%s]' % n0, '[pq]:*'],
                                   ['[]%s]' % n0, '[!]]']]))
    sl = ''
    if rng.random() < 0.5:
        k = rng.randint(1, 6)
        sl = '%d/%d' % (rng.randint(1, k), k)
    return ['select', [rng.choice('ppq'), inc, exs, ex, ar, sl] + tests]


def gen_misc(rng, nsel, maxlen, maxglob=3):
    cases = []
    for a in SUITE_ARGS + ['']:
        for b in TEST_SUITES + SUITE_ARGS:
            cases.append(['suite', [a, b]])
    for ln in range(0, maxlen + 1):
        for k in range(1, ln + 2):
            for i in range(1, k + 1):
                cases.append(['slice', [str(ln), str(i), str(k)]])
    for tp, nproc, ia, to, mult in itertools.product('TF', ['0', '1', '2', '5'], 'FT', ['N', '0', '-1', '1', '30'],
                                                     ['N', '0', '-1000', '125', '500', '1000', '2000']):
        cases.append(['runner', [tp, nproc, ia, to, mult]])
    # the option layer: -j values (non-positive ones must be refused) and the environment variables
    for n in list(range(-20, 21)) + [-17, 100, 4096, -1000]:
        cases.append(['jobsopt', [str(n)]])
    envs = ['U', '0', '1', '3', '16', '-1', '-7', 'junk', '', '1.5', '0x4']
    for a in envs:
        for b in envs:
            for cpus in ('1', '16'):
                cases.append(['workers', [a, b, cpus]])
    # name globs against Python's fnmatch: every pattern up to length 3 (4) over {a b * ? [ ] ! ^} x every
    # string up to length 2 over {a b ] ! ^ [}  (no `-`: ranges are not modelled)
    strs = [''.join(t) for k in range(0, 3) for t in itertools.product('ab]!^[', repeat=k)]
    for k in range(0, maxglob + 1):
        for pt in itertools.product('ab*?[]!^', repeat=k):
            for x in strs:
                cases.append(['glob', [''.join(pt), x]])
    nex = len(cases)
    for _ in range(nsel):
        cases.append(gen_select_one(rng))
    return cases, nex


# ---------------------------------------------------------------------- model side of a case
def model_case(case, aux):
    """the extracted-model call whose result must equal the implementation's answer"""
    fn, a = case
    if fn == 'classify':
        p, xf, xe, text, w, rc = a
        return ('classify', [p, xf, xe if xe != '' else '0', aux, w, rc])
    if fn == 'tally':
        return ('tally', a)
    if fn in ('select', 'suite', 'slice', 'jobsopt', 'glob'):
        return (fn, a)
    if fn == 'workers':
        def ev(x):
            if x == 'U':
                return 'U'
            try:
                return str(int(x))          # what Python's int() accepts is an integer for meson too
            except ValueError:
                return 'G'
        return (fn, [ev(a[0]), ev(a[1]), a[2]])
    if fn == 'runner':
        return None   # two model calls, handled separately
    raise KeyError(fn)


def sched_cut_short(maxfail, rep, results):
    failc = sum(1 for r in results if r in 'FEI')
    anybad = any(r in 'FTIUE' for r in results)
    return (maxfail > 0 and failc >= maxfail) or (maxfail < 0 and anybad) or (rep and failc > 0)


def oracle_case(fn, a, ri, slice_of):
    """The clauses of property C12 evaluated on the implementation's answer `ri` to one in-process case
    (no model involved).  Returns [(description, extra replay fields)]."""
    out = []
    if fn == 'classify' and a[0] in 'eg' and a[2] == '' and not ri.startswith('EXC'):
        want = O.documented_result(a[1] == 'T', a[4], int(a[5]))
        if ri != want:
            out.append(('exit-code test with should_fail=%s, wait=%s, status %s classified %s, documented rule says %s'
                        % (a[1], a[4], a[5], ri, want), {'expected': want, 'got': ri}))
    if fn == 'classify' and a[0] == 't' and a[3] in O.TAP_KIND_OF and not ri.startswith('EXC'):
        kind = O.TAP_KIND_OF[a[3]]
        want = O.documented_tap_result(kind, a[1] == 'T', a[4], int(a[5]))
        if ri != want:
            out.append(('tap test, stream %r (%s), should_fail=%s, wait=%s, program exits with status %s: classified %s, documented rule says %s'
                        % (a[3], kind, a[1], a[4], a[5], ri, want), {'expected': want, 'got': ri}))
    if fn == 'tally' and not ri.startswith('EXC'):
        f = ri.split(SEP1)
        counts = [int(x) for x in f[0].split(',')]
        printed = {int(l.split(':')[0]): int(l.split(':')[1]) for l in f[1].split(',') if l and l[0] != '?'}
        bad = O.tally_clauses([O.NAME[c] for c in a[0]], [printed.get(i) for i in range(7)], int(f[3]))
        if any(counts[i] != printed[i] for i in printed):
            bad.append('summary() prints %r, counters are %r' % (printed, counts))
        out += [('results %s: %s' % (a[0], b), {'failure': b}) for b in bad]
    if fn == 'sched':
        if ri.startswith('EXC:'):
            return [('_run_tests raised %s on %s' % (ri, json.dumps(a)), {})]
        evs, cnts, ex = ri.split(SEP1)
        evl = parse_events(evs.split(SEP2) if evs else [])
        results = [e[2] for e in evl if e[0] == 'e']
        cut = sched_cut_short(int(a[2]), a[3] == 'T', results)
        bad = O.trace_clauses([c == 'T' for c in a[0]], int(a[1]), evl, cut)
        bad += O.stop_clauses(evl, int(a[2]), a[3] == 'T')
        bad += O.tally_clauses([O.NAME[r] for r in results], [int(x) for x in cnts.split(',')], int(ex))
        out += [('scheduler run %s: %s' % (json.dumps(a), b), {'events': evs.split(SEP2), 'failure': b}) for b in bad]
    if fn == 'jobsopt' and int(a[0]) >= 1 and ri != a[0]:
        out.append(('`meson test --num-processes %s` is parsed as %s, a positive number of jobs must be accepted as it is' % (a[0], ri), {'got': ri}))
    if fn == 'workers' and not (ri.isdigit() and int(ri) >= 1):
        out.append(('MESON_TESTTHREADS=%r MESON_NUM_PROCESSES=%r (U = unset) with %s CPUs give %s jobs by default; at least 1 is needed for `meson test` to start'
                    % (a[0], a[1], a[2], ri), {'got': ri}))
    if fn == 'runner' and a[2] == 'F' and SEP1 in ri:
        lim = O.documented_limit(None if a[3] == 'N' else int(a[3]), None if a[4] == 'N' else int(a[4]) / 1000.0) if a[3] != 'N' else None
        want = 'N' if lim is None else str(int(round(lim * 1000)))
        got = ri.split(SEP1)[1]
        if got != want:
            out.append(('a test with timeout %s under --timeout-multiplier %s gets the limit %s ms, documented: %s ms (N = no limit; a multiplier <= 0 disables the timeout)'
                        % (a[3], 'absent' if a[4] == 'N' else int(a[4]) / 1000.0, got, want), {'expected': want, 'got': got}))
    if fn == 'select' and not ri.startswith('EXC'):
        tests = []
        for t in a[6:]:
            f = t.split(SEP2)
            tests.append((f[0], f[1], f[2].split(SEP3) if len(f) > 2 and f[2] else []))
        got = None if ri == 'ERR' else [tuple(x.split(':', 1)) for x in ri[1:].split(SEP2)] if ri[1:] else []
        lst = lambda x: x.split(SEP2) if x else []
        if len({(p_, n_) for n_, p_, _ in tests}) == len(tests):
            want = O.independent_selection(tests, a[0], lst(a[1]), lst(a[2]), lst(a[3]), lst(a[4]),
                                           tuple(int(x) for x in a[5].split('/')) if a[5] else None)
            cmd = {'--suite': lst(a[1]), '--no-suite': lst(a[2]), '--exclude': lst(a[3]), 'names': lst(a[4]), '--slice': a[5]}
            if got is not None and len(set(got)) != len(got):
                out.append(('get_tests selects a test more than once: %r for %s' % (got, json.dumps(cmd)), {'expected': want, 'got': got}))
            elif got != want:
                out.append(('get_tests selects %r, the command line %s selects %r' % (got, json.dumps(cmd), want), {'expected': want, 'got': got}))
    if fn == 'slice' and a[1] == '1' and not ri.startswith('E'):
        n, k = int(a[0]), int(a[2])
        sl = []
        for i in range(1, k + 1):
            r = slice_of([a[0], str(i), a[2]])
            sl.append(r.split(',') if r else [])
        out += [('%d tests, %d slices: %s' % (n, k, b), {'failure': b}) for b in O.slice_clauses([str(x) for x in range(n)], sl)]
    return out


def parse_events(evs):
    out = []
    for e in evs:
        if e[0] == 'e':
            out.append(('e', int(e[1:-1]), e[-1]))
        else:
            out.append((e[0], int(e[1:])))
    return out


def inprocess(ctx, built, thorough):
    rng = ctx.rng
    c_cl, ex_cl = gen_classify(rng, 20000 if thorough else 2500)
    c_ta, ex_ta = gen_tally(rng, 20000 if thorough else 2000, 4 if thorough else 3)
    c_sc, ex_sc = gen_sched(rng, 150000 if thorough else 3000, 14 if thorough else 9)
    c_mi, ex_mi = gen_misc(rng, 20000 if thorough else 2500, 14 if thorough else 10, 4 if thorough else 3)
    cases = c_cl + c_ta + c_sc + c_mi
    ctx.extra['input_distribution'] = {
        'classify': len(c_cl), 'classify_exhaustive_grid': ex_cl, 'tally': len(c_ta), 'tally_exhaustive_upto_len': 4 if thorough else 3,
        'sched_inprocess': len(c_sc), 'sched_exhaustive_small': ex_sc, 'suite+slice+runner_exhaustive': ex_mi,
        'select_random': len(c_mi) - ex_mi}
    # implementation, sharded
    shards = NPROC
    chunks = [cases[i::shards] for i in range(shards)]
    outs = pmap(lambda ch: run_impl('c12.py', {'cases': ch}, timeout=3000) if ch else {'results': [], 'aux': []}, chunks)
    impl, aux = [None] * len(cases), [None] * len(cases)
    for k, o in enumerate(outs):
        impl[k::shards] = o['results']
        aux[k::shards] = o['aux']

    # model calls
    mcases, back = [], []
    for idx, (case, ri, ax) in enumerate(zip(cases, impl, aux)):
        fn, a = case
        if fn == 'sched':
            if ri.startswith('EXC:'):
                back.append((idx, 'exc', None)); continue
            evs = ri.split(SEP1)[0]
            evl = evs.split(SEP2) if evs else []
            mcases.append(('adm', [a[0], a[1], a[2], a[3], 'S'] + evl))
            back.append((idx, 'adm', len(mcases) - 1))
        elif fn == 'runner':
            tp, nproc, ia, to, mult = a
            mcases.append(('mkcfg', [tp * max(int(nproc), 1), '1', nproc, '0']))
            mcases.append(('timeout', [ia, to, mult]))
            back.append((idx, 'runner', len(mcases) - 2))
        else:
            mcases.append(model_case(case, ax))
            back.append((idx, 'eq', len(mcases) - 1))
    mout = ctx.run_model(mcases, shards=NPROC) if built else None

    ntr = 0
    nviol = {}
    where = {(c[0], tuple(c[1])): i for i, c in enumerate(cases) if c[0] == 'slice'}
    for idx, kind, mi in back:
        fn, a = cases[idx]
        ri = impl[idx]
        ctx.count((fn, tuple(a)))
        # ---------------- oracle: property clauses on the implementation's answer
        if fn == 'sched' and kind != 'exc':
            ntr += 1
        for what, extra in oracle_case(fn, a, ri, lambda args: impl[where[('slice', tuple(args))]]):
            nviol[fn] = nviol.get(fn, 0) + 1
            if nviol[fn] > 2:          # leave room among the written replays for the CLI observations
                ctx.extra['inprocess_violations_not_listed'] = ctx.extra.get('inprocess_violations_not_listed', 0) + 1
                continue
            ctx.violation('C12:%s:%s' % (fn, json.dumps(a)), what, dict({'case': [fn, a]}, **extra))
        if kind == 'exc':
            continue
        # ---------------- correspondence: implementation = extracted model
        if not built:
            continue
        if kind == 'eq':
            if mout[mi] != ri:
                ctx.disagreements.append({'case': [fn, a], 'implementation': ri, 'model': mout[mi], 'model_call': list(mcases[mi])})
        elif kind == 'adm':
            want = SEP1.join(['T', 'T', '-'])
            if mout[mi] != want:
                ctx.disagreements.append({'case': [fn, a], 'implementation_events': ri.split(SEP1)[0].split(SEP2),
                                          'model': 'admissible|complete|stuck-at = ' + mout[mi].replace(SEP1, '|')})
        elif kind == 'runner':
            mp = mout[mi].split(SEP1)[1][:1]
            got_p, got_t = ri.split(SEP1) if SEP1 in ri else (ri, '')
            want_p = 'F' if a[2] == 'T' else mp       # interactive forces serial (mtest.py:1526)
            if (got_p, got_t) != (want_p, mout[mi + 1]):
                ctx.disagreements.append({'case': [fn, a], 'implementation': ri, 'model': want_p + SEP1 + mout[mi + 1]})
    ctx.extra['inprocess_scheduler_traces'] = ntr
    for s in (c_cl[ex_cl + 3], c_ta[ex_ta + 1], c_sc[0], c_sc[ex_sc + 2], c_mi[ex_mi + 1]):
        ctx.sample({'fn': s[0], 'args': s[1], 'implementation': impl[cases.index(s)]})
    return cases, impl, mcases, mout, ntr


def replay(ctx):
    rec = json.load(open(ctx.replay))
    r = rec['replay']
    print('replaying', json.dumps(r)[:300], '...')
    if 'case' in r:
        res = run_impl('c12.py', {'cases': [r['case']]})
        print('implementation:', repr(res['results'][0]), repr(res['aux'][0]))
        fn, a = r['case']
        slice_of = lambda args: run_impl('c12.py', {'cases': [['slice', args]]})['results'][0]
        fails = oracle_case(fn, a, res['results'][0], slice_of)
        print('property clauses failing on the implementation:', json.dumps([f[0] for f in fails], indent=1))
    if 'cli' in r:
        import c12cli
        c12cli.replay(ctx, r['cli'])
    return 0


def run(ctx):
    if ctx.replay:
        return replay(ctx)
    thorough = ctx.tier == 'thorough'
    built = ctx.build('Props/C12.v', 'Mtest/Extract.v', 'C12')
    tm = {'build': round(time.time() - ctx.t0, 1)}
    ctx.extra['phase_seconds'] = tm
    part = os.environ.get('C12_PART', 'all')      # diagnosis only: inproc | cli | all
    if part == 'cli':
        import c12cli
        ncli = c12cli.run_cli(ctx, built, thorough)
        ctx.cov['traces_validated_against_impl'] = ncli
        return ctx.finish(level='proof', trusted=['diagnostic partial run'], rule='diagnostic partial run (C12_PART=cli)')
    t1 = time.time()
    cases, impl, mcases, mout, ntr = inprocess(ctx, built, thorough)
    tm['inprocess'] = round(time.time() - t1, 1); t1 = time.time()
    if built:
        ctx.kernel_crosscheck('Mtest.Entry', [c for c in mcases if len(c[1]) < 40], [o for c, o in zip(mcases, mout) if len(c[1]) < 40], limit=300)
    tm['kernel_crosscheck'] = round(time.time() - t1, 1); t1 = time.time()
    import c12cli
    ncli = c12cli.run_cli(ctx, built, thorough)
    tm['cli'] = round(time.time() - t1, 1)
    ctx.cov['traces_validated_against_impl'] = ntr + ncli
    if thorough and built:
        r = subprocess.run(['timeout', '900', 'coqchk', '-o', '-silent', '-Q', COQ, 'MV', 'MV.Props.C12'],
                           capture_output=True, text=True)
        m = re.search(r'\* Axioms:(.*?)\n\s*\n', r.stdout + r.stderr, re.S)
        ctx.extra['coqchk'] = {'exit': r.returncode, 'axioms': m.group(1).strip() if m else '?'}
        if r.returncode != 0 or not m or m.group(1).strip() != '<none>':
            raise HarnessError('coqchk of MV.Props.C12 failed or reports axioms: ' + (r.stdout + r.stderr)[-1500:])
    return ctx.finish(
        level='proof',
        trusted=['Coq 8.16.1 kernel (coqc, vm_compute; no native_compute)',
                 'extraction with ExtrOcamlBasic directives only + OCaml + extract/driver.ml (cross-checked in-kernel on a sample each run)',
                 'harness/check_C12.py, harness/c12cli.py generators and harness/impl/c12.py adapter/canonicaliser/oracle',
                 'asyncio (Semaphore, ensure_future, cancellation) by its documented semantics; POSIX O_APPEND atomicity of the event log',
                 'not modelled: SIGINT/SIGTERM handlers, process-group kill, --setup, --wrapper/--gdb/interactive, ranges inside fnmatch bracket expressions'],
        assumptions=['Print Assumptions: all property theorems closed under the global context (no axioms)',
                     'the semaphore wake-up order is left open in the model (superset of asyncio FIFO)',
                     'the event log of the test programs is the exact observable trace with results erased, starts logged later and ends logged earlier (a shrink): it is replayed with the stop rules switched off (lax); C12_log_check_sound proves that this accepts every log an admissible run can leave; the stop rules are checked on the exact in-process traces and on the testlog.json timeline',
                     'a started test whose end is missing from the log (SIGKILLed) is given the shortest possible life (end right after its start)'],
        rule='in-process: exhaustive grids (exit-code classification, result strings up to length 3/4, suite pairs, slices, runner options, '
             'all schedules of <=3 runners) + seeded random TAP/rust outputs, result lists, scheduler configurations (stub runners with random '
             'step counts drive the real TestHarness._run_tests), selections; CLI: generated projects of shell-script tests with random durations, '
             'exit codes, should_fail, timeouts, priorities, suites, protocols x --num-processes/--repeat/--maxfail/--slice/--suite; '
             'distinct = distinct (function, arguments) tuples; every case exercises a classification, tally, selection or scheduling rule')
