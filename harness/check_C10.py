"""C10 — dependencies resolve by the documented fallback policy, from verified sources.
Theorems: coq/Props/C10.v.  Models: coq/Deps/{Lookup,Policy,Wrap}.v.
Implementation: mesonbuild/interpreter/dependencyfallbacks.py (+ interpreter.py, mesonmain.py) observed
through `meson setup` with a private PKG_CONFIG_LIBDIR; mesonbuild/wrap/wrap.py Resolver run in-process
with file:// URLs and harness-built archives, faults injected at every primitive step."""
import itertools, json, os, re, shutil, subprocess
from common import *

S1, S2, S3, S4 = '\x01', '\x02', '\x03', '\x04'
WRAP_MODES = ['default', 'nofallback', 'nodownload', 'forcefallback', 'nopromote']

# =================================================================================== lookups
def dep_expr(d):
    if d == 'N':
        return "dependency('', required: false)"
    if d == 'X':
        return "'not a dependency'"
    v = d[1:]
    return 'declare_dependency()' if v == 'undefined' else "declare_dependency(version: '%s')" % v


def ob3(v):
    return 'N' if v is None else ('T' if v else 'F')


def ov3(sd):
    """overrides of a subproject as (name, dep, static) triples (static omitted = None)"""
    return [(o[0], o[1], o[2] if len(o) > 2 else None) for o in sd['overrides']]


def static_kw(sk):
    return '' if sk is None else ', static: %s' % ('true' if sk else 'false')


def lookup_src(i, lk):
    kw = []
    if lk['required'] is not None:
        kw.append('required: %s' % ('true' if lk['required'] else 'false'))
    if lk['version']:
        kw.append('version: [%s]' % ', '.join("'%s'" % v for v in lk['version']))
    if lk['allow'] is not None:
        kw.append('allow_fallback: %s' % ('true' if lk['allow'] else 'false'))
    if lk['fallback'] is not None:
        kw.append('fallback: [%s]' % ', '.join("'%s'" % v for v in lk['fallback']))
    if lk.get('static') is not None:
        kw.append('static: %s' % ('true' if lk['static'] else 'false'))
    if lk.get('deflib') is not None:
        kw.append("default_options: ['default_library=%s']" % lk['deflib'])
    args = ', '.join(["'%s'" % n for n in lk['names']] + kw)
    return ("d = dependency(%s)\nmessage('R%d:@0@:@1@:@2@:@3@'.format(d.found(), d.type_name(), d.version(), d.name()))\n"
            % (args, i))


def write_project(cell, root):
    src, pc = os.path.join(root, 'src'), os.path.join(root, 'pc')
    os.makedirs(os.path.join(src, 'subprojects'))
    os.makedirs(pc)
    for n, v in cell['sys']:
        open(os.path.join(pc, n + '.pc'), 'w').write('Name: %s\nDescription: d\nVersion: %s\n' % (n, v))
    for w in cell['wraps']:
        if not w['file']:
            continue
        lines = ['[wrap-file]', 'directory = ' + w['name']]
        if w['entries']:
            lines.append('[provide]')
            dn = [k for k, v in w['entries'] if v is None]
            if dn:
                lines.append('dependency_names = ' + ', '.join(dn))
            lines += ['%s = %s' % (k, v) for k, v in w['entries'] if v is not None]
        open(os.path.join(src, 'subprojects', w['name'] + '.wrap'), 'w').write('\n'.join(lines) + '\n')
    for name, sd in cell['subs']:
        d = os.path.join(src, 'subprojects', name)
        os.makedirs(d)
        body = ["project('%s')" % name]
        for n, dd, sk in ov3(sd):
            body.append("meson.override_dependency('%s', %s%s)" % (n, dep_expr(dd), static_kw(sk)))
        for n, dd in sd['vars']:
            body.append('%s = %s' % (n, dep_expr(dd)))
        if sd['fails']:
            body.append("error('boom')")
        open(os.path.join(d, 'meson.build'), 'w').write('\n'.join(body) + '\n')
    body = ["project('p')"]
    li = 0
    for op in cell['ops']:
        if op[0] == 'O':
            body.append("meson.override_dependency('%s', %s%s)" % (op[1], dep_expr(op[2]), static_kw(op[3] if len(op) > 3 else None)))
        elif op[0] == 'P':
            dlo = op[3] if len(op) > 3 else None
            body.append("subproject('%s', required: %s%s)" % (op[1], 'true' if op[2] else 'false',
                                                              '' if dlo is None else ", default_options: ['default_library=%s']" % dlo))
        else:
            body.append(lookup_src(li, op[1]))
            li += 1
    open(os.path.join(src, 'meson.build'), 'w').write('\n'.join(body) + '\n')
    open(os.path.join(root, 'nat.ini'), 'w').write("[binaries]\ncmake = '/nonexistent/cmake'\n")
    return src, pc


MSG = re.compile(r'^Message: R(\d+):(true|false):([^:]*):([^:]*):(.*)$', re.M)


def run_cell(arg):
    cell, root = arg
    src, pc = write_project(cell, root)
    args = ['setup', '--backend=none', '--native-file', os.path.join(root, 'nat.ini'),
            '-Dwrap_mode=' + cell['wrap_mode']]
    if cell['fff']:
        args.append('-Dforce_fallback_for=' + ','.join(cell['fff']))
    if cell.get('deflib', 'shared') != 'shared':
        args.append('-Ddefault_library=' + cell['deflib'])
    for sn, dl in cell.get('subdl', []):
        args.append('-D%s:default_library=%s' % (sn, dl))
    args += [src, os.path.join(root, 'b')]
    env = {'PKG_CONFIG_LIBDIR': pc, 'PKG_CONFIG_PATH': '', 'PKG_CONFIG': '/usr/bin/pkg-config'}
    rc, out = 'timeout', ''
    for tmo in (180, 600):           # a loaded machine is not a finding: retry once, then give up as a harness error
        try:
            r = meson_cli(args, env=env, timeout=tmo)
            rc, out = r.returncode, r.stdout
            break
        except subprocess.TimeoutExpired:
            shutil.rmtree(os.path.join(root, 'b'), ignore_errors=True)
    obs = []
    for m in MSG.finditer(out):
        obs.append([m.group(2) == 'true', m.group(3), m.group(4), m.group(5)])
    status = {0: 'OK', 1: 'ERR'}.get(rc, 'CRASH%s' % rc)
    shutil.rmtree(root, ignore_errors=True)
    return obs, status, out[-1500:] if status.startswith('CRASH') else ''


def render_obs(obs, status):
    lines = ['T:%s:%s' % (t, v) if f else 'F:not-found:unknown' for f, t, v, _ in obs]
    return S1.join(lines + [status])


def cell_to_model(cell):
    args = [cell['wrap_mode'], S2.join(cell['fff']), cell.get('deflib', 'shared'),
            S2.join(sn + S3 + dl for sn, dl in cell.get('subdl', []))]
    for n, v in cell['sys']:
        args.append(S1.join(['S', n, v]))
    wrapped = set()
    for w in cell['wraps']:
        wrapped.add(w['name'])
        args.append(S1.join(['W', w['name']] + [k if v is None else k + S3 + v for k, v in w['entries']]))
    for name, sd in cell['subs']:
        if name not in wrapped:          # a directory without wrap file gets a bare PackageDefinition
            args.append(S1.join(['W', name]))
    for name, sd in cell['subs']:
        args.append(S1.join(['D', name, 'T' if sd['fails'] else 'F',
                             S2.join(n + S3 + ob3(sk) + d for n, d, sk in ov3(sd)),
                             S2.join(n + S3 + d for n, d in sd['vars'])]))
    for op in cell['ops']:
        if op[0] == 'O':
            args.append(S1.join(['O', op[1], ob3(op[3] if len(op) > 3 else None), op[2]]))
        elif op[0] == 'P':
            args.append(S1.join(['P', op[1], 'T' if op[2] else 'F', (op[3] if len(op) > 3 else None) or '-']))
        else:
            lk = op[1]
            req = True if lk['required'] is None else lk['required']
            args.append(S1.join(['L', S2.join(n if n else S4 for n in lk['names']), 'T' if req else 'F',
                                 S2.join(lk['version']), 'N' if lk['allow'] is None else ('T' if lk['allow'] else 'F'),
                                 '-' if lk['fallback'] is None else '=' + S2.join(lk['fallback']),
                                 ob3(lk.get('static')), lk.get('deflib') or '-']))
    return ('prog', args)


# ---- the documented policy, written out for one dependency() call on one name (oracle; no model)
def py_register(over, n, sk, dl, d):
    """meson.override_dependency(n, d, static: sk) in a project whose default_library is dl (reference manual:
    without `static` the override answers lookups without `static` and those matching default_library).
    over: {(name, static): dep}.  False = the call is an error."""
    if n == '':
        return False

    def put(key, permissive=False):
        if key in over:
            return permissive
        over[key] = d
        return True
    if sk is None:
        if not put((n, None)):
            return False
        if dl == 'static':
            return put((n, True))
        if dl == 'shared':
            return put((n, False))
        return put((n, True)) and put((n, False))
    return put((n, None), True) and put((n, sk))


def py_eff_dl(cell, sub, sk, calldl):
    if sk is not None:
        return 'static' if sk else 'shared'
    return dict(cell.get('subdl', [])).get(sub) or calldl or cell.get('deflib', 'shared')


def py_configure(cell, over, sub, sd, dl):
    """overrides after configuring subproject `sub`, or None if it fails"""
    if sd is None or sd['fails']:
        return None
    new = dict(over)
    for n, d, sk in ov3(sd):
        if not py_register(new, n, sk, dl, d):
            return None
    return new


def policy_expect(c):
    """c: circumstances of the first dependency() call of a cell.  Returns 'ERR' | 'F' | 'T:<type>:<version>'."""
    from_vok = c['vok']
    req = c['required']
    fail = 'ERR' if req else 'F'
    key = (c['name'], c['static'])

    def vet(d):
        if d is None or d in ('N', 'X'):
            return fail
        return 'T:internal:' + d[1:] if from_vok(d[1:]) else fail
    if c['fallback'] is not None and (c['allow'] is not None or len(c['fallback']) > 2):
        return 'ERR'
    if key in c['over']:                                # an overridden dependency wins
        return vet(c['over'][key])
    allow, fb = c['allow'], None
    if c['fallback'] is not None:
        if len(c['fallback']) == 0:
            allow = False
        else:
            fb = (c['fallback'][0], c['fallback'][1] if len(c['fallback']) > 1 else None)
    forced = c['wrap_mode'] == 'forcefallback' or c['name'] in c['fff'] or (fb is not None and fb[0] in c['fff'])
    if fb is None and allow is not False and c['provide'] is not None:
        s, v = c['provide']
        forced = forced or s in c['fff']
        if forced or allow is True or req or c['sub_state'].get(s) == 'found':
            fb = (s, v)

    def var_dep(s, var):
        sd = c['subdefs'].get(s)
        var = var or c['wrapvars'].get((s, c['name']))
        if not var or sd is None:
            return 'N'
        for n, d in sd['vars']:
            if n == var:
                return d
        return 'N'
    if fb is not None and c['sub_state'].get(fb[0]) == 'found':      # fallback subproject already configured
        return vet(var_dep(*fb))
    if not (forced and fb is not None):                              # the system, unless fallback is forced
        if c['sys'] is not None and c['sys_ok'](c['sys']):
            return 'T:pkgconfig:' + c['sys']
    if fb is not None and (forced or c['wrap_mode'] != 'nofallback'):
        if c['sub_state'].get(fb[0]) == 'disabled':
            return fail
        new = py_configure(c['cell'], c['over'], fb[0], c['subdefs'].get(fb[0]), py_eff_dl(c['cell'], fb[0], c['static'], c['deflib']))
        if new is None:
            return fail                                               # the subproject itself fails
        if key in new:
            return vet(new[key])
        return vet(var_dep(*fb))
    return fail


def first_lookup_circ(cell):
    """Circumstances of the first dependency() call, if it is a single-name call; else None."""
    over, substate = {}, {}
    subdefs = dict(cell['subs'])
    for op in cell['ops']:
        if op[0] == 'O':
            if not py_register(over, op[1], op[3] if len(op) > 3 else None, cell.get('deflib', 'shared'), op[2]):
                return None
        elif op[0] == 'P':
            s = op[1]
            if s in substate:
                if op[2] and substate[s] != 'found':
                    return None
                continue
            new = py_configure(cell, over, s, subdefs.get(s), py_eff_dl(cell, s, None, op[3] if len(op) > 3 else None))
            if new is None:
                if op[2]:
                    return None
                substate[s] = 'disabled'
            else:
                substate[s] = 'found'
                over = new
        else:
            lk = op[1]
            names = [n for n in lk['names'] if n]
            if len(names) != 1 or any(ch in names[0] for ch in '<>='):
                return None
            name = names[0]
            provide, wrapvars = None, {}
            allw = [(w['name'], [(w['name'].lower(), None)] + list(w['entries'])) for w in cell['wraps']]
            allw += [(n, [(n.lower(), None)]) for n, _ in cell['subs'] if n not in {w['name'] for w in cell['wraps']}]
            for wn, ents in allw:
                d = {}
                for k, v in ents:
                    d[k] = v
                for k, v in d.items():
                    wrapvars[(wn, k)] = v
                if provide is None and name.lower() in d:
                    provide = (wn, d[name.lower()])
            return {'name': name, 'required': True if lk['required'] is None else lk['required'], 'wanted': lk['version'],
                    'allow': lk['allow'], 'fallback': lk['fallback'], 'over': over, 'static': lk.get('static'),
                    'deflib': lk.get('deflib'), 'cell': cell, 'sys': dict(cell['sys']).get(name), 'provide': provide,
                    'wrapvars': wrapvars, 'sub_state': substate, 'subdefs': subdefs,
                    'wrap_mode': cell['wrap_mode'], 'fff': cell['fff']}
    return None


def annotate(cell, vcmp):
    """Adds the oracle's expectations to the cell (lookups list for harness/impl/c10.py)."""
    lks = [op[1] for op in cell['ops'] if op[0] == 'L']
    c = first_lookup_circ(cell)
    out = []
    changed = False
    seen_lookup = False
    for op in cell['ops']:
        if op[0] != 'L':
            if seen_lookup:
                changed = True
            continue
        seen_lookup = True
        lk = op[1]
        out.append({'args': dict({k: lk[k] for k in ('names', 'required', 'version', 'allow', 'fallback')},
                                 static=lk.get('static'), deflib=lk.get('deflib')),
                    'required': True if lk['required'] is None else lk['required'], 'version': lk['version'],
                    'expect': None, 'state_changed_since_first': changed})
    # "once one of the names has been found, all other names ... return the same value": a later lookup of a subset
    # of the names of an earlier one (same constraints), in build files where nobody overrides anything explicitly
    plain = not any(op[0] == 'O' for op in cell['ops']) and not any(sd['overrides'] for _, sd in cell['subs'])
    if plain:
        for j in range(len(out)):
            nj = [n for n in out[j]['args']['names'] if n]
            for i in range(j):
                ni = [n for n in out[i]['args']['names'] if n]
                if nj and set(nj) <= set(ni) and len(set(ni)) == len(ni) and out[i]['version'] == out[j]['version'] \
                        and out[i]['args']['static'] == out[j]['args']['static']:
                    out[j]['alias_of'] = i
                    break
    if c is not None and out:
        w = c['wanted']
        c['vok'] = lambda v: (not w) or (v != 'undefined' and vcmp(v, w))
        c['sys_ok'] = lambda v: (not w) or (v != '' and vcmp(v, w))
        out[0]['expect'] = policy_expect(c)
        out[0]['why'] = 'documented policy for ' + json.dumps({k: v for k, v in c.items()
                                                                if k in ('static', 'deflib', 'sys', 'provide', 'sub_state', 'wrap_mode', 'fff')},
                                                               default=str) + ' overrides ' + repr(sorted(c['over'], key=repr))
        # the fallback subproject registers exactly this name with meson.override_dependency(name, d): the call that
        # configures it must get d, whatever static:/default_library say (Props/C10.v C10_fallback_override_found)
        lk0 = [op[1] for op in cell['ops'] if op[0] == 'L'][0]
        for sn, sd in cell['subs']:
            o3 = ov3(sd)
            if (out[0]['expect'] or '').startswith('T:internal:') and not sd['fails'] and len(o3) == 1 \
                    and o3[0][0] == c['name'] and o3[0][2] is None and o3[0][1] == 'I' + out[0]['expect'][11:] \
                    and c['sub_state'].get(sn) is None and not c['over']:
                out[0]['override_fallback'] = sn
    return out


# ---- generators
VERS = ['1.0', '2.0']
CONSTRAINTS = [[], ['>=1.5'], ['<1.5']]


def base_lookup(name='foo', required=True, version=(), allow=None, fallback=None):
    return {'names': [name], 'required': required, 'version': list(version), 'allow': allow, 'fallback': fallback}


def varname(n):
    return re.sub('[^a-z0-9_]', '_', n.lower()) + '_dep'


def sub_providing(kind, ver='2.0', name='foo'):
    """kind: 'override' (meson.override_dependency) | 'var' | 'both' | 'none' | 'fails' | 'notfound' | 'other'"""
    sd = {'fails': kind == 'fails', 'overrides': [], 'vars': [('unrelated', 'I9.9')]}
    if kind in ('override', 'both', 'fails'):
        sd['overrides'].append((name, 'I' + ver))
    if kind in ('var', 'both'):
        sd['vars'].append((varname(name), 'I' + (ver if kind == 'var' else '0.1')))
    if kind == 'notfound':
        sd['vars'].append((varname(name), 'N'))
    if kind == 'other':
        sd['vars'].append((varname(name), 'X'))
    return sd


FBKINDS = ['none', 'explicit2', 'explicit1', 'provide', 'providevar', 'configured', 'override']


DLIBS = ['shared', 'static', 'both']
STATIC_DIMS = [[None, True, False], [None, 'static', 'shared', 'both'], DLIBS, [None, 'static', 'shared']]


def product_cell(sysv, cons, fbkind, wm, fff, required, allow, subkind='both', subver='2.0', nlook=1, rng=None,
                 static=None, lkdl=None, gdl='shared', sdl=None):
    """One cell of the property's cross product.  static: the `static:` keyword of the lookup; lkdl: default_library
    in its default_options; gdl: -Ddefault_library; sdl: -Dsub:default_library."""
    cell = {'wrap_mode': wm, 'fff': list(fff), 'sys': [('foo', sysv)] if sysv else [], 'wraps': [], 'subs': [], 'ops': [],
            'deflib': gdl, 'subdl': []}
    lk = base_lookup(required=required, version=cons, allow=allow)
    lk['static'], lk['deflib'] = static, lkdl
    if fbkind in ('explicit2', 'explicit1', 'configured'):
        if fbkind == 'explicit1':
            lk['fallback'] = ['sub']
        elif fbkind == 'explicit2' or allow is None:
            lk['fallback'] = ['sub', 'foo_dep']
        cell['subs'].append(('sub', sub_providing(subkind, subver)))
        if fbkind == 'configured':
            if allow is not None:        # with allow_fallback the fallback comes from the wrap's [provide]
                cell['wraps'].append({'name': 'sub', 'file': True, 'entries': [('foo', 'foo_dep')]})
            cell['ops'].append(('P', 'sub', False))
    elif fbkind == 'provide':
        cell['wraps'].append({'name': 'sub', 'file': True, 'entries': [('foo', None)]})
        cell['subs'].append(('sub', sub_providing(subkind, subver)))
    elif fbkind == 'providevar':
        cell['wraps'].append({'name': 'sub', 'file': True, 'entries': [('foo', 'foo_dep')]})
        cell['subs'].append(('sub', sub_providing('var' if subkind == 'both' else subkind, subver)))
    elif fbkind == 'override':
        cell['ops'].append(('O', 'foo', 'I' + subver))
        cell['wraps'].append({'name': 'sub', 'file': True, 'entries': [('foo', None)]})
        cell['subs'].append(('sub', sub_providing('none')))
    if sdl is not None and any(n == 'sub' for n, _ in cell['subs']):
        cell['subdl'] = [('sub', sdl)]
    for _ in range(nlook):
        cell['ops'].append(('L', dict(lk)))
    return cell


def corner_cells():
    cs = []
    P = product_cell
    # the rows the property text names
    cs.append(P('1.0', [], 'override', 'default', [], True, None))                 # override wins over system
    cs.append(P('1.0', ['<1.5'], 'override', 'default', [], True, None))           # override with mismatching version
    cs.append(P('1.0', ['<1.5'], 'override', 'default', [], False, None))
    cs.append(P('1.0', [], 'explicit2', 'default', [], True, None))                # system present
    cs.append(P('1.0', ['>=1.5'], 'explicit2', 'default', [], True, None))         # system too old -> fallback
    cs.append(P('1.0', [], 'explicit2', 'forcefallback', [], True, None))          # forced
    cs.append(P('1.0', [], 'explicit2', 'default', ['foo'], True, None))
    cs.append(P('1.0', [], 'explicit2', 'default', ['sub'], True, None))
    cs.append(P('1.0', [], 'explicit2', 'nofallback', ['sub'], True, None))        # force_fallback_for beats nofallback
    cs.append(P(None, [], 'explicit2', 'nofallback', [], True, None))              # nofallback, nothing on the system: error
    cs.append(P(None, [], 'explicit2', 'nofallback', [], False, None))
    cs.append(P(None, [], 'provide', 'default', [], False, None))                  # optional + unset allow_fallback: no implicit fallback
    cs.append(P(None, [], 'provide', 'default', [], False, True))
    cs.append(P(None, [], 'provide', 'default', [], True, False))
    cs.append(P(None, [], 'provide', 'forcefallback', [], False, None))            # forced optional lookup falls back
    cs.append(P(None, [], 'provide', 'default', ['sub'], False, None))
    cs.append(P('1.0', [], 'provide', 'forcefallback', [], True, False))           # allow_fallback: false -> system even when forced
    cs.append(P('2.0', [], 'configured', 'default', [], True, None))               # configured subproject wins
    cs.append(P('2.0', [], 'configured', 'nofallback', [], False, None))
    cs.append(P('2.0', [], 'configured', 'default', [], False, None, subkind='fails'))
    cs.append(P(None, [], 'explicit2', 'default', [], True, None, subkind='fails'))
    cs.append(P(None, [], 'explicit2', 'default', [], False, None, subkind='fails', nlook=2))
    cs.append(P(None, [], 'explicit1', 'default', [], False, None, subkind='var', nlook=2))   # no override, no variable name
    cs.append(P(None, ['>=3'], 'explicit2', 'default', [], False, None, nlook=3))
    cs.append(P(None, [], 'explicit2', 'default', [], False, None, subkind='notfound', nlook=2))
    cs.append(P(None, [], 'explicit2', 'default', [], True, None, subkind='other'))
    cs.append(P(None, [], 'explicit2', 'default', [], True, True))                 # fallback + allow_fallback: invalid
    cs.append(P('1.0', [], 'none', 'default', [], True, None, nlook=3))
    cs.append(P(None, [], 'none', 'default', [], False, None, nlook=2))
    cs.append(P(None, [], 'none', 'default', [], True, None))
    cs.append(P('1.0', ['>=1.5'], 'none', 'forcefallback', [], False, None))
    # declare_dependency() without version ('undefined') behind a constraint
    c = P(None, ['>=1'], 'explicit2', 'default', [], False, None, subkind='var', subver='undefined', nlook=2)
    cs.append(c)
    # dependency('') required / optional / with fallback
    for req in (True, False):
        c = P(None, [], 'none', 'default', [], req, None)
        c['ops'] = [('L', base_lookup(name='', required=req))]
        cs.append(c)
    c = P(None, [], 'explicit2', 'default', [], False, None)
    c['ops'][-1][1]['names'] = ['']
    cs.append(c)
    # several names: the second is on the system; then each name again
    c = {'wrap_mode': 'default', 'fff': [], 'sys': [('bar', '1.0')], 'wraps': [], 'subs': [], 'ops': [
        ('L', {'names': ['foo', 'bar'], 'required': True, 'version': [], 'allow': None, 'fallback': None}),
        ('L', base_lookup('foo')), ('L', base_lookup('bar'))]}
    cs.append(c)
    c = {'wrap_mode': 'default', 'fff': [], 'sys': [], 'wraps': [], 'subs': [('sub', sub_providing('var', '2.0'))], 'ops': [
        ('L', {'names': ['bar', 'foo'], 'required': False, 'version': [], 'allow': None, 'fallback': ['sub', 'foo_dep']}),
        ('L', base_lookup('bar', required=False)), ('L', base_lookup('foo', required=True))]}
    cs.append(c)
    c = {'wrap_mode': 'forcefallback', 'fff': [], 'sys': [('foo', '1.0'), ('bar', '2.0')],
         'wraps': [{'name': 'sub', 'file': True, 'entries': [('bar', 'foo_dep')]}], 'subs': [('sub', sub_providing('var', '3.0'))], 'ops': [
        ('L', {'names': ['foo', 'bar'], 'required': True, 'version': ['>=1'], 'allow': None, 'fallback': None}),
        ('L', base_lookup('foo', version=['>=1'])), ('L', base_lookup('bar', version=['>=1']))]}
    cs.append(c)
    # identifiers are (name, static): the fallback subproject is configured with the default_library that `static:`
    # forces, so its meson.override_dependency(name) answers the lookup that triggered it
    for fbk in ('provide', 'explicit1'):
        for stc, gdl in ((True, 'shared'), (False, 'static'), (True, 'both'), (None, 'static')):
            for req in (True, False):
                cs.append(P(None, [], fbk, 'default', [], req, True if (fbk == 'provide' and not req) else None,
                            subkind='override', static=stc, gdl=gdl, nlook=2))
    cs.append(P(None, [], 'provide', 'default', [], True, None, subkind='override', lkdl='static', nlook=1))
    c = P(None, [], 'provide', 'default', [], True, None, subkind='override', lkdl='static')
    c['ops'].append(('L', dict(base_lookup('foo', required=False), static=True, deflib=None)))    # answered by the static subproject
    c['ops'].append(('L', dict(base_lookup('foo', required=False), static=True, deflib=None)))
    c['ops'].append(('L', dict(base_lookup('foo', required=False), static=False, deflib=None)))   # no shared override was registered
    cs.append(c)
    cs.append(P(None, [], 'explicit1', 'default', [], True, None, subkind='override', static=True, sdl='shared'))   # static: beats -Dsub:default_library
    cs.append(P(None, [], 'explicit1', 'default', [], True, None, subkind='override', lkdl='static', sdl='shared', nlook=2))
    cs.append(P('1.0', [], 'explicit1', 'forcefallback', [], True, None, subkind='override', static=False, gdl='both'))
    # meson.override_dependency(..., static: ...) in the main project and in a subproject
    c = {'wrap_mode': 'default', 'fff': [], 'deflib': 'shared', 'subdl': [], 'sys': [], 'wraps': [], 'subs': [], 'ops': [
        ('O', 'foo', 'I1.0', True), ('L', dict(base_lookup('foo', required=False), static=True)),
        ('L', dict(base_lookup('foo', required=False))), ('L', dict(base_lookup('foo', required=False), static=False)),
        ('O', 'foo', 'I2.0', False), ('L', dict(base_lookup('foo', required=False), static=False)), ('O', 'foo', 'I3.0')]}
    cs.append(c)
    sd = sub_providing('none')
    sd['overrides'] = [('foo', 'I1.0', True), ('foo', 'I2.0', False)]
    c = {'wrap_mode': 'default', 'fff': [], 'deflib': 'static', 'subdl': [], 'sys': [], 'wraps': [], 'subs': [('sub', sd)], 'ops': [
        ('L', dict(base_lookup('foo', fallback=['sub']), static=False)), ('L', dict(base_lookup('foo', required=False))),
        ('L', dict(base_lookup('foo', required=False), static=True))]}
    cs.append(c)
    c = {'wrap_mode': 'default', 'fff': [], 'deflib': 'shared', 'subdl': [], 'sys': [], 'wraps': [], 'subs': [('sub', sub_providing('override'))],
         'ops': [('P', 'sub', True, 'static'), ('L', dict(base_lookup('foo', required=False, fallback=['sub']), static=True)),
                 ('L', dict(base_lookup('foo', required=False, fallback=['sub']), static=False))]}
    cs.append(c)
    # duplicate / malformed names
    c = {'wrap_mode': 'default', 'fff': [], 'sys': [('foo', '1.0')], 'wraps': [], 'subs': [], 'ops': [
        ('L', {'names': ['foo', 'foo'], 'required': False, 'version': [], 'allow': None, 'fallback': None})]}
    cs.append(c)
    c = {'wrap_mode': 'default', 'fff': [], 'sys': [('foo', '1.0')], 'wraps': [], 'subs': [], 'ops': [
        ('L', {'names': ['foo>=1'], 'required': False, 'version': [], 'allow': None, 'fallback': None})]}
    cs.append(c)
    # subproject named like the dependency: implicit provider; mixed-case name
    c = {'wrap_mode': 'default', 'fff': [], 'sys': [], 'wraps': [], 'subs': [('foo', sub_providing('override', '3.1'))],
         'ops': [('L', base_lookup('foo')), ('L', base_lookup('foo'))]}
    cs.append(c)
    c = {'wrap_mode': 'default', 'fff': [], 'sys': [], 'wraps': [{'name': 'sub', 'file': True, 'entries': [('foo', 'foo_dep')]}],
         'subs': [('sub', sub_providing('var', '3.1'))], 'ops': [('L', base_lookup('Foo'))]}
    cs.append(c)
    # a second override of the same name is an error; override of '' too
    c = {'wrap_mode': 'default', 'fff': [], 'sys': [], 'wraps': [], 'subs': [], 'ops': [
        ('O', 'foo', 'I1.0'), ('L', base_lookup('foo')), ('O', 'foo', 'I2.0')]}
    cs.append(c)
    c = {'wrap_mode': 'default', 'fff': [], 'sys': [('foo', '1.0')], 'wraps': [], 'subs': [], 'ops': [
        ('L', base_lookup('foo')), ('O', 'foo', 'I2.0')]}      # implicit override blocks a later explicit one
    cs.append(c)
    c = {'wrap_mode': 'default', 'fff': [], 'sys': [], 'wraps': [], 'subs': [], 'ops': [
        ('O', 'foo', 'N'), ('L', base_lookup('foo', required=False)), ('L', base_lookup('foo', required=True))]}
    cs.append(c)
    # subproject overriding a name the main project has overridden: the subproject fails
    c = {'wrap_mode': 'default', 'fff': [], 'sys': [], 'wraps': [], 'subs': [('sub', sub_providing('override', '2.0', 'bar'))], 'ops': [
        ('O', 'bar', 'I1.0'), ('L', base_lookup('foo', required=False, fallback=['sub', 'unrelated'])),
        ('L', base_lookup('bar', required=False))]}
    cs.append(c)
    # wrap whose subproject cannot be obtained
    c = {'wrap_mode': 'default', 'fff': [], 'sys': [], 'wraps': [{'name': 'gone', 'file': True, 'entries': [('foo', None)]}],
         'subs': [], 'ops': [('L', base_lookup('foo', required=False, allow=True)), ('L', base_lookup('foo', required=True))]}
    cs.append(c)
    # required subproject() of a failing subproject; optional then lookup
    c = {'wrap_mode': 'default', 'fff': [], 'sys': [], 'wraps': [], 'subs': [('sub', sub_providing('fails'))],
         'ops': [('P', 'sub', False), ('L', base_lookup('foo', required=False, fallback=['sub'])), ('P', 'sub', True)]}
    cs.append(c)
    return cs


def random_cell(rng):
    if rng.random() < 0.6:
        return product_cell(rng.choice([None] + VERS), rng.choice(CONSTRAINTS + [['>=1.0', '<3'], ['!=2.0']]),
                            rng.choice(FBKINDS), rng.choice(WRAP_MODES), rng.choice([[], [], ['foo'], ['sub'], ['other']]),
                            rng.random() < 0.5, rng.choice([None, None, True, False]),
                            subkind=rng.choice(['both', 'override', 'var', 'none', 'fails', 'notfound', 'other']),
                            subver=rng.choice(VERS + ['undefined', '1.5']), nlook=rng.choice([1, 1, 2, 3]),
                            static=rng.choice([None, None, True, False]), lkdl=rng.choice([None, None] + DLIBS),
                            gdl=rng.choice(DLIBS + ['shared']), sdl=rng.choice([None, None, 'static', 'shared']))
    # free-form build file over two names and two subprojects; names with case, dots, dashes, plus signs
    names = rng.choice([['foo', 'bar'], ['foo', 'bar'], ['Foo', 'bar'], ['foo-2.0', 'lib_x.y'], ['gtk+-3.0', 'foo'], ['a', 'B']])
    cell = {'deflib': rng.choice(DLIBS + ['shared', 'shared']), 'subdl': [],
            'wrap_mode': rng.choice(WRAP_MODES), 'fff': rng.choice([[], [], ['foo'], ['sub'], ['bar', 'sub2']]),
            'sys': [(n, rng.choice(VERS)) for n in names if rng.random() < 0.4], 'wraps': [], 'subs': [], 'ops': []}
    provided = set()
    for s in ('sub', 'sub2'):
        if rng.random() < 0.7:
            nm = rng.choice(names)
            sd = sub_providing(rng.choice(['both', 'override', 'var', 'none', 'fails', 'notfound']), rng.choice(VERS + ['1.5']), nm)
            if rng.random() < 0.3:
                other = [n for n in names if n != nm][0]
                sd['overrides'].append((other, rng.choice(['I0.5', 'N'])))
            if sd['overrides'] and rng.random() < 0.25:
                sd['overrides'] = [(o[0], o[1], rng.choice([True, False])) for o in sd['overrides']]
            cell['subs'].append((s, sd))
            if rng.random() < 0.2:
                cell['subdl'].append((s, rng.choice(DLIBS)))
            if rng.random() < 0.6:
                ents = []
                for n in names:
                    if n not in provided and rng.random() < 0.6:
                        provided.add(n)
                        ents.append((n.lower(), None if rng.random() < 0.5 else varname(n)))
                ents.sort(key=lambda kv: kv[1] is not None)
                cell['wraps'].append({'name': s, 'file': True, 'entries': ents})
    nops = rng.randint(1, 5)
    for _ in range(nops):
        k = rng.random()
        if k < 0.12:
            cell['ops'].append(('O', rng.choice(names), rng.choice(['I1.0', 'I2.5', 'N']), rng.choice([None, None, True, False])))
        elif k < 0.27:
            cell['ops'].append(('P', rng.choice(['sub', 'sub2']), rng.random() < 0.2, rng.choice([None, None, None] + DLIBS)))
        else:
            nm = rng.sample(names, rng.choice([1, 1, 1, 2]))
            if rng.random() < 0.06:
                nm = nm + ['']                      # dependency('foo', '') : the empty name is dropped
            fb = None
            al = rng.choice([None, None, True, False])
            if rng.random() < 0.35:
                fb = rng.choice([['sub'], ['sub', varname(nm[0])], ['sub2', varname(nm[0])], [], ['sub', 'unrelated']])
                if rng.random() < 0.9:
                    al = None
            lk = {'names': nm, 'required': rng.random() < 0.35, 'version': rng.choice(CONSTRAINTS + [['>=1.0', '<2.2']]),
                  'allow': al, 'fallback': fb, 'static': rng.choice([None, None, None, True, False]),
                  'deflib': rng.choice([None, None, None, None] + DLIBS)}
            cell['ops'].append(('L', lk))
            if rng.random() < 0.35:
                cell['ops'].append(('L', dict(lk)))
    if not any(op[0] == 'L' for op in cell['ops']):
        cell['ops'].append(('L', base_lookup(rng.choice(names), required=False)))
    return cell


PRODUCT_DIMS = [[None] + VERS, CONSTRAINTS, FBKINDS, ['default', 'nofallback', 'forcefallback', 'nodownload'],
                [[], ['foo'], ['sub']], [True, False], [None, True, False]]


def full_product(rng):
    """the full decision table; static:/default_library settings vary from cell to cell (a third of the cells have none)"""
    out = []
    for t in itertools.product(*PRODUCT_DIMS):
        if rng.random() < 0.33:
            out.append(product_cell(*t))
        else:
            st = [rng.choice(d) for d in STATIC_DIMS]
            out.append(product_cell(*t, static=st[0], lkdl=st[1], gdl=st[2], sdl=st[3]))
    return out


def pairwise_sample(rng, n):
    """A sample of the cross product in which every pair of values of two different dimensions occurs
    (greedy covering array), filled up with random cells to n."""
    dims = PRODUCT_DIMS + STATIC_DIMS
    need = set()
    k = len(dims)
    for a in range(k):
        for b in range(a + 1, k):
            for x in range(len(dims[a])):
                for y in range(len(dims[b])):
                    need.add((a, x, b, y))
    draw = lambda: tuple(rng.randrange(len(d)) for d in dims)
    pairs_of = lambda t: {(a, t[a], b, t[b]) for a in range(k) for b in range(a + 1, k)}
    chosen = []
    while need and len(chosen) < n:
        pool = [draw() for _ in range(150)]
        best = max(pool, key=lambda t: len(pairs_of(t) & need))
        chosen.append(best)
        need -= pairs_of(best)
    while len(chosen) < n:
        chosen.append(draw())
    np = len(PRODUCT_DIMS)
    out = []
    for t in chosen:
        v = [dims[i][j] for i, j in enumerate(t)]
        out.append(product_cell(*v[:np], static=v[np], lkdl=v[np + 1], gdl=v[np + 2], sdl=v[np + 3]))
    return out, len(need)


# =================================================================================== wraps
BLOB_IDS = {'src_b': 1, 'src_nb': 2, 'src_flip': 3, 'src_trunc': 4, 'garbage': 5, 'patch_b': 6, 'patch_nb': 7,
            'patch_flip': 8, 'garbage2': 9}
ARCH = {1: 'T', 2: 'F', 3: 'B', 4: 'B', 5: 'B', 6: 'T', 7: 'F', 8: 'B', 9: 'B'}


def hid(spec):
    return '-' if spec is None else ('99' if spec == 'wrong' else str(BLOB_IDS[spec]))


def bid(spec):
    return '-' if spec is None else str(BLOB_IDS[spec])


def ob(v):
    return '-' if v is None else ('T' if v else 'F')


def wrap_to_model(sc):
    p = sc['patch']
    wd = S1.join([ob(sc['src_url']), ob(sc['src_fb']), hid(sc['src_hash']), ob(sc['lead_missing']),
                  p['kind'], ob(bool(p.get('url'))), ob(bool(p.get('fb'))), hid(p.get('hash'))])
    en = S1.join([ob(sc['nodownload']), bid(sc['net_src']), bid(sc['net_src_fb']), bid(sc['net_patch']), bid(sc['net_patch_fb']),
                  bid(sc['pf_src']), bid(sc['pf_patch']), ob(sc['pf_patchdir']), ob(sc['cached_tree'])])
    dfs = S2.join(ob(d) for d in sc['diffs'])
    ar = S2.join('%d%s%s' % (i, S3, a) for i, a in ARCH.items())
    plans = S1.join(S2.join('%d%s%s' % (k, S3, c) for k, c in pl) for pl in sc['plans'])
    fs0 = S1.join([sc['dir0'], bid(sc['cache_src']), bid(sc['cache_patch'])])
    return ('wrap', [wd, en, dfs, ar, plans, fs0])


def wrap_base(**kw):
    sc = {'src_url': True, 'src_fb': False, 'src_hash': 'src_b', 'lead_missing': False,
          'patch': {'kind': 'N'}, 'diffs': [], 'nodownload': False,
          'net_src': 'src_b', 'net_src_fb': None, 'net_patch': None, 'net_patch_fb': None,
          'pf_src': None, 'pf_patch': None, 'pf_patchdir': None, 'cached_tree': None,
          'cache_src': None, 'cache_patch': None, 'dir0': 'A', 'plans': [[]]}
    sc.update(kw)
    return sc


CORRUPT_SRC = ['src_b', 'src_flip', 'src_trunc', 'garbage', None]     # good / flipped byte / truncated / not an archive / missing


def wrap_corner():
    out = []
    B = wrap_base
    pfile = lambda **k: dict({'kind': 'F', 'url': True, 'fb': False, 'hash': 'patch_nb'}, **k)
    # every corruption class at every acquisition location
    for c in CORRUPT_SRC:
        out.append(B(net_src=c))                                                   # url
        out.append(B(net_src=None, src_fb=True, net_src_fb=c))                     # fallback url after an unreachable primary
        out.append(B(net_src='src_flip', src_fb=True, net_src_fb=c))               # ... after a corrupt primary
        out.append(B(net_src='src_b', cache_src=c))                                # package cache (no refetch on mismatch)
        out.append(B(src_url=False, net_src=None, pf_src=c))                       # packagefiles, hash recorded
        if c != 'src_trunc':      # a truncated archive fails half-way through extraction with a non-OSError: outside the archive model
            out.append(B(src_url=False, net_src=None, pf_src=c, src_hash=None))    # packagefiles, no hash recorded
    for loc in ('net', 'cache', 'pf'):
        kw = {'net': dict(net_src='src_b'), 'cache': dict(cache_src='src_b'), 'pf': dict(src_url=False, net_src=None, pf_src='src_b')}[loc]
        out.append(B(src_hash='wrong', **kw))                                      # recorded hash wrong
        out.append(B(src_hash='src_flip', **kw))
    out.append(B(src_hash=None))                                                   # URL without recorded hash
    out.append(B(src_hash=None, cache_src='src_b'))
    # patch archive: url / fallback / cache / packagefiles x corruption
    for c in ['patch_nb', 'patch_b', 'patch_flip', 'garbage2', None]:
        out.append(B(patch=pfile(), net_patch=c))
        out.append(B(patch=pfile(fb=True), net_patch='patch_flip', net_patch_fb=c))
        out.append(B(patch=pfile(), net_patch='patch_nb', cache_patch=c))
        out.append(B(patch=pfile(url=False), pf_patch=c))
        out.append(B(patch=pfile(url=False, hash=None), pf_patch=c))
    out.append(B(patch=pfile(hash='wrong'), net_patch='patch_nb'))
    out.append(B(patch=pfile(hash=None), net_patch='patch_nb'))
    out.append(B(patch=pfile(hash='garbage2'), net_patch='garbage2'))             # the recorded hash is that of a non-archive
    out.append(B(src_hash='garbage', net_src='garbage'))
    out.append(B(src_hash='src_nb', net_src='src_nb'))                             # no meson.build anywhere
    out.append(B(src_hash='src_nb', net_src='src_nb', patch=pfile(hash='patch_b'), net_patch='patch_b'))   # the patch brings it
    out.append(B(patch={'kind': 'D'}, pf_patchdir=False))
    out.append(B(patch={'kind': 'D'}, pf_patchdir=True, src_hash='src_nb', net_src='src_nb'))
    out.append(B(patch={'kind': 'D'}, pf_patchdir=None))
    out.append(B(patch=dict(pfile(), kind='B'), net_patch='patch_nb', pf_patchdir=False))
    # diff files
    out.append(B(diffs=[True]))
    out.append(B(diffs=[True, True, True]))
    out.append(B(diffs=[True, False, True]))
    out.append(B(diffs=[True, None]))
    out.append(B(diffs=[True, True], patch=pfile(), net_patch='patch_nb'))
    # nodownload
    out.append(B(nodownload=True))
    out.append(B(nodownload=True, src_fb=True, net_src_fb='src_b'))
    out.append(B(nodownload=True, cache_src='src_b'))
    out.append(B(nodownload=True, cache_src='src_b', patch=pfile(), net_patch='patch_nb'))
    out.append(B(nodownload=True, src_url=False, net_src=None, pf_src='src_b'))
    out.append(B(nodownload=True, cached_tree=True))
    # extracted tree in the package cache; lead_directory_missing; pre-existing directories
    out.append(B(cached_tree=True))
    out.append(B(cached_tree=False, patch={'kind': 'D'}, pf_patchdir=True))
    out.append(B(lead_missing=True))
    out.append(B(lead_missing=True, net_src='garbage', src_hash='garbage'))
    out.append(B(lead_missing=True, patch=pfile(), net_patch='patch_nb', diffs=[True]))
    out.append(B(dir0='N'))
    out.append(B(dir0='D:T:F:N:0:F', net_src=None))
    out.append(B(dir0='D:F:P:N:0:F'))
    out.append(B(dir0='D:T:P:N:0:F', net_src='src_flip'))
    for sc in out:
        sc['plans'] = [[], []]              # run twice: "and on the next run"
    return out


def wrap_random(rng):
    B = wrap_base
    src_loc = rng.choice(['net', 'net', 'netfb', 'cache', 'pf', 'pfnohash', 'ctree'])
    good = rng.choice(['src_b', 'src_b', 'src_nb'])
    bad = rng.choice(['src_flip', 'garbage', None] if src_loc == 'pfnohash' else ['src_flip', 'src_trunc', 'garbage', None])
    pick = lambda: good if rng.random() < 0.7 else bad
    kw = {'src_hash': rng.choice([good, good, good, 'wrong', None]) if src_loc != 'pfnohash' else None,
          'lead_missing': rng.random() < 0.2, 'nodownload': rng.random() < 0.15}
    if src_loc == 'net':
        kw.update(net_src=pick())
    elif src_loc == 'netfb':
        kw.update(net_src=rng.choice([bad, good]), src_fb=True, net_src_fb=pick())
    elif src_loc == 'cache':
        kw.update(net_src=rng.choice([good, None]), cache_src=pick())
    elif src_loc in ('pf', 'pfnohash'):
        kw.update(src_url=False, net_src=None, pf_src=pick())
    else:
        kw.update(cached_tree=rng.random() < 0.7)
    pk = rng.choice(['N', 'N', 'F', 'F', 'D', 'B'])
    if pk in ('F', 'B'):
        pgood = rng.choice(['patch_nb', 'patch_b'])
        pbad = rng.choice(['patch_flip', 'garbage2', None])
        ppick = lambda: pgood if rng.random() < 0.75 else pbad
        ploc = rng.choice(['net', 'netfb', 'cache', 'pf', 'pfnohash'])
        p = {'kind': pk, 'url': ploc in ('net', 'netfb', 'cache'), 'fb': ploc == 'netfb',
             'hash': None if ploc == 'pfnohash' else rng.choice([pgood, pgood, pgood, 'wrong', None])}
        kw['patch'] = p
        if ploc == 'net':
            kw.update(net_patch=ppick())
        elif ploc == 'netfb':
            kw.update(net_patch=rng.choice([pbad, pgood]), net_patch_fb=ppick())
        elif ploc == 'cache':
            kw.update(net_patch=rng.choice([pgood, None]), cache_patch=ppick())
        else:
            kw.update(pf_patch=ppick())
    if pk in ('D', 'B'):
        kw.setdefault('patch', {'kind': pk})
        kw['patch']['kind'] = pk
        kw['pf_patchdir'] = rng.choice([True, False, False, None])
    nd = rng.choice([0, 0, 1, 2])
    kw['diffs'] = [rng.choice([True, True, True, False, None]) for _ in range(nd)]
    if rng.random() < 0.08:
        kw['dir0'] = rng.choice(['N', 'D:T:F:N:0:F', 'D:F:P:N:0:F', 'D:F:N:N:0:F'])
    sc = B(**kw)
    if sc['src_hash'] is None and sc['pf_src'] == 'src_trunc':
        sc['pf_src'] = 'garbage'         # never unpack the truncated archive unverified (outside the archive model)
    sc['plans'] = [[], []]
    return sc


def run_wrap_batch(ctx, scs):
    """Runs the scenarios through the real Resolver (16 adapter processes)."""
    if not scs:
        return []
    n = NPROC
    chunks = [scs[i::n] for i in range(n)]
    base = ctx.mkscratch()

    def work(ch):
        return run_impl('c10.py', {'wrap': ch, 'scratch': base}, timeout=1800)['wrap'] if ch else []
    res = pmap(work, chunks)
    out = [None] * len(scs)
    for i, ch in enumerate(res):
        for j, r in enumerate(ch):
            out[i + j * n] = r
    return out



# =================================================================================== wraps through the CLI
def cli_wrap_cell(arg):
    """A project whose dependency('foo') falls back to a [wrap-file] wrap with a file:// URL; observes the exit status,
    the printed dependency, subprojects/foo and the package cache (observe_at of the property)."""
    spec, root = arg
    import hashlib, io, tarfile, gzip
    src = os.path.join(root, 'src')
    sub = os.path.join(src, 'subprojects')
    os.makedirs(sub)
    os.makedirs(os.path.join(root, 'pc'))
    os.makedirs(os.path.join(root, 'srv'))
    raw = io.BytesIO()
    with tarfile.open(fileobj=raw, mode='w') as t:
        for name, data in (('foo/meson.build', b"project('foo')\nmeson.override_dependency('foo', declare_dependency(version: '4.2'))\n"),
                           ('foo/src_a', b'a\n')):
            ti = tarfile.TarInfo(name); ti.size = len(data); ti.mtime = 0
            t.addfile(ti, io.BytesIO(data))
    buf = io.BytesIO()
    with gzip.GzipFile(fileobj=buf, mode='wb', mtime=0) as g:
        g.write(raw.getvalue())
    good = buf.getvalue()
    served = good
    if spec['content'] == 'flipped':
        b = bytearray(good); b[len(b) // 2] ^= 0x20; served = bytes(b)
    url_file = os.path.join(root, 'srv', 'foo-src.tar.gz')
    if spec['content'] != 'missing':
        open(url_file, 'wb').write(served)
    rec = hashlib.sha256(good).hexdigest() if spec['hash'] == 'good' else 'cd' * 32
    open(os.path.join(sub, 'foo.wrap'), 'w').write(
        '[wrap-file]\ndirectory = foo\nsource_url = file://%s\nsource_filename = foo-src.tar.gz\nsource_hash = %s\n'
        '[provide]\ndependency_names = foo\n' % (url_file, rec))
    if spec['cache']:
        os.makedirs(os.path.join(sub, 'packagecache'))
        b = good
        if spec['cache'] == 'flipped':
            bb = bytearray(good); bb[len(bb) // 2] ^= 0x20; b = bytes(bb)
        open(os.path.join(sub, 'packagecache', 'foo-src.tar.gz'), 'wb').write(b)
    open(os.path.join(src, 'meson.build'), 'w').write(
        "project('p')\nd = dependency('foo', required: %s, allow_fallback: true)\nmessage('R0:@0@:@1@:@2@:@3@'.format(d.found(), d.type_name(), d.version(), d.name()))\n"
        % ('true' if spec['required'] else 'false'))
    open(os.path.join(root, 'nat.ini'), 'w').write("[binaries]\ncmake = '/nonexistent/cmake'\n")
    env = {'PKG_CONFIG_LIBDIR': os.path.join(root, 'pc'), 'PKG_CONFIG_PATH': '', 'HOME': root}
    if spec['cmd'] == 'setup':
        args = ['setup', '--backend=none', '--native-file', os.path.join(root, 'nat.ini'), '-Dwrap_mode=' + spec['wrap_mode'],
                src, os.path.join(root, 'b')]
        r = meson_cli(args, env=env, timeout=600)
    else:
        r = meson_cli(['subprojects', 'download', '--sourcedir', src], env=env, timeout=600)
    m = MSG.search(r.stdout)
    cache_file = os.path.join(sub, 'packagecache', 'foo-src.tar.gz')
    obs = {'rc': r.returncode, 'dep': ('T:%s:%s' % (m.group(3), m.group(4)) if m and m.group(2) == 'true' else ('F' if m else None)),
           'dir': sorted(os.listdir(os.path.join(sub, 'foo'))) if os.path.isdir(os.path.join(sub, 'foo')) else None,
           'cache_is_good': (open(cache_file, 'rb').read() == good) if os.path.exists(cache_file) else None}
    shutil.rmtree(root, ignore_errors=True)
    return obs


def cli_wrap_expect(spec):
    """The property's clauses for these cells (no model): the subproject is used only from bytes with the recorded hash,
    nothing is fetched under nodownload, and a lookup that cannot be satisfied is an error iff required."""
    usable_cache = spec['cache'] == 'good' and spec['hash'] == 'good'
    if spec['cache']:
        ok = usable_cache                       # a cache hit is re-verified and never re-fetched
    elif spec['wrap_mode'] == 'nodownload' and spec['cmd'] == 'setup':
        ok = False
    else:
        ok = spec['content'] == 'good' and spec['hash'] == 'good'
    return ok


def cli_wrap_specs():
    out = []
    # (an unreachable URL is covered in-process only: through the CLI it costs meson's 31 s of retry back-off)
    for content, hsh in (('good', 'good'), ('flipped', 'good'), ('good', 'wrong')):
        for req in (True, False):
            out.append({'cmd': 'setup', 'content': content, 'hash': hsh, 'cache': None, 'wrap_mode': 'default', 'required': req})
    for cache in (None, 'good', 'flipped'):
        out.append({'cmd': 'setup', 'content': 'good', 'hash': 'good', 'cache': cache, 'wrap_mode': 'nodownload', 'required': True})
    out.append({'cmd': 'setup', 'content': 'good', 'hash': 'good', 'cache': 'flipped', 'wrap_mode': 'default', 'required': False})
    out.append({'cmd': 'download', 'content': 'good', 'hash': 'good', 'cache': None, 'wrap_mode': 'default', 'required': True})
    out.append({'cmd': 'download', 'content': 'flipped', 'hash': 'good', 'cache': None, 'wrap_mode': 'default', 'required': True})
    return out

# =================================================================================== the check
def replay(ctx):
    rec = json.load(open(ctx.replay))
    r = rec['replay']
    print('replaying', json.dumps(r)[:2000])
    built = ctx.build('Props/C10.v', 'Deps/Extract.v', 'C10')
    if 'cell' in r:
        cell = r['cell']
        obs, status, tail = run_cell((cell, os.path.join(ctx.mkscratch(), 'replay')))
        print('implementation:', repr(render_obs(obs, status)), obs)
        if built:
            print('model         :', repr(ctx.run_model([cell_to_model(cell)])[0]))
        cell2 = dict(cell, lookups=annotate(cell, _vcmp()), observed=obs, status=status)
        print('property clauses failing on the implementation:',
              json.dumps(run_impl('c10.py', {'lookup_oracle': [cell2]})['lookup_oracle'][0], indent=1))
    if 'cliwrap' in r:
        ob = cli_wrap_cell((r['cliwrap'], os.path.join(ctx.mkscratch(), 'replayw')))
        print('implementation:', json.dumps(ob), ' expected usable:', cli_wrap_expect(r['cliwrap']))
    if 'wrap' in r:
        sc = r['wrap']
        res = run_impl('c10.py', {'wrap': [sc], 'scratch': ctx.mkscratch()})['wrap'][0]
        print('implementation:', repr(res['out']))
        if built:
            print('model         :', repr(ctx.run_model([wrap_to_model(sc)])[0]))
        print('property clauses failing on the implementation:', json.dumps(res['oracle'], indent=1))
    ctx.cleanup()
    return 0


def _vcmp():
    import sys
    if REPO not in sys.path:
        sys.path.insert(0, REPO)
    from mesonbuild.utils.universal import version_compare_many
    return lambda v, w: version_compare_many(v, w)[0]


def run(ctx):
    if ctx.replay:
        return replay(ctx)
    rng = ctx.rng
    thorough = ctx.tier == 'thorough'
    built = ctx.build('Props/C10.v', 'Deps/Extract.v', 'C10')
    vcmp = _vcmp()
    import time as _t
    ph, t0 = {}, _t.time()

    def mark(k):
        nonlocal t0
        ph[k] = round(_t.time() - t0, 1)
        t0 = _t.time()

    # ------------------------------------------------------------------ lookups through `meson setup`
    cells = corner_cells()
    ncorner = len(cells)
    if thorough:
        cells += full_product(rng)
        ctx.extra['lookup_product_exhaustive'] = True
    else:
        pw, uncovered = pairwise_sample(rng, 60)
        cells += pw
        ctx.extra['lookup_product_exhaustive'] = False
        ctx.extra['lookup_product_pairwise_uncovered_pairs'] = uncovered
    cells += [random_cell(rng) for _ in range(250 if thorough else 50)]
    scratch = ctx.mkscratch()
    # every fourth project lives under a path with a blank and a non-ASCII letter
    results = pmap(run_cell, [(c, os.path.join(scratch, ('c %d \u00fc' if i % 4 == 3 else 'c%d') % i)) for i, c in enumerate(cells)])
    mark('lookup_cli')
    if any(st == 'CRASHtimeout' for _, st, _ in results):
        raise HarnessError('meson setup timed out twice on %d cells (machine overloaded?)' % sum(1 for _, st, _ in results if st == 'CRASHtimeout'))
    model_cases = [cell_to_model(c) for c in cells]
    impl_out = [render_obs(o, s) for o, s, _ in results]
    model_out = ctx.run_model(model_cases) if built else impl_out
    # the extracted specification (Deps/Policy.v) as oracle for the first dependency() call of each cell
    pol_cases = [('policy', a) for _, a in model_cases]
    pol_out = ctx.run_model(pol_cases) if built else ['-'] * len(cells)
    npol = 0
    for c, (obs, status, _), po in zip(cells, results, pol_out):
        if po == '-':
            continue
        npol += 1
        got = render_obs(obs[:1], status).split(S1)[0] if obs else status
        if got != po:
            ctx.violation('C10:lookup:policy:' + json.dumps(c, sort_keys=True),
                          'the first dependency() call returns %r, the documented policy (Deps/Policy.v) prescribes %r' % (got, po),
                          {'cell': c, 'failure': {'kind': 'policy-coq', 'expected': po, 'got': got}})
    ctx.extra['lookup_cells_checked_against_extracted_policy'] = npol
    ocells = []
    for i, (c, (obs, status, tail), ri, rm) in enumerate(zip(cells, results, impl_out, model_out)):
        ctx.count(json.dumps(c, sort_keys=True))
        if ri != rm and len(ctx.disagreements) < 200:
            ctx.disagreements.append({'cell': c, 'implementation': ri, 'model': rm, 'log_tail': tail})
        ocells.append({'lookups': annotate(c, vcmp), 'observed': obs, 'status': status,
                       'other_error_expected': any(op[0] != 'L' for op in c['ops'])})
    ofails = run_impl('c10.py', {'lookup_oracle': ocells})['lookup_oracle']
    nexpect = sum(1 for oc in ocells if oc['lookups'] and oc['lookups'][0]['expect'] is not None)
    for c, fs in zip(cells, ofails):
        for f in fs:
            if f['kind'] in ('repeat-lookup-differs', 'name-of-found-lookup-not-aliased') and any(v == 'undefined' for _, v in c['sys']):
                ident = 'C10:repeat-lookup-differs:system-version-undefined'
            else:
                ident = 'C10:lookup:%s:%s' % (f['kind'], json.dumps(c, sort_keys=True))
            ctx.violation(ident, 'dependency() breaks the property clause %s: %s' % (f['kind'], json.dumps(f)),
                          {'cell': c, 'failure': f})
    ctx.extra['lookup_cells'] = {'corner': ncorner, 'total': len(cells), 'with_policy_expectation': nexpect,
                                 'sequences_with_repeats': sum(1 for c in cells if sum(1 for op in c['ops'] if op[0] == 'L') > 1),
                                 'error_cells': sum(1 for _, s, _ in results if s == 'ERR')}

    # known finding: system version 'undefined' + constraint: second lookup differs
    und = {'wrap_mode': 'default', 'fff': [], 'sys': [('foo', 'undefined')], 'wraps': [], 'subs': [], 'ops': [
        ('L', base_lookup('foo', required=False, version=['!=1'])), ('L', base_lookup('foo', required=False, version=['!=1']))]}
    obs, status, _ = run_cell((und, os.path.join(scratch, 'und')))
    ctx.count('undefined-cell')
    fs = run_impl('c10.py', {'lookup_oracle': [{'lookups': annotate(und, vcmp), 'observed': obs, 'status': status}]})['lookup_oracle'][0]
    for f in fs:
        if f['kind'] in ('repeat-lookup-differs', 'name-of-found-lookup-not-aliased'):
            ctx.violation('C10:repeat-lookup-differs:system-version-undefined',
                          'repeated dependency() differs: ' + json.dumps(f), {'cell': und, 'failure': f})
        elif f['kind'] != 'policy':
            ctx.violation('C10:lookup:%s:undefined-cell' % f['kind'], json.dumps(f), {'cell': und, 'failure': f})
    if built:
        mo = ctx.run_model([cell_to_model(und)])[0]
        if mo != render_obs(obs, status):
            ctx.disagreements.append({'cell': und, 'implementation': render_obs(obs, status), 'model': mo})
        model_cases.append(cell_to_model(und)); model_out.append(mo)

    mark('lookup_model_oracle')
    # ------------------------------------------------------------------ wraps through `meson setup` / `meson subprojects download`
    specs = cli_wrap_specs()
    cobs = pmap(cli_wrap_cell, [(sp, os.path.join(scratch, 'w%d' % i)) for i, sp in enumerate(specs)])
    for sp, ob in zip(specs, cobs):
        ctx.count('cliwrap' + json.dumps(sp, sort_keys=True))
        ok = cli_wrap_expect(sp)
        bad = []
        if ob['rc'] not in (0, 1):
            bad.append('meson crashed (rc=%s)' % ob['rc'])
        if ok:
            if ob['dir'] is None or 'meson.build' not in ob['dir'] or 'src_a' not in ob['dir']:
                bad.append('subproject directory not prepared')
            if sp['cmd'] == 'setup' and (ob['rc'] != 0 or ob['dep'] != 'T:internal:4.2'):
                bad.append('fallback dependency not returned')
            if not sp['cache'] and ob['cache_is_good'] is not True:
                bad.append('verified download not kept in the package cache')
        else:
            if ob['dir'] is not None:
                bad.append('a subproject directory exists although no verified source was available')
            if sp['cmd'] == 'setup' and ((ob['rc'] == 0) == sp['required'] or (not sp['required'] and ob['dep'] != 'F')):
                bad.append('lookup outcome: rc=%s dep=%s' % (ob['rc'], ob['dep']))
            if not sp['cache'] and ob['cache_is_good'] is not None and (sp['wrap_mode'] == 'nodownload' or ob['cache_is_good'] is False):
                bad.append('unverified or forbidden download left in the package cache')
        for b in bad:
            ctx.violation('C10:cliwrap:%s:%s' % (b, json.dumps(sp, sort_keys=True)),
                          'wrap fallback through the meson CLI breaks the property: %s (observed %s)' % (b, json.dumps(ob)),
                          {'cliwrap': sp, 'observed': ob})
    ctx.extra['cli_wrap_cells'] = len(specs)
    mark('cli_wrap')

    # ------------------------------------------------------------------ wraps: Resolver in-process
    base = wrap_corner() + [wrap_random(rng) for _ in range(1200 if thorough else 150)]
    for sc in base:                          # a quarter of the scenarios live under a path with a blank, a '%' and a non-ASCII letter
        if rng.random() < 0.25:
            sc['hostile_path'] = True
    bres = run_wrap_batch(ctx, base)
    mark('wrap_base')
    # a fault of either class at every primitive step of the first run, then a clean second run
    faulted = []
    for sc, r in zip(base, bres):
        first = r['out'].split(S4)[0].split(S1)
        nticks = len([t for t in first[1].split(' ') if t and t != 'rmtree']) if len(first) > 1 else 0
        ks = list(range(nticks))
        if not thorough and len(ks) > 6:
            ks = ks[:3] + rng.sample(ks[3:], 3)
        for k in ks:
            for cls in 'WO':
                sc2 = dict(sc)
                sc2['plans'] = [[(k, cls)], []]
                faulted.append(sc2)
        if nticks >= 2 and rng.random() < 0.3:           # two faults in one run (e.g. primary and fallback both fail)
            a, b = sorted(rng.sample(range(nticks + 1), 2))
            sc2 = dict(sc)
            sc2['plans'] = [[(a, rng.choice('WO')), (b, rng.choice('WO'))], [], []]
            faulted.append(sc2)
    if not thorough and len(faulted) > 1400:
        faulted = faulted[:200] + rng.sample(faulted[200:], 1200)
    fres = run_wrap_batch(ctx, faulted)
    mark('wrap_faulted')
    wcases = [wrap_to_model(sc) for sc in base + faulted]
    wimpl = [r['out'] for r in bres + fres]
    wmodel = ctx.run_model(wcases) if built else wimpl
    for sc, r, ri, rm in zip(base + faulted, bres + fres, wimpl, wmodel):
        ctx.count(json.dumps(sc, sort_keys=True))
        if ri.startswith('EXC:'):
            raise HarnessError('wrap adapter failed: %s\n%s' % (ri, r.get('tb')))
        if ri != rm and len(ctx.disagreements) < 200:
            ctx.disagreements.append({'wrap': sc, 'implementation': ri, 'model': rm})
        for f in r['oracle']:
            if f['kind'] in ('half-prepared-directory-left-behind', 'half-prepared-subproject-accepted') \
                    and not f.get('in_patch_or_diff') and f['kind'] == 'half-prepared-directory-left-behind':
                ident = 'C10:wrap:half-prepared-directory-left-behind:' + f.get('failed_step', '?')
            else:
                ident = 'C10:wrap:%s:%s' % (f['kind'], json.dumps(sc, sort_keys=True))
            ctx.violation(ident, 'wrap handling breaks the property clause %s: %s' % (f['kind'], json.dumps(f)),
                          {'wrap': sc, 'failure': f})
    ctx.extra['wrap_scenarios'] = {'base': len(base), 'corner': len(wrap_corner()), 'fault_injected': len(faulted),
                                   'results': {k: sum(1 for o in wimpl if o.split(S1)[0] == k) for k in ('OK', 'WRAP', 'OTHER')}}
    ctx.cov['traces_validated_against_impl'] = len(cells) + 1 + len(wcases)
    for s in (cells[0], cells[ncorner + 3], base[0], faulted[0] if faulted else base[1]):
        ctx.sample(s)
    if built:
        allc, allo = model_cases + pol_cases + wcases, list(model_out) + list(pol_out) + list(wmodel)
        mark('wrap_model')
        ctx.kernel_crosscheck('Deps.Entry', allc, allo, limit=300)
        mark('kernel_crosscheck')
    ctx.extra['phase_s'] = ph

    return ctx.finish(
        level='proof',
        trusted=['Coq 8.16.1 kernel (coqc, vm_compute; no native_compute)',
                 'extraction with ExtrOcamlBasic directives only + OCaml + extract/driver.ml (cross-checked in-kernel on a sample each run)',
                 'harness/check_C10.py generators/project writer and harness/impl/c10.py (scenario builder, fault injection by '
                 'replacing names in the wrap module namespace, canonicalisers, oracle)',
                 'pkg-config and patch(1) of the sandbox; SHA-256 abstracted as an arbitrary function on byte-string identifiers',
                 'not modelled: git/hg/svn wraps, wrapdb, cmake/cargo subprojects, netrc, redirect wraps, machine choice, feature options, '
                 'dependency identifiers other than the name, cleanup (rmtree) failures'],
        assumptions=['Print Assumptions: all property theorems closed under the global context (no axioms)',
                     'system versions are non-empty and not the literal "undefined" (theorem guard; see known finding)',
                     'rmtree of the freshly created directory does not itself fail'],
        rule='lookups: one generated project per cell (corner rows of the decision table, cells of the full cross product '
             '{system absent/1.0/2.0} x constraint x fallback kind x wrap_mode x force_fallback_for x required x allow_fallback, '
             'random build files over two names/two subprojects with overrides, subproject() calls and repeated lookups), run with '
             '`meson setup --backend=none`, printed found/type_name/version and exit status compared with the extracted model and with '
             'the documented policy; wraps: scenario = wrap-file definition x contents of URL/fallback URL/cache/packagefiles '
             '(good, flipped byte, truncated, not an archive, missing, wrong or absent recorded hash) x patch kind x diff files, run '
             'twice in-process through Resolver.resolve, then again with a fault of each class injected at every primitive step; '
             'trace of primitive steps, result class and resulting tree compared with the extracted model; distinct = distinct cells/scenarios')
