"""Shared machinery for the /verif checks (see DESIGN.md section 2).

A check is   ./check Cxx [--tier quick|thorough] [--replay FILE]
and is implemented by harness/check_Cxx.py : run(ctx).
"""
import json, os, random, re, shutil, subprocess, sys, tempfile, time, hashlib

VERIF = os.path.dirname(os.path.dirname(os.path.abspath(__file__)))
REPO = os.environ.get('VERIF_REPO', '/repo')
OUT = os.environ.get('VERIF_OUT', VERIF)   # evidence/ and replays/ go here (redirected when trying seeded changes)
COQ = os.path.join(VERIF, 'coq')
PY = '/venv/bin/python'
NPROC = os.cpu_count() or 4

FORBIDDEN = re.compile(
    r'(?<![\w.])(Admitted|admit|Axiom|Axioms|Parameter|Parameters|Conjecture|Conjectures|'
    r'Admit\s+Obligations|Unset\s+Guard\s+Checking|Unset\s+Positivity\s+Checking|'
    r'Unset\s+Universe\s+Checking|bypass_check|type-in-type|impredicative-set)(?![\w])')
# Variable/Hypothesis are allowed inside sections only
SECTION_ONLY = re.compile(r'^\s*(Variable|Variables|Hypothesis|Hypotheses|Context)\b')

ALLOWED_AXIOMS = set()   # aim: none.  Std-lib axioms that ever appear get listed here and in DESIGN.md.


class HarnessError(Exception):
    pass


def strip_comments(text):
    out, depth, i = [], 0, 0
    while i < len(text):
        if text.startswith('(*', i):
            depth += 1; i += 2
        elif text.startswith('*)', i) and depth:
            depth -= 1; i += 2
        else:
            if not depth:
                out.append(text[i])
            i += 1
    return ''.join(out)


def enc(s):
    """str -> wire format (comma separated code points)."""
    return ','.join(str(ord(c)) for c in s)


def dec(w):
    w = w.strip()
    return ''.join(chr(int(t)) for t in w.split(',')) if w else ''


def coq_str(s):
    """str -> Gallina list-of-N literal."""
    return '[' + '; '.join(str(ord(c)) for c in s) + ']%N' if s else '(@nil N)'


import threading as _threading
_SCRATCH_LOCK = _threading.Lock()


class Ctx:
    def __init__(self, prop, tier='quick', seed=0):
        self.prop, self.tier, self.seed = prop, tier, seed
        self.rng = random.Random(seed)
        self.t0 = time.time()
        self.cov = {'evaluations': 0, 'distinct_nontrivial': 0, 'samples': [],
                    'traces_validated_against_impl': 0, 'obligations': 0, 'discharged': 0,
                    'checker_cmd': '', 'trusted_base': [], 'rule': ''}
        self.assumptions = []
        self.violations = []          # list of dict(kind, what, replay)
        self.known_hits = []
        self.broken = []              # broken obligations / correspondences (names)
        self.disagreements = []       # impl != model cases
        self.extra = {}
        self._distinct = set()
        self.known = load_known(prop)
        self.scratch = None

    # ---------------------------------------------------------------- scratch
    def mkscratch(self):
        with _SCRATCH_LOCK:      # called from worker threads too: exactly one directory per run
            if not self.scratch:
                base = os.environ.get('TMPDIR') or '/var/tmp'
                self.scratch = tempfile.mkdtemp(prefix='mverif-%s-' % self.prop, dir=base)
        return self.scratch

    def cleanup(self):
        if self.scratch and os.path.isdir(self.scratch):
            shutil.rmtree(self.scratch, ignore_errors=True)

    # ---------------------------------------------------------------- coverage
    def count(self, key, nontrivial=True, sample=None):
        """Record one evaluated case; key identifies it for the distinct count."""
        self.cov['evaluations'] += 1
        if nontrivial:
            h = hash(key)
            if h not in self._distinct:
                self._distinct.add(h)
        if sample is not None and len(self.cov['samples']) < 12 and self.rng.random() < 0.02:
            self.cov['samples'].append(sample)

    def sample(self, s):
        if len(self.cov['samples']) < 12:
            self.cov['samples'].append(s)

    # ---------------------------------------------------------------- coq build
    def gate(self, files):
        bad = []
        for f in files:
            txt = strip_comments(open(f, encoding='utf-8').read())
            depth = 0
            for ln, line in enumerate(txt.split('\n'), 1):
                if re.match(r'^\s*Section\b', line):
                    depth += 1
                elif re.match(r'^\s*End\b', line) and depth:
                    depth -= 1
                m = FORBIDDEN.search(line)
                if m:
                    bad.append('%s:%d: %s' % (f, ln, m.group(0)))
                if SECTION_ONLY.match(line) and depth == 0:
                    bad.append('%s:%d: %s outside a section' % (f, ln, line.strip()))
        return bad

    def closure(self, target_v):
        """Project-local .v files that target_v depends on (transitively), incl. itself."""
        seen, todo = set(), [target_v]
        while todo:
            f = todo.pop()
            if f in seen:
                continue
            seen.add(f)
            txt = strip_comments(open(os.path.join(COQ, f), encoding='utf-8').read())
            for m in re.finditer(r'From\s+MV\s+Require\s+(?:Import\s+|Export\s+)?([^.]*(?:\.[A-Za-z_][\w.]*)*)\s*\.\s', txt + ' '):
                pass
            for m in re.finditer(r'From\s+MV\s+Require\s+(?:Import|Export)?\s*((?:[A-Za-z_][\w]*(?:\.[A-Za-z_][\w]*)*\s*)+)\.(?=\s)', txt):
                for mod in m.group(1).split():
                    p = mod.replace('.', '/') + '.v'
                    if os.path.exists(os.path.join(COQ, p)):
                        todo.append(p)
            for m in re.finditer(r'Require\s+(?:Import|Export)?\s*((?:MV\.[\w.]+\s*)+)\.(?=\s)', txt):
                for mod in m.group(1).split():
                    p = mod[3:].replace('.', '/') + '.v'
                    if os.path.exists(os.path.join(COQ, p)):
                        todo.append(p)
        return sorted(seen)

    def build(self, props_v, extract_v=None, extract_dir=None, gen=None, timeout=1500):
        """Regenerate tables, compile the property file (all its obligations) and the
        extracted driver.  Returns True if every obligation compiled."""
        t = time.time()
        if gen:
            r = subprocess.run([PY, os.path.join(VERIF, 'tools', 'gen_tables.py')] + list(gen),
                               capture_output=True, text=True, timeout=300)
            if r.returncode != 0:
                self.broken.append({'obligation': 'gen_tables ' + ' '.join(gen),
                                    'detail': (r.stdout + r.stderr)[-2000:]})
                # keep going with the previous tables if they exist
        subprocess.run([os.path.join(VERIF, 'tools', 'mkcoqproject.sh')], check=True, timeout=120)
        files = self.closure(props_v)
        bad = self.gate([os.path.join(COQ, f) for f in files])
        if bad:
            raise HarnessError('forbidden constructs in the development:\n' + '\n'.join(bad))
        vo = props_v[:-2] + '.vo'
        try:
            os.remove(os.path.join(COQ, vo))
        except OSError:
            pass
        targets = [vo] + ([extract_v[:-2] + '.vo'] if extract_v else [])
        cmd = ['timeout', str(timeout), 'make', '-C', COQ, '-j%d' % NPROC] + targets
        r = subprocess.run(cmd, capture_output=True, text=True)
        out = r.stdout + r.stderr
        self.cov['checker_cmd'] = ' '.join(cmd) + '   (coqc 8.16.1 full .vo build of ' + props_v + ' and its %d dependencies)' % (len(files) - 1)
        nobl = 0
        for f in files:
            txt = strip_comments(open(os.path.join(COQ, f), encoding='utf-8').read())
            nobl += len(re.findall(r'^\s*(?:Local\s+|Global\s+|#\[[^\]]*\]\s*)?(?:Theorem|Lemma|Corollary|Example|Fact|Remark|Proposition)\s', txt, re.M))
        self.cov['obligations'] = nobl
        ok = r.returncode == 0
        if ok:
            self.cov['discharged'] = nobl
        else:
            m = re.search(r'File "([^"]+)", line (\d+)', out)
            self.broken.append({'obligation': 'coq build of %s' % props_v,
                                'where': (m.group(1) + ':' + m.group(2)) if m else '?',
                                'detail': out[-3000:]})
            self.cov['discharged'] = 0
        # Print Assumptions output
        axioms = []
        for blk in re.finditer(r'Axioms:\n((?:.+\n)+?)(?=\S|\Z)', out):
            for line in blk.group(1).split('\n'):
                mm = re.match(r'^(\S+)\s*:', line)
                if mm:
                    axioms.append(mm.group(1))
        closed = len(re.findall(r'Closed under the global context', out))
        self.extra['print_assumptions'] = {'closed_theorems': closed, 'axioms': sorted(set(axioms))}
        unexpected = [a for a in set(axioms) if a not in ALLOWED_AXIOMS]
        if unexpected:
            raise HarnessError('unexpected axioms under a property theorem: %s' % unexpected)
        if ok and self.tier == 'thorough' and os.environ.get('VERIF_NO_COQCHK') != '1':
            self.coqchk(props_v)
        if ok and extract_dir:
            self.build_driver(extract_dir)
        self.extra['build_s'] = round(time.time() - t, 1)
        return ok

    def coqchk(self, props_v, timeout=1500):
        """Thorough tier: re-check the compiled property file and everything it depends on with
        the independent checker and record the axioms it reports."""
        mod = 'MV.' + props_v[:-2].replace('/', '.')
        t = time.time()
        r = subprocess.run(['timeout', str(timeout), 'coqchk', '-silent', '-o', '-Q', COQ, 'MV', mod],
                           capture_output=True, text=True)
        out = r.stdout + r.stderr
        axioms = []
        m = re.search(r'\* Axioms:(.*?)(?:\n\* |\Z)', out, re.S)
        if m:
            axioms = [l.strip() for l in m.group(1).split('\n') if l.strip() and '<none>' not in l]
        self.extra['coqchk'] = {'module': mod, 'exit': r.returncode, 'axioms': axioms, 'wall_s': round(time.time() - t, 1)}
        if r.returncode != 0:
            self.broken.append({'obligation': 'coqchk ' + mod, 'detail': out[-2000:]})
        unexpected = [a for a in axioms if a not in ALLOWED_AXIOMS]
        if unexpected:
            raise HarnessError('coqchk reports axioms: %s' % unexpected)

    def build_driver(self, extract_dir):
        d = os.path.join(VERIF, 'extract', extract_dir)
        drv, model = os.path.join(d, 'driver'), os.path.join(d, 'model.ml')
        shared = os.path.join(VERIF, 'extract', 'driver.ml')
        if not os.path.exists(model):
            raise HarnessError('no extracted model in ' + d)
        if (not os.path.exists(drv) or os.path.getmtime(drv) < os.path.getmtime(model)
                or os.path.getmtime(drv) < os.path.getmtime(shared)):
            shutil.copy(shared, os.path.join(d, 'driver.ml'))
            r = subprocess.run(['ocamlfind', 'ocamlopt', '-O2', '-w', '-a', 'model.mli', 'model.ml',
                                'driver.ml', '-o', 'driver'], cwd=d, capture_output=True, text=True, timeout=600)
            if r.returncode != 0:
                raise HarnessError('ocaml build failed: ' + r.stderr[-2000:])
        self.driver = drv

    # ---------------------------------------------------------------- running the model
    def run_model(self, cases, shards=None):
        """cases: list of (fn, [arg strings]) -> list of result strings (extracted OCaml)."""
        if not cases:
            return []
        shards = shards or (NPROC if len(cases) > 20000 else 1)
        lines = ['\t'.join([fn] + [enc(a) for a in args]) for fn, args in cases]
        n = len(lines)
        size = (n + shards - 1) // shards
        procs = []
        for i in range(0, n, size):
            p = subprocess.Popen([self.driver], stdin=subprocess.PIPE, stdout=subprocess.PIPE, text=True)
            procs.append((p, '\n'.join(lines[i:i + size]) + '\n'))
        outs = []
        # feed sequentially through communicate in threads to avoid deadlock
        import threading
        res = [None] * len(procs)

        def work(k):
            p, data = procs[k]
            o, _ = p.communicate(data)
            res[k] = (p.returncode, o)
        ths = [threading.Thread(target=work, args=(k,)) for k in range(len(procs))]
        [t.start() for t in ths]
        [t.join() for t in ths]
        for rc, o in res:
            if rc != 0:
                raise HarnessError('model driver crashed (rc=%s)' % rc)
            outs.extend(dec(l) for l in o.split('\n')[:-1])
        if len(outs) != n:
            raise HarnessError('model driver returned %d results for %d cases' % (len(outs), n))
        return outs

    def kernel_crosscheck(self, entry_module, cases, outs, limit=300):
        """Evaluate a sample of the same cases inside Coq (vm_compute) and require the
        kernel's result to equal the extracted OCaml's.  Disagreement = harness error."""
        idx = list(range(len(cases)))
        self.rng.shuffle(idx)
        idx = idx[:limit]
        d = os.path.join(self.mkscratch(), 'kc')
        os.makedirs(d, exist_ok=True)
        body = ['From MV Require Import Base.Strs %s.' % entry_module, 'Open Scope N_scope.',
                'Definition cases : list (str * list str * str) := [']
        rows = []
        for i in idx:
            fn, args = cases[i]
            rows.append('  (%s, [%s], %s)' % (coq_str(fn), '; '.join(coq_str(a) for a in args) if args else '', coq_str(outs[i])))
        body.append(';\n'.join(rows))
        body.append('].')
        body.append('Definition ok (c : str * list str * str) : bool := let \'(fn, args, exp) := c in str_eqb (%s.run fn args) exp.' % entry_module.split('.')[-1])
        body.append('Definition bad := filter (fun c => negb (ok c)) cases.')
        body.append('Lemma kernel_agrees : bad = []. Proof. vm_compute. reflexivity. Qed.')
        with open(os.path.join(d, 'kc.v'), 'w') as f:
            f.write('\n'.join(body) + '\n')
        r = subprocess.run(['timeout', '600', 'coqc', '-Q', COQ, 'MV', 'kc.v'], cwd=d, capture_output=True, text=True)
        if r.returncode != 0:
            raise HarnessError('kernel evaluation disagrees with extracted OCaml (or failed): ' + (r.stdout + r.stderr)[-1500:])
        self.extra['kernel_crosscheck_cases'] = len(idx)
        return len(idx)

    # ---------------------------------------------------------------- verdicts
    def is_known(self, ident):
        for k in self.known:
            if k.get('status') == 'known' and k['id'] == ident:
                return k
        return None

    def violation(self, ident, what, replay):
        """A concrete input on which the implementation breaks the property.
        ident: stable identifier of the failing input/call site (for known_findings)."""
        k = self.is_known(ident)
        if k:
            if ident not in [h['id'] for h in self.known_hits]:
                self.known_hits.append({'id': ident, 'what': k.get('what', what)})
            return
        if ident in [v['id'] for v in self.violations]:
            return
        if len(self.violations) < 20:
            self.violations.append({'id': ident, 'what': what, 'replay': replay})

    def finish(self, level='proof', trusted=None, assumptions=None, rule=''):
        self.cov['distinct_nontrivial'] = len(self._distinct)
        self.cov['rule'] = rule
        self.cov['trusted_base'] = trusted or []
        self.cov.update(self.extra)
        wall = round(time.time() - self.t0, 1)
        rc = 0
        lines = []
        for h in self.known_hits:
            lines.append('KNOWN-FINDING: property=%s %s' % (self.prop, h['what']))
        os.makedirs(os.path.join(OUT, 'replays'), exist_ok=True)
        dpath = os.path.join(OUT, 'replays', '%s-%d-disagreements.json' % (self.prop, self.seed))
        if os.path.exists(dpath):
            os.remove(dpath)
        if self.disagreements:
            json.dump(self.disagreements[:200], open(os.path.join(OUT, 'replays', '%s-%d-disagreements.json' % (self.prop, self.seed)), 'w'), indent=1, default=str)
        if self.violations:
            rc = 1
            for i, v in enumerate(self.violations[:5]):
                path = os.path.join(OUT, 'replays', '%s-%d-%d.json' % (self.prop, self.seed, i))
                json.dump({'property': self.prop, 'id': v['id'], 'what': v['what'], 'replay': v['replay'],
                           'broken': self.broken, 'seed': self.seed, 'tier': self.tier}, open(path, 'w'), indent=1, default=str)
                lines.append('VIOLATION property=%s replay=%s' % (self.prop, path))
        elif self.broken or self.disagreements:
            rc = 1
            path = os.path.join(OUT, 'replays', '%s-%d-broken.json' % (self.prop, self.seed))
            json.dump({'property': self.prop, 'broken_obligations': self.broken,
                       'correspondence_disagreements': self.disagreements[:50],
                       'note': 'a proof obligation or the model/implementation correspondence no longer checks; '
                               'the failing-input search found no input on which the implementation breaks the property itself',
                       'seed': self.seed, 'tier': self.tier}, open(path, 'w'), indent=1, default=str)
            lines.append('VIOLATION property=%s replay=%s no-failing-input-found' % (self.prop, path))
        ev = {'property_id': self.prop, 'tier': self.tier, 'seed': self.seed, 'level': level,
              'coverage': self.cov, 'assumptions': assumptions or [], 'wall_s': wall,
              'violations': len(self.violations) + (1 if (not self.violations and (self.broken or self.disagreements)) else 0)}
        ev['coverage']['known_findings_reproduced'] = [h['id'] for h in self.known_hits]
        ev['coverage']['correspondence_disagreements'] = len(self.disagreements)
        os.makedirs(os.path.join(OUT, 'evidence'), exist_ok=True)
        json.dump(ev, open(os.path.join(OUT, 'evidence', self.prop + '.json'), 'w'), indent=1, default=str)
        for l in lines:
            print(l)
        print('%s tier=%s seed=%d evaluations=%d distinct=%d obligations=%d/%d disagreements=%d violations=%d wall=%.1fs'
              % (self.prop, self.tier, self.seed, self.cov['evaluations'], self.cov['distinct_nontrivial'],
                 self.cov['discharged'], self.cov['obligations'], len(self.disagreements), len(self.violations), wall))
        self.cleanup()
        return rc


def load_known(prop):
    p = os.path.join(VERIF, 'known_findings.json')
    if not os.path.exists(p):
        return []
    data = json.load(open(p))
    return [k for k in data.get('findings', []) if k.get('property') == prop]


def impl_env(extra=None):
    e = dict(os.environ)
    e['PYTHONPATH'] = REPO
    e['PYTHONHASHSEED'] = '0'
    e['LC_ALL'] = 'C.UTF-8'
    e['PYTHONDONTWRITEBYTECODE'] = '1'
    e['MESON_VERIF'] = '1'
    if extra:
        e.update(extra)
    return e


def run_impl(script, payload, timeout=3600, env=None):
    """Run harness/impl/<script> under /venv/bin/python with PYTHONPATH=/repo, feeding it
    JSON on stdin and reading JSON from stdout."""
    p = os.path.join(VERIF, 'harness', 'impl', script)
    r = subprocess.run([PY, p], input=json.dumps(payload), capture_output=True, text=True,
                       timeout=timeout, env=impl_env(env), cwd='/')
    if r.returncode != 0:
        raise HarnessError('implementation adapter %s failed: %s' % (script, r.stderr[-3000:]))
    try:
        return json.loads(r.stdout)
    except ValueError:
        # the code under test printed to stdout: the adapter's answer is the last JSON line
        for line in reversed(r.stdout.split('\n')):
            if line.startswith('{'):
                try:
                    return json.loads(line)
                except ValueError:
                    pass
        raise HarnessError('implementation adapter %s produced no JSON answer: %s' % (script, r.stdout[-500:]))


def main(prop, run):
    import argparse
    ap = argparse.ArgumentParser()
    ap.add_argument('--tier', default=os.environ.get('VERIF_TIER', 'quick'), choices=['quick', 'thorough'])
    ap.add_argument('--replay')
    ap.add_argument('--seed', type=int, default=int(os.environ.get('VERIF_SEED', '0') or 0))
    a = ap.parse_args(sys.argv[2:])
    ctx = Ctx(prop, a.tier, a.seed)
    ctx.replay = a.replay
    try:
        rc = run(ctx)
    except HarnessError as e:
        print('HARNESS-ERROR property=%s %s' % (prop, e), file=sys.stderr)
        ctx.cleanup()
        sys.exit(2)
    except BaseException:
        ctx.cleanup()
        raise
    sys.exit(rc)


# ---------------------------------------------------------------- meson CLI helpers
def meson_cli(args, cwd=None, env=None, timeout=300, hashseed='0'):
    """Run /repo's meson.py with the given arguments.  Returns CompletedProcess (text)."""
    e = impl_env(env)
    e['PYTHONHASHSEED'] = hashseed
    e['NINJA'] = os.path.join(VERIF, 'tools', 'fakeninja')
    e.setdefault('MESON_VERIF', '1')
    return subprocess.run([PY, os.path.join(REPO, 'meson.py')] + list(args), cwd=cwd, env=e,
                          capture_output=True, text=True, timeout=timeout)


def pmap(fn, items, workers=None):
    """Thread pool map for subprocess-bound work (CLI runs)."""
    from concurrent.futures import ThreadPoolExecutor
    with ThreadPoolExecutor(max_workers=workers or NPROC) as ex:
        return list(ex.map(fn, items))
