"""C17 — rewriter edits are local and keep everything else meaning the same.
Theorems: coq/Props/C17.v.  Model: coq/Syntax/AstPrint.v (AstPrinter), coq/Rewrite/{Splice,Edits}.v.
Implementation: mesonbuild/ast/printer.py (AstPrinter), mesonbuild/rewriter.py (apply_changes and the
`meson rewrite` command line), mesonbuild/mparser.py."""
import json, os, glob, shutil, subprocess
from common import *

ADAPTER = 'c17.py'

# ------------------------------------------------------------------ expression trees -> source text
IDS = ['a', 'b', 'n', 's', 'lst', 'dct']
FUNCS = ['f', 'files', 'get_option', 'join_paths']
METHS = ['to_string', 'format', 'get', 'contains', 'strip']
NUMS = ['0', '1', '2', '3', '42', '0x1F', '0o17', '0b101', '100', '7']
CMPS = ['==', '!=', '<', '<=', '>', '>=', 'in', 'not in']
STR_LITS = ["'x'", "'a b'", "'-DFOO'", "'foo.c'", "''", "'it\\'s'", "'back\\\\slash'", "'tab\\there'", "'nl\\nx'",
            "'sp \\n\\ny'", "'\\x41\\u00e9\\U0001F600\\101'", "'q\"dq'", "'é€\U0001F600'", "'tr  '", "'\\\\'", "'\\''",
            "'a\\\\\\'b'", "'ls x'", "'ff\x0cx'", "'@0@ @1@'", "'''ml'''", "'''a\nb'''", "'''it's'''", "'''a  \n\n b'''",
            "'''back\\slash\\n'''", "f'@a@'", "f'''x @n@'''", "'a\nb'", "'a \n b'", "'-DQ=\"it\\'s\"'", "'#nocomment'",
            "'x\\ty\\\\n'", "'\\a\\b\\f\\r\\v'", "'nel\x85x'"]
STR_ALPHA = ['a', 'b', ' ', "'", '\\', '\n', 'é', '€', '\U0001F600', '\t', '"', '@', ' ', '\x0c', '#', 'n', '0', '  ']

PREC = {'tern': 1, 'or': 2, 'and': 3, 'cmp': 4, 'add': 5, 'mul': 6, 'un': 7, 'post': 8, 'coll': 9, 'atom': 10}


def lit_of_value(rng, v):
    """A single-quoted literal whose value is v."""
    out = []
    for ch in v:
        if ch == '\\':
            out.append('\\\\')
        elif ch == "'":
            out.append("\\'")
        elif ch == '\n':
            out.append('\\n' if rng.random() < 0.6 else '\n')
        elif ch == '\t' and rng.random() < 0.5:
            out.append('\\t')
        else:
            out.append(ch)
    return "'" + ''.join(out) + "'"


def g_str(rng):
    if rng.random() < 0.6:
        return rng.choice(STR_LITS)
    v = ''.join(rng.choice(STR_ALPHA) for _ in range(rng.randint(0, 6)))
    return lit_of_value(rng, v)


def g_tree(rng, d=0, tern_ok=True, maxd=4):
    k = rng.random()
    if d >= maxd or k < 0.22:
        j = rng.random()
        if j < 0.35:
            return ('atom', rng.choice(IDS))
        if j < 0.5:
            return ('atom', rng.choice(NUMS))
        if j < 0.6:
            return ('atom', rng.choice(['true', 'false']))
        return ('atom', g_str(rng))
    if k < 0.30:
        return ('par', g_tree(rng, d + 1, tern_ok, maxd))
    if k < 0.38:
        return ('arr', [g_tree(rng, d + 1, tern_ok, maxd) for _ in range(rng.choice([0, 1, 2, 2, 3, 6]))])
    if k < 0.42:
        return ('dict', [(g_tree(rng, d + 2, tern_ok, maxd) if rng.random() < 0.3 else ('atom', g_str(rng)),
                          g_tree(rng, d + 1, tern_ok, maxd)) for _ in range(rng.randint(0, 2))])
    if k < 0.50:
        return ('call', rng.choice(FUNCS), g_pos(rng, d, tern_ok, maxd), g_kw(rng, d, tern_ok, maxd))
    if k < 0.58:
        return ('meth', g_tree(rng, d + 1, tern_ok, maxd), rng.choice(METHS), g_pos(rng, d, tern_ok, maxd), g_kw(rng, d, tern_ok, maxd))
    if k < 0.63:
        return ('idx', g_tree(rng, d + 1, tern_ok, maxd), g_tree(rng, d + 1, tern_ok, maxd))
    if k < 0.71:
        return ('un', rng.choice(['not', '-']), g_tree(rng, d + 1, tern_ok, maxd))
    if k < 0.95 or not tern_ok:
        kind = rng.choice(['or', 'and', 'cmp', 'add', 'add', 'mul', 'mul'])
        op = {'or': ['or'], 'and': ['and'], 'cmp': CMPS, 'add': ['+', '-'], 'mul': ['*', '/', '%']}[kind]
        return ('bin', kind, rng.choice(op), g_tree(rng, d + 1, tern_ok, maxd), g_tree(rng, d + 1, tern_ok, maxd))
    return ('tern', g_tree(rng, d + 1, True, maxd), g_tree(rng, d + 1, False, maxd), g_tree(rng, d + 1, False, maxd))


def g_pos(rng, d, tern_ok, maxd):
    return [g_tree(rng, d + 1, tern_ok, maxd) for _ in range(rng.choice([0, 1, 1, 2, 3]))]


def g_kw(rng, d, tern_ok, maxd):
    if rng.random() < 0.6:
        return []
    ks = rng.sample(['k', 'kw', 'name', 'sep'], rng.randint(1, 2))
    return [(k, g_tree(rng, d + 1, tern_ok, maxd)) for k in ks]


def t_prec(t):
    k = t[0]
    if k == 'atom' or k == 'par':
        return 10
    if k in ('arr', 'dict'):
        return 9
    if k in ('call', 'meth', 'idx'):
        return 8
    if k == 'un':
        return 7
    if k == 'bin':
        return PREC[t[1]]
    return 1


def render(rng, t, need=1):
    """Source text of the tree: parentheses where the grammar needs them (this is what makes
    the generated shapes reach every operand position), plus a few redundant ones."""
    k = t[0]
    sp = lambda: rng.choice([' ', ' ', ' ', '  ', ''])
    if k == 'atom':
        s = t[1]
    elif k == 'par':
        s = '(' + render(rng, t[1], 1) + ')'
    elif k == 'arr':
        s = '[' + r_args(rng, t[1], []) + ']'
    elif k == 'dict':
        s = '{' + ', '.join(render(rng, a, 1) + ' : ' + render(rng, b, 1) for a, b in t[1]) + '}'
    elif k == 'call':
        s = t[1] + '(' + r_args(rng, t[2], t[3]) + ')'
    elif k == 'meth':
        s = render(rng, t[1], 8) + '.' + t[2] + '(' + r_args(rng, t[3], t[4]) + ')'
    elif k == 'idx':
        s = render(rng, t[1], 8) + '[' + render(rng, t[2], 1) + ']'
    elif k == 'un':
        s = (t[1] + ' ' if t[1] == 'not' else t[1] + rng.choice(['', ' '])) + render(rng, t[2], 8)
    elif k == 'bin':
        p = PREC[t[1]]
        l, r = (5, 5) if t[1] == 'cmp' else (p, p + 1)
        s = render(rng, t[3], l) + ' ' + t[2] + ' ' + render(rng, t[4], r)
    else:
        s = render(rng, t[1], 2) + ' ? ' + render(rng, t[2], 1) + ' : ' + render(rng, t[3], 1)
    if t_prec(t) < need:
        s = '(' + s + ')'
    elif rng.random() < 0.04:
        s = '(' + s + ')'
    return s


def r_args(rng, pos, kw):
    items = [render(rng, x, 1) for x in pos] + [k + ' : ' + render(rng, v, 1) for k, v in kw]
    sep = ',\n    ' if rng.random() < 0.1 else ', '
    return sep.join(items) + (',' if items and rng.random() < 0.1 else '')


EXPR_CORPUS = ["not (a and b)", "(a or b) and c", "(a + b).to_string()", "-(a + b)", "a + (b + c)", "a * (b / c)", "3 * (2 / 3)",
               "[1] + (2 + 3)", "a - (b - c)", "a - (b + c)", "(a - b) - c", "a / (b * c)", "a % (b % c)", "(a == b) == c",
               "a == (b == c)", "not (not a)", "-(-n)", "(a ? b : n) ? s : lst", "(a ? b : n) + 1", "f((a ? b : n))",
               "(a and b) or (a and not b)", "a or (b or a)", "(a or b) or a", "a and (b and a)", "(not a).to_string()",
               "(-n).to_string()", "(a ? 1 : 2).to_string()", "[(a and b)][0]", "(lst + lst)[0]", "(a in lst) and b",
               "a in (lst + lst)", "not (a in lst)", "a not in lst", "(n + 1) * (n - 1)", "n + 1 * n - 1",
               "'it\\'s'", "'back\\\\slash'", "'''a  \n\n b'''", "'x \\n\\ny'", "'a\nb'", "'\\''", "'\\\\'", "f'@a@ it\\'s'",
               "f(a, b, c, d, e, g)", "f(a, b, c, d, e)", "f([a], b)", "f(k : [1, 2])", "{'a' : 1, 'b' : [2]}", "{}", "[]", "f()",
               "a.get(b)[0].strip()", "1.to_string()", "(1).to_string()", "0x1F + 0o17 + 0b101", "[a, [b, [n, [s]]]]",
               "dct['k'].format(a ? b : n)", "(a)", "((a))", "f((a), ((b)))", "not a == b", "(not a) == b", "- n * 2", "-(n * 2)",
               "a ? b : n", "f(a ? b : n, a ? n : b)", "lst[a ? 0 : 1]", "a < b", "(a < b) != (b < a)", "'a' + 'b' + 'c'",
               "'a' + ('b' + 'c')", "n / 2 / 2", "n / (2 / 2)", "n * 2 % 3", "n * (2 % 3)", "true", "false", "f(true, k : false)"]


# ------------------------------------------------------------------ projects for `meson rewrite`
TARGET_FUNCS = ['executable', 'static_library', 'library', 'shared_library']
TGT_KW_BOOL = ['install', 'build_by_default', 'native', 'pie', 'gui_app']
TGT_KW_STR = ['install_dir', 'name_prefix', 'build_rpath', 'install_rpath']
TGT_KW_LIST = ['c_args', 'link_args', 'override_options', 'cpp_args']


def A(x):
    return ('atom', x)


SAFE_STRS = ["'x'", "'a b'", "'-DFOO'", "''", "'it\\'s'", "'back\\\\slash'", "'tab\\there'", "'sp \\n\\ny'", "'\\x41\\u00e9\\101'",
             "'q\"dq'", "'é€\U0001F600'", "'tr  '", "'\\\\'", "'\\''", "'ls\u2028x'", "'ff\x0cx'", "'''ml'''", "'''a  \n\n b'''", "'''it's'''",
             "'-DQ=\"it\\'s\"'", "'#nocomment'", "'a\nb'", "'nel\x85x'"]


def ty(rng, t, d=0, tern=True):
    """A well-typed expression over the variables every generated project defines
    (a, b : bool; n : int; s : str; lst : list of str; dct : dict of str)."""
    deep = d >= 3
    k = rng.random()
    if not deep and k < 0.07:
        return ('par', ty(rng, t, d + 1, tern))
    if not deep and tern and k < 0.14:
        return ('tern', ty(rng, 'bool', d + 1, True), ty(rng, t, d + 1, False), ty(rng, t, d + 1, False))
    if t == 'bool':
        c = rng.choice(['lit', 'var'] if deep else ['lit', 'var', 'not', 'not', 'and', 'and', 'or', 'or', 'cmpi', 'cmps', 'cmpb', 'in', 'meth'])
        if c == 'lit':
            return A(rng.choice(['true', 'false']))
        if c == 'var':
            return A(rng.choice(['a', 'b']))
        if c == 'not':
            return ('un', 'not', ty(rng, 'bool', d + 1, tern))
        if c in ('and', 'or'):
            return ('bin', c, c, ty(rng, 'bool', d + 1, tern), ty(rng, 'bool', d + 1, tern))
        if c == 'cmpi':
            return ('bin', 'cmp', rng.choice(['==', '!=', '==', '!=', '==', '!=', '<', '>=']), ty(rng, 'int', d + 1, tern), ty(rng, 'int', d + 1, tern))
        if c == 'cmps':
            return ('bin', 'cmp', rng.choice(['==', '!=']), ty(rng, 'str', d + 1, tern), ty(rng, 'str', d + 1, tern))
        if c == 'cmpb':
            return ('bin', 'cmp', rng.choice(['==', '!=']), ty(rng, 'bool', d + 1, tern), ty(rng, 'bool', d + 1, tern))
        if c == 'in':
            return ('bin', 'cmp', rng.choice(['in', 'not in']), ty(rng, 'str', d + 1, tern), ty(rng, 'list', d + 1, tern))
        return rng.choice([('meth', ty(rng, 'list', d + 1, tern), 'contains', [ty(rng, 'str', d + 1, tern)], []),
                           ('meth', ty(rng, 'str', d + 1, tern), 'startswith', [ty(rng, 'str', d + 1, tern)], []),
                           ('meth', A('dct'), 'has_key', [ty(rng, 'str', d + 1, tern)], [])])
    if t == 'int':
        c = rng.choice(['lit', 'var'] if deep else ['lit', 'var', 'add', 'add', 'mul', 'mul', 'div', 'neg', 'len'])
        if c == 'lit':
            return A(rng.choice(NUMS))
        if c == 'var':
            return A('n')
        if c == 'add':
            return ('bin', 'add', rng.choice(['+', '-']), ty(rng, 'int', d + 1, tern), ty(rng, 'int', d + 1, tern))
        if c == 'mul':
            return ('bin', 'mul', '*', ty(rng, 'int', d + 1, tern), ty(rng, 'int', d + 1, tern))
        if c == 'div':
            return ('bin', 'mul', rng.choice(['/', '%']), ty(rng, 'int', d + 1, tern), A(rng.choice(['2', '3', '7'])))
        if c == 'neg':
            return ('un', '-', ty(rng, 'int', d + 1, tern))
        return ('meth', ty(rng, 'list', d + 1, tern), 'length', [], [])
    if t == 'str':
        c = rng.choice(['lit', 'var'] if deep else ['lit', 'lit', 'var', 'cat', 'cat', 'tostr', 'fmt', 'meth', 'join', 'idx', 'dget', 'path', 'fstr'])
        if c == 'lit':
            return A(rng.choice(SAFE_STRS) if rng.random() < 0.7 else lit_of_value(rng, ''.join(rng.choice(STR_ALPHA) for _ in range(rng.randint(0, 5)))))
        if c == 'var':
            return A('s')
        if c == 'cat':
            return ('bin', 'add', '+', ty(rng, 'str', d + 1, tern), ty(rng, 'str', d + 1, tern))
        if c == 'tostr':
            return ('meth', ty(rng, rng.choice(['int', 'bool']), d + 1, tern), 'to_string', [], [])
        if c == 'fmt':
            return ('meth', A("'@0@-@1@'"), 'format', [ty(rng, rng.choice(['int', 'str']), d + 1, tern), ty(rng, rng.choice(['int', 'str', 'bool']), d + 1, tern)], [])
        if c == 'meth':
            return ('meth', ty(rng, 'str', d + 1, tern), rng.choice(['strip', 'to_upper', 'to_lower', 'underscorify']), [], [])
        if c == 'join':
            return ('meth', A(rng.choice(["' '", "', '", "'\\''"])), 'join', [ty(rng, 'list', d + 1, tern)], [])
        if c == 'idx':
            return ('idx', A('lst'), A(rng.choice(['0', '1', '-1', 'n - 2', '(n - 3)'])))
        if c == 'dget':
            return rng.choice([('idx', A('dct'), A("'k'")), ('meth', A('dct'), 'get', [A("'k'")], []), ('meth', A('dct'), 'get', [A("'zz'"), ty(rng, 'str', d + 1, tern)], [])])
        if c == 'path':
            return ('bin', 'mul', '/', ty(rng, 'str', d + 1, tern), A(rng.choice(["'sub'", "'x y'", 's'])))
        return A(rng.choice(["f'@s@'", "f'n=@n@ it\\'s'", "f'''@s@  \n x'''"]))
    if t == 'list':
        c = rng.choice(['lit', 'var'] if deep else ['lit', 'lit', 'var', 'cat', 'cat', 'app', 'split'])
        if c == 'lit':
            return ('arr', [ty(rng, 'str', d + 1, tern) for _ in range(rng.choice([0, 1, 2, 2, 3, 6]))])
        if c == 'var':
            return A('lst')
        if c == 'cat':
            return ('bin', 'add', '+', ty(rng, 'list', d + 1, tern), ty(rng, 'list', d + 1, tern))
        if c == 'app':
            return ('bin', 'add', '+', ty(rng, 'list', d + 1, tern), ty(rng, 'str', d + 1, tern))
        return ('meth', ty(rng, 'str', d + 1, tern), 'split', [], [])
    return A('dct')


KW_CORNER = {
    'bool': ["not (a and b)", "(a or b) and a", "a and (b or a)", "not (a or b)", "(n + 1) * 2 == 8", "n - (1 - 1) == 3", "not (not a)",
             "(a ? b : a) or b", "s == 'it\\'s'", "s in ['x', ('y' + s)]", "not (s in lst)", "(n * (7 / 2)) != 9", "-(n + 1) != 0",
             "(a == b) == (b == a)", "(not a) == b", "not (a == b)"],
    'str': ["'it\\'s'", "'back\\\\slash'", "'a' + ('b' + s)", "(n + 1).to_string()", "'x=' + (-(n + 2)).to_string()",
            "'''ml  \n\n x'''", "'q \\n\\nz'", "s + '\\''", "'ls\u2028x'", "'ff\x0cx'", "(a ? 'x' : 'y') + s",
            "'@0@'.format((n + 1) * 2)", "'dir' / ('sub' / s)", "(3 * (2 / 3)).to_string()", "(a and b).to_string()", "(-n).to_string()"],
    'list': ["['-DX=' + (n + 1).to_string(), '-DQ=\"it\\'s\"']", "['back\\\\slash', 'é']", "['-D' + (3 * (2 / 3)).to_string()]",
             "lst + (lst + ['x'])", "['a b', 'x \\n\\ny']", "[(a and b) ? '-A' : '-B']", "['-O' + (n - (2 - 1)).to_string()]",
             "['''tq it's''', '-I' + ('inc' / s)]", "(a ? lst : ['z']) + ['w']"],
}


def g_kwval(rng, kind):
    """The source of a keyword value: a well-typed expression of arbitrary shape."""
    if rng.random() < 0.3:
        return rng.choice(KW_CORNER[kind])
    return render(rng, ty(rng, kind, 0, True), 1)


OPT_FAMILIES = [['warning_level=2', 'sub:warning_level=3'], ['c_std=c99', 'objc_std=gnu99'], ['bindir=bin', 'sbindir=sbin'],
                ['werror=true', 'sub:werror=false'], ['buildtype=release'], ['default_library=static'],
                ['sub:c_std=c11', 'c_std=gnu99'], ['libdir=lib', 'sub:libdir=lib64']]


def g_project(rng, idx):
    """Returns (files, meta): a project whose targets carry arbitrary expressions in their other arguments."""
    L = []
    proj_kw = []
    if rng.random() < 0.5:
        proj_kw.append("version : " + rng.choice(["'1.0'", "'1.2.3'", "'0.1' + '.2'"]))
    defopts = None
    if rng.random() < 0.7:
        # entries whose key merely ENDS with another option's key sit next to it: an edit of
        # 'warning_level' / 'c_std' / 'bindir' / 'werror' must leave them alone
        fams = rng.sample(OPT_FAMILIES, rng.randint(1, 3))
        defopts = [o for f in fams for o in (f if rng.random() < 0.8 else f[:1])]
        rng.shuffle(defopts)
        proj_kw.append("default_options : [" + ', '.join("'%s'" % o for o in defopts) + "]")
    if rng.random() < 0.35:
        proj_kw.append("license : " + rng.choice(["'MIT'", "['MIT', 'Apache-2.0']", "['X-MIT', 'MIT', 'MIT-0']", "['GPL-2.0', 'LGPL-2.0', 'GPL-2.0-only']"]))
    if rng.random() < 0.3:
        proj_kw.append("meson_version : '>=0.50.0'")
    rng.shuffle(proj_kw)
    L.append("project('p%d', 'c'%s)" % (idx, ''.join(', ' + k for k in proj_kw)))
    L += ["a = true", "b = false", "n = 3", "s = 'str'", "lst = ['l1', 'l2']", "dct = {'k' : 'v'}"]
    if rng.random() < 0.4:
        L.append(rng.choice(["# comment   with a line separator", "# café \U0001F600", "z0 = 'form\x0cfeed'", "# tab\there", "z1 = 'nel\x85'", ""]))
    dep = None
    if rng.random() < 0.4:
        dkw = []
        if rng.random() < 0.7:
            dkw.append("required : " + g_kwval(rng, 'bool'))
        if rng.random() < 0.5:
            dkw.append("version : ['>=1.0']")
        if rng.random() < 0.3:
            dkw.append("not_found_message : " + g_kwval(rng, 'str'))
        L.append("dep = dependency('zlib'%s)" % ''.join(', ' + k for k in dkw))
        dep = 'zlib'
    targets = []
    nt = rng.randint(1, 3)
    shared = rng.random() < 0.15 and nt >= 2
    # the targets may live in sub/meson.build, reached through subdir('sub')
    insub = rng.random() < 0.2
    ROOT = L
    files = {}
    tdir, xsrc, xkind = '', [], None
    if insub:
        ROOT.append("subdir('sub')")
        L = [rng.choice(['# sub', 'subvar = n + 1', ''])]
        tdir = 'sub/'
    elif not shared and rng.random() < 0.25:
        # the first target gets sources through a variable defined in ANOTHER build file: files() in the
        # parent file or in a sibling directory (paths relative to that file), or plain strings / nested
        # lists (relative to the directory of the target)
        xkind = rng.choice(['files', 'files', 'libfiles', 'strs', 'nested'])
        tdir = 'app/'
        if xkind == 'files':
            ROOT.append(rng.choice(["common = files('c0.c', 'c1.c')", "common = files(['c0.c', 'c1.c'])", "common = files('c0.c',\n  'c1.c')  # shared"]))
            xsrc = ['c0.c', 'c1.c']
        elif xkind == 'libfiles':
            ROOT.append("subdir('lib')")
            files['lib/meson.build'] = rng.choice(["common = files('c0.c', 'c1.c')\n", "# lib\ncommon = files(['c0.c', 'c1.c'])"])
            xsrc = ['lib/c0.c', 'lib/c1.c']
        elif xkind == 'strs':
            ROOT.append("common = ['c0.c', 'c1.c']")
            xsrc = ['app/c0.c', 'app/c1.c']
        else:
            ROOT.append("common = [['c0.c'], 'c1.c']")
            xsrc = ['app/c0.c', 'app/c1.c']
        ROOT.append("subdir('app')")
        L = [rng.choice(['# app', ''])]
    tfile = tdir + 'meson.build'
    if shared:
        L.append("shared = ['sh.c']")
    for i in range(nt):
        name = 't%d' % i
        var = rng.choice([None, 'tgt%d' % i, 'tgt%d' % i])
        srcs = ['a%d.c' % i, 'b%d.c' % i][:rng.randint(1, 2)]
        form = rng.choice(['direct', 'direct', 'var', 'files', 'arr', 'mixed', 'arrx', 'nested']) if not shared else 'shared'
        ind = ''
        pre = []
        in_if = rng.random() < 0.15
        if in_if:
            pre.append(rng.choice(["if a", "if not (a and b)", "if n == 3"]))
            ind = '  '
        if form == 'var':
            pre.append(ind + "srcs%d = [%s]" % (i, ', '.join("'%s'" % x for x in srcs)))
            sarg = 'srcs%d' % i
        elif form == 'files':
            pre.append(ind + "srcs%d = files(%s)" % (i, ', '.join("'%s'" % x for x in srcs)))
            sarg = 'srcs%d' % i
        elif form == 'arr':
            sarg = '[' + ', '.join("'%s'" % x for x in srcs) + ']'
        elif form == 'mixed':
            srcs = ['a%d.c' % i, 'b%d.c' % i]
            pre.append(ind + "srcs%d = ['a%d.c']" % (i, i))
            sarg = "srcs%d, 'b%d.c'" % (i, i)
        elif form == 'nested':
            srcs = ['a%d.c' % i, 'b%d.c' % i]
            sarg = "['a%d.c'], 'b%d.c'" % (i, i)
        if xkind and i == 0:
            form = 'xvar'
            pre = [p_ for p_ in pre if p_.startswith(('if ', '  if '))]
            srcs = ['a0.c']
            sarg = rng.choice(["common, 'a0.c'", "'a0.c', common", "[common, 'a0.c']"])
        elif form == 'arrx':
            pre.append(ind + "more%d = ['m%d.c']" % (i, i))
            sarg = '[' + ', '.join(["'%s'" % srcs[0], 'more%d' % i] + ["'%s'" % x for x in srcs[1:]]) + ']'
        elif form == 'shared':
            sarg = "shared + [%s]" % ', '.join("'%s'" % x for x in srcs)
            srcs = ['sh.c'] + srcs
        else:
            sarg = ', '.join("'%s'" % x for x in srcs)
        kws = []
        for k in rng.sample(TGT_KW_BOOL, rng.randint(0, 2)):
            kws.append((k, g_kwval(rng, 'bool')))
        for k in rng.sample(TGT_KW_STR, rng.randint(0, 2)):
            kws.append((k, g_kwval(rng, 'str')))
        for k in rng.sample(TGT_KW_LIST, rng.randint(0, 2)):
            kws.append((k, g_kwval(rng, 'list')))
        extra = None
        if rng.random() < 0.3:
            extra = ['README%d' % i]
            kws.append(('extra_files', rng.choice(["['README%d']" % i, "'README%d'" % i])))
        if dep and rng.random() < 0.4:
            kws.append(('dependencies', '[dep]'))
        rng.shuffle(kws)
        sep = rng.choice([', ', ', ', ',\n' + ind + '  '])
        call = "%s('%s'%s%s%s)" % (rng.choice(TARGET_FUNCS), name, sep, sarg, ''.join(sep + '%s : %s' % kv for kv in kws))
        if rng.random() < 0.1:
            call = call[:-1] + ',\n' + ind + ')'
        L += pre
        L.append(ind + (var + ' = ' if var else '') + call + rng.choice(['', '', '  # trailing comment']))
        if in_if:
            L.append('endif')
        if rng.random() < 0.3:
            L.append(rng.choice(['', '# between targets', "msg%d = 'done %d'" % (i, i)]))
        targets.append({'name': name, 'var': var, 'srcs': srcs, 'form': form, 'kws': [k for k, _ in kws], 'extra': extra, 'in_if': in_if,
                        'file': tfile, 'dir': tdir, 'xsrc': xsrc if (xkind and i == 0) else []})
    if tdir:
        files[tfile] = '\n'.join(L) + ('\n' if rng.random() < 0.8 else '')
        L = ROOT
    if rng.random() < 0.5:
        L.append(rng.choice(["y = 1 # end", "message('x'.format())", "summary({'a' : a})"]))
    files['meson.build'] = '\n'.join(L) + ('\n' if rng.random() < 0.9 else '')
    return files, {'targets': targets, 'dep': dep, 'defopts': defopts, 'shared': shared}


def jcmd(cmds):
    return ['command', json.dumps(cmds)]


def g_scenario(rng, meta):
    """A short command sequence with what it is expected to do.  Every step: (argv, expectation)."""
    tg = rng.choice(meta['targets'])
    tid = tg['var'] if (tg['var'] and rng.random() < 0.3) else tg['name']
    k = rng.random()
    steps = []
    info = ['target', tid, 'info']
    # paths on the command line are relative to the source root
    sp = lambda f: tg.get('dir', '') + f
    newf = [sp(f) for f in rng.sample(['new.c', 'zz.c', 'aa.c', "it's.c", 'sub dir/x.c', 'bé.c', 'N10.c', 'n9.c'], rng.randint(1, 2))]
    if tg.get('xsrc') and rng.random() < 0.5:
        newf = [os.path.dirname(tg['xsrc'][0]) + ('/' if os.path.dirname(tg['xsrc'][0]) else '') + f for f in rng.sample(['new.c', 'zz.c', "it's.c"], rng.randint(1, 2))]
    if k < 0.3:
        steps.append((info, {'op': 'info', 'target': tg['name']}))
        if rng.random() < 0.5:
            steps.append((['target', tid, 'add'] + newf, {'op': 'src_add', 'target': tg['name'], 'files': newf}))
        else:
            steps.append((jcmd([{'type': 'target', 'target': tid, 'operation': 'src_add', 'sources': newf}]),
                          {'op': 'src_add', 'target': tg['name'], 'files': newf}))
        steps.append((info, {'op': 'info', 'target': tg['name'], 'expect_added': newf}))
        steps.append((['target', tid, 'rm'] + newf, {'op': 'src_rm', 'target': tg['name'], 'files': newf}))
        steps.append((info, {'op': 'info', 'target': tg['name'], 'expect_same_as': 0}))
    elif k < 0.45:
        own = [x for x in tg['srcs'] if x != 'sh.c']
        gone = [sp(f) for f in (own if (tg['form'] in ('mixed', 'nested') and rng.random() < 0.7) else [rng.choice(own)])]
        if tg.get('xsrc') and rng.random() < 0.6:
            gone = [rng.choice(tg['xsrc'])]          # a source that arrives through the variable of the other build file
        steps.append((info, {'op': 'info', 'target': tg['name']}))
        steps.append((['target', tid, 'rm'] + gone, {'op': 'src_rm', 'target': tg['name'], 'files': gone}))
        steps.append((info, {'op': 'info', 'target': tg['name'], 'expect_removed': gone}))
        steps.append((['target', tid, 'add'] + gone, {'op': 'src_add', 'target': tg['name'], 'files': gone}))
        steps.append((info, {'op': 'info', 'target': tg['name'], 'expect_same_as': 0}))
    elif k < 0.55:
        ef = [sp(f) for f in rng.sample(['NOTES', 'doc/x.txt', "it's.txt"], rng.randint(1, 2))]
        steps.append((info, {'op': 'info', 'target': tg['name']}))
        steps.append((['target', tid, 'add_extra_files'] + ef, {'op': 'extra_add', 'target': tg['name'], 'files': ef}))
        steps.append((info, {'op': 'info', 'target': tg['name'], 'expect_extra_added': ef}))
        steps.append((['target', tid, 'rm_extra_files'] + ef, {'op': 'extra_rm', 'target': tg['name'], 'files': ef}))
        steps.append((info, {'op': 'info', 'target': tg['name'], 'expect_same_as': 0}))
    elif k < 0.72:
        kind = rng.random()
        if kind < 0.4:
            key = rng.choice(['install', 'build_by_default', 'pie', 'gui_app'])
            val = rng.choice([True, False])
            steps.append((jcmd([{'type': 'kwargs', 'function': 'target', 'id': tid, 'operation': 'set', 'kwargs': {key: val}}]),
                          {'op': 'kw_set', 'func': 'target', 'target': tg['name'], 'keys': {key: val}}))
        elif kind < 0.75:
            key = rng.choice(['install_dir', 'build_rpath', 'install_rpath'])
            val = rng.choice(['bin', "it's", 'back\\slash', 'a b', 'é', 'x\ny'])
            steps.append((['kwargs', 'set', 'target', tid, key, val], {'op': 'kw_set', 'func': 'target', 'target': tg['name'], 'keys': {key: val}}))
        else:
            key = rng.choice(tg['kws']) if tg['kws'] and rng.random() < 0.8 else 'install'
            if key in ('build_by_default', 'build_rpath', 'dependencies', 'gui_app', 'install', 'install_dir', 'install_rpath', 'pie'):
                steps.append((['kwargs', 'delete', 'target', tid, key], {'op': 'kw_del', 'func': 'target', 'target': tg['name'], 'keys': [key]}))
            else:
                steps.append((['kwargs', 'delete', 'target', tid, 'install'], {'op': 'kw_del', 'func': 'target', 'target': tg['name'], 'keys': ['install']}))
        prev = steps[-1][1]
        steps.append((['kwargs', 'info', 'target', tid], {'op': 'kw_info', 'func': 'target', 'id': tid,
                                                            'expect_kw': prev['keys'] if prev['op'] == 'kw_set' else {},
                                                            'expect_absent': prev['keys'] if prev['op'] == 'kw_del' else []}))
    elif k < 0.82:
        kind = rng.random()
        if kind < 0.25:
            val = rng.choice(['2.0', "1.0'rc", '3.1.4'])
            steps.append((['kwargs', 'set', 'project', '/', 'version', val], {'op': 'kw_set', 'func': 'project', 'keys': {'version': val}}))
        elif kind < 0.4:
            steps.append((jcmd([{'type': 'kwargs', 'function': 'project', 'id': '/', 'operation': 'add', 'kwargs': {'license': ['GPL', "it's"]}}]),
                          {'op': 'kw_add', 'func': 'project', 'keys': {'license': ['GPL', "it's"]}}))
        elif kind < 0.5:
            steps.append((['kwargs', 'delete', 'project', '/', 'version', 'meson_version'], {'op': 'kw_del', 'func': 'project', 'keys': ['version', 'meson_version']}))
        elif kind < 0.78:
            key, pre = rng.choice([('default_options', 'warning_level='), ('default_options', 'c_std='), ('default_options', 'bindir='),
                                   ('license', 'MIT'), ('license', 'GPL-2.0')])
            steps.append((jcmd([{'type': 'kwargs', 'function': 'project', 'id': '/', 'operation': 'remove_regex', 'kwargs': {key: [pre + '.*']}}]),
                          {'op': 'kw_rmre', 'func': 'project', 'keys': {key: [pre]}}))
        else:
            key, val = rng.choice([('license', 'MIT'), ('default_options', 'werror=true'), ('license', 'GPL-2.0')])
            steps.append((jcmd([{'type': 'kwargs', 'function': 'project', 'id': '/', 'operation': 'remove', 'kwargs': {key: [val]}}]),
                          {'op': 'kw_remove', 'func': 'project', 'keys': {key: [val]}}))
        prev = steps[-1][1]
        steps.append((['kwargs', 'info', 'project', '/'], {'op': 'kw_info', 'func': 'project', 'id': '/',
                                                            'expect_kw': prev['keys'] if prev['op'] == 'kw_set' else {},
                                                            'expect_absent': prev['keys'] if prev['op'] == 'kw_del' else []}))
    elif k < 0.93:
        if rng.random() < 0.6:
            kv = dict(rng.sample([('buildtype', 'debugoptimized'), ('warning_level', '3'), ('werror', 'false'), ('c_std', 'c11'), ('bindir', 'mybin'),
                                  ('libdir', 'mylib'), ('warning_level', '1'), ('cpp_std', 'c++17')], rng.randint(1, 2)))
            argv = ['default-options', 'set']
            for a_, b_ in kv.items():
                argv += [a_, b_]
            steps.append((argv, {'op': 'opt_set', 'opts': kv}))
        else:
            ks = rng.sample(['buildtype', 'warning_level', 'werror', 'c_std', 'bindir', 'libdir'], rng.randint(1, 2))
            steps.append((['default-options', 'delete'] + ks, {'op': 'opt_del', 'opts': ks}))
        steps.append((['kwargs', 'info', 'project', '/'], {'op': 'kw_info', 'func': 'project', 'id': '/'}))
    elif k < 0.96:
        steps.append((['target', 'brandnew', 'add_target', 'n1.c', 'n2.c'], {'op': 'target_add', 'target': 'brandnew', 'files': ['n1.c', 'n2.c']}))
        steps.append((['target', 'brandnew', 'info'], {'op': 'info', 'target': 'brandnew', 'expect_exact': ['n1.c', 'n2.c']}))
    else:
        steps.append((['target', tid, 'rm_target'], {'op': 'target_rm', 'target': tg['name']}))
    for _, e_ in steps:
        if 'target' in e_ and e_['op'] not in ('target_add',) and e_.get('func') != 'project':
            e_.setdefault('file', tg['file'])
            if tg.get('xsrc') and e_['op'] in ('src_add', 'src_rm'):
                e_['anyfile'] = True        # the list that carries the source may be in the other build file
    return steps


def g_dep_scenario(rng, meta):
    """kwargs set / delete / add / remove on the dependency() call."""
    did = rng.choice(['zlib', 'dep'])
    steps = []
    kind = rng.random()
    if kind < 0.35:
        key, val = rng.choice([('required', True), ('required', False), ('static', True), ('native', False)])
        steps.append((jcmd([{'type': 'kwargs', 'function': 'dependency', 'id': did, 'operation': 'set', 'kwargs': {key: val}}]),
                      {'op': 'kw_set', 'func': 'dependency', 'keys': {key: val}}))
    elif kind < 0.55:
        key, val = rng.choice([('not_found_message', "it's gone"), ('method', 'pkg-config'), ('language', 'c'), ('not_found_message', 'back\\slash')])
        steps.append((['kwargs', 'set', 'dependency', did, key, val], {'op': 'kw_set', 'func': 'dependency', 'keys': {key: val}}))
    elif kind < 0.7:
        ks = rng.sample(['required', 'version', 'not_found_message', 'static'], rng.randint(1, 2))
        steps.append((['kwargs', 'delete', 'dependency', did] + ks, {'op': 'kw_del', 'func': 'dependency', 'keys': ks}))
    elif kind < 0.85:
        vals = rng.choice([['<2.0'], ['<2.0', '!=1.2.11'], ["!=1.0'x"]])
        steps.append((jcmd([{'type': 'kwargs', 'function': 'dependency', 'id': did, 'operation': 'add', 'kwargs': {'version': vals}}]),
                      {'op': 'kw_add', 'func': 'dependency', 'keys': {'version': vals}}))
    else:
        if rng.random() < 0.5:
            steps.append((jcmd([{'type': 'kwargs', 'function': 'dependency', 'id': did, 'operation': 'remove', 'kwargs': {'version': ['>=1.0']}}]),
                          {'op': 'kw_remove', 'func': 'dependency', 'keys': {'version': ['>=1.0']}}))
        else:
            steps.append((jcmd([{'type': 'kwargs', 'function': 'dependency', 'id': did, 'operation': 'remove_regex', 'kwargs': {'version': ['>=.*']}}]),
                          {'op': 'kw_rmre', 'func': 'dependency', 'keys': {'version': ['>=']}}))
    prev = steps[-1][1]
    steps.append((['kwargs', 'info', 'dependency', did], {'op': 'kw_info', 'func': 'dependency', 'id': did,
                                                          'expect_kw': prev['keys'] if prev['op'] == 'kw_set' else {},
                                                          'expect_absent': prev['keys'] if prev['op'] == 'kw_del' else []}))
    return steps


# ------------------------------------------------------------------ tree comparison (property clauses)
def strip_p(j):
    if isinstance(j, list):
        if j and j[0] == 'p':
            return strip_p(j[1])
        return [strip_p(x) for x in j]
    return j


def s_val(j):
    return ''.join(chr(c) for c in j)


def is_plain_str(j):
    return isinstance(j, list) and j and j[0] == 's' and j[1] == 0


def tree_diff(tb, ta, path, out):
    """Differences between two parenthesis-free trees.  ('list', path, before_strings, after_strings)
    when a positional list differs only in its plain string members, ('kw', path, key, before, after)
    for keyword arguments, ('other', path, before, after) for anything else."""
    if tb == ta:
        return
    if not (isinstance(tb, list) and isinstance(ta, list) and tb and ta and tb[0] == ta[0]):
        out.append(('other', path, tb, ta))
        return
    tag = tb[0]
    if tag in ('f', 'arr', 'm'):
        if tag == 'f':
            if tb[1] != ta[1]:
                out.append(('other', path, tb, ta))
                return
            pb, pa, kb, ka = tb[2], ta[2], tb[3], ta[3]
        elif tag == 'arr':
            pb, pa, kb, ka = tb[1], ta[1], tb[2], ta[2]
        else:
            if tb[2] != ta[2]:
                out.append(('other', path, tb, ta))
                return
            tree_diff(tb[1], ta[1], path + ['obj'], out)
            pb, pa, kb, ka = tb[3], ta[3], tb[4], ta[4]
        if pb != pa:
            nb = [x for x in pb if not is_plain_str(x)]
            na = [x for x in pa if not is_plain_str(x)]
            if len(nb) == len(na) and len(pb) == len(pa) and [is_plain_str(x) for x in pb] == [is_plain_str(x) for x in pa] \
                    and [x for x in pb if is_plain_str(x)] == [x for x in pa if is_plain_str(x)]:
                for i, (x, y) in enumerate(zip(pb, pa)):
                    tree_diff(x, y, path + [i], out)
            elif len(nb) == len(na):
                # the other members pairwise (an array among them may be an edited list itself), the plain strings as a set
                for i, (x, y) in enumerate(zip(nb, na)):
                    tree_diff(x, y, path + ['nonstr', i], out)
                sb_, sa_ = [s_val(x[3]) for x in pb if is_plain_str(x)], [s_val(x[3]) for x in pa if is_plain_str(x)]
                if sorted(sb_) != sorted(sa_) or nb == na:
                    out.append(('list', path, sb_, sa_, [is_plain_str(x) for x in pb], [is_plain_str(x) for x in pa]))
            else:
                out.append(('other', path + ['args'], pb, pa))
        kbd, kad = [s_val(k) for k, _ in kb], [s_val(k) for k, _ in ka]
        db, da = dict(zip(kbd, [v for _, v in kb])), dict(zip(kad, [v for _, v in ka]))
        for key in kbd:
            if key not in da:
                out.append(('kw', path, key, db[key], None))
            elif db[key] != da[key]:
                out.append(('kw', path, key, db[key], da[key]))
        for key in kad:
            if key not in db:
                out.append(('kw', path, key, None, da[key]))
        common_b = [k for k in kbd if k in da]
        common_a = [k for k in kad if k in db]
        if common_b != common_a:
            out.append(('kworder', path, kbd, kad))
        return
    if len(tb) != len(ta):
        out.append(('other', path, tb, ta))
        return
    if tag in ('s', 'id', 'n', 'b'):
        out.append(('other', path, tb, ta))
        return
    for i, (x, y) in enumerate(zip(tb, ta)):
        tree_diff(x, y, path + [i], out)


def classify_other(tb, ta):
    """Why two argument trees differ: grouping (same leaves, other shape), string contents, or else."""
    def leaves(j, acc):
        if isinstance(j, list):
            if j and j[0] in ('s', 'id', 'n', 'b'):
                acc.append(json.dumps(j))
            else:
                for x in j:
                    leaves(x, acc)
        else:
            acc.append(json.dumps(j))
        return acc

    def shape(j):
        if isinstance(j, list):
            if j and j[0] == 's':
                return ['s']
            return [shape(x) for x in j]
        return j
    if tb is None or ta is None:
        return 'argument-dropped-or-added'
    if shape(tb) == shape(ta):
        return 'string-contents-changed'
    if sorted(leaves(tb, [])) == sorted(leaves(ta, [])):
        return 'operator-grouping-changed'
    return 'argument-changed'


def split_stmts(text, sj):
    """statements (with their text) and the gaps between them"""
    st, gaps, pos = [], [], 0
    for s in sj:
        a, b = s[1], s[2]
        gaps.append(text[pos:a])
        st.append({'kind': s[0], 'text': text[a:b], 'name': s_val(s[3]) if s[0] in ('assign', 'plusassign') else None,
                   'tree': strip_p(s[-1]) if s[0] != 'jump' else None, 'raw': s[-1] if s[0] != 'jump' else None, 'a': a, 'b': b})
        pos = b
    gaps.append(text[pos:])
    return st, gaps


def find_call(tree, pred, acc=None):
    acc = [] if acc is None else acc
    if isinstance(tree, list):
        if tree and tree[0] == 'f' and pred(tree):
            acc.append(tree)
        for x in tree:
            find_call(x, pred, acc)
    return acc


def is_target_call(name):
    def p(t):
        return s_val(t[1]) in TARGET_FUNCS + ['both_libraries', 'shared_module', 'jar', 'build_target'] and t[2] and is_plain_str(t[2][0]) and s_val(t[2][0][3]) == name
    return p


def str_entries(v):
    """The members of a keyword value that is a plain string or an array of plain strings; None otherwise."""
    if v is None:
        return []
    if is_plain_str(v):
        return [s_val(v[3])]
    if v and v[0] == 'arr' and not v[2] and all(is_plain_str(x) for x in v[1]):
        return [s_val(x[3]) for x in v[1]]
    return None


def call_pred(exp):
    if exp.get('func') == 'dependency':
        return lambda t: s_val(t[1]) == 'dependency'
    if exp.get('func', 'project') == 'project':
        return lambda t: s_val(t[1]) == 'project'
    return is_target_call(exp['target'])


def project_lists(stmts, exp=None):
    pred = call_pred(exp or {})
    for s in stmts:
        if s['tree'] is None:
            continue
        for c in find_call(s['tree'], pred):
            return {s_val(k): str_entries(v) for k, v in c[3]}
    return {}


class StepJudge:
    """The clauses of C17 on one command step, evaluated on the implementation's files and info."""

    def __init__(self, stmts_of):
        self.stmts_of = stmts_of          # text -> statements JSON or 'ERR'
        self.edited_lists = []            # (op, keyword, entries before, edit, entries after) for the model correspondence

    def judge(self, before, after, exp, rc):
        """returns list of (clause, cls, detail)"""
        F = []
        op = exp['op']
        if op in ('info', 'kw_info'):
            if before != after:
                F.append(('info-only-command-changed-a-file', 'file-changed', {}))
            return F
        if rc != 0:
            if before != after:
                F.append(('a command that failed changed a file', 'failed-command-changed-a-file', {}))
            return F
        sa = self.stmts_of(after)
        if sa == 'ERR':
            return [('touched file no longer parses', 'unparsable', {})]
        sb = self.stmts_of(before)
        if sb == 'ERR':
            return F
        stb, gb = split_stmts(before, sb)
        sta, ga = split_stmts(after, sa)
        if op == 'target_add':
            if not after.startswith(before):
                F.append(('statements other than the added ones changed', 'unrelated-text-changed', {}))
            elif len(sta) != len(stb) + 2:
                F.append(('add_target did not add exactly two statements', 'wrong-statement-count', {'before': len(stb), 'after': len(sta)}))
            return F
        if op == 'target_rm':
            if len(sta) != len(stb) - 1:
                F.append(('rm_target did not remove exactly one statement', 'wrong-statement-count', {'before': len(stb), 'after': len(sta)}))
                return F
            tb = [s['text'] for s in stb]
            ta = [s['text'] for s in sta]
            k = 0
            while k < len(ta) and tb[k] == ta[k]:
                k += 1
            if tb[:k] + tb[k + 1:] != ta:
                F.append(('statements other than the removed one changed', 'unrelated-text-changed', {}))
            elif not find_call(stb[k]['tree'], is_target_call(exp['target'])):
                F.append(('rm_target removed another statement', 'wrong-statement-removed', {'removed': stb[k]['text'][:80]}))
            return F
        if len(sta) != len(stb):
            return [('number of statements changed', 'wrong-statement-count', {'before': len(stb), 'after': len(sta)})]
        if gb != ga:
            i = [x != y for x, y in zip(gb, ga)].index(True)
            F.append(('text between statements changed', 'unrelated-text-changed', {'before': gb[i][-60:], 'after': ga[i][-60:]}))
        changed = [i for i in range(len(stb)) if stb[i]['text'] != sta[i]['text']]
        nfiles = len(exp.get('files', [])) or 1
        if len(changed) > (nfiles if op in ('src_rm', 'extra_rm') else 1):
            F.append(('more statements re-printed than edited', 'unrelated-statement-changed', {'changed': [stb[i]['text'][:60] for i in changed]}))
        for i in changed:
            b, a = stb[i], sta[i]
            if b['kind'] != a['kind'] or b['name'] != a['name']:
                F.append(('re-printed statement is another statement', 'statement-kind-changed', {'before': b['text'][:80], 'after': a['text'][:80]}))
                continue
            d = []
            tree_diff(b['tree'], a['tree'], [], d)
            for x in d:
                if x[0] == 'other':
                    F.append(('another argument of the re-printed statement changed meaning', classify_other(x[2], x[3]),
                              {'statement_before': b['text'][:300], 'statement_after': a['text'][:300], 'path': x[1]}))
                elif x[0] == 'kworder':
                    ok = op in ('extra_add', 'extra_rm') and [k for k in x[2] if k != 'extra_files'] == [k for k in x[3] if k != 'extra_files']
                    if not ok:
                        F.append(('keyword argument order changed', 'argument-order-changed', {'before': x[2], 'after': x[3]}))
                elif x[0] == 'kw':
                    allowed = set()
                    if op in ('kw_set', 'kw_del', 'kw_add', 'kw_remove', 'kw_rmre'):
                        allowed = set(exp['keys'])
                    elif op in ('opt_set', 'opt_del'):
                        allowed = {'default_options'}
                    elif op in ('extra_add', 'extra_rm'):
                        allowed = {'extra_files'}
                    if x[2] not in allowed:
                        F.append(('another argument of the re-printed statement changed meaning', classify_other(x[3], x[4]),
                                  {'key': x[2], 'statement_before': b['text'][:300], 'statement_after': a['text'][:300]}))
                elif x[0] == 'list':
                    if op not in ('src_add', 'src_rm', 'extra_add', 'extra_rm'):
                        F.append(('a positional argument list changed', 'argument-changed', {'before': x[2], 'after': x[3]}))
                        continue
                    sb_, sa_ = set(x[2]), set(x[3])
                    base = lambda p: p.replace('\\', '/').split('/')[-1]
                    want = set(base(f) for f in exp['files'])
                    if op in ('src_add', 'extra_add'):
                        if not (sb_ <= sa_ and set(base(f) for f in sa_ - sb_) <= want):
                            F.append(('source list changed by more than the requested files', 'wrong-members', {'before': x[2], 'after': x[3]}))
                    else:
                        if not (sa_ <= sb_ and set(base(f) for f in sb_ - sa_) <= want):
                            F.append(('source list changed by more than the requested files', 'wrong-members', {'before': x[2], 'after': x[3]}))
        # requested keyword values
        if op == 'kw_set' and rc == 0:
            tgt = None
            for s in sta:
                if s['tree'] is None:
                    continue
                pred = call_pred(exp)
                c = find_call(s['tree'], pred)
                if c:
                    tgt = c[0]
            if tgt is not None:
                kw = {s_val(k): v for k, v in tgt[3]}
                for key, val in exp['keys'].items():
                    got = kw.get(key)
                    want = ['b', 1 if val else 0] if isinstance(val, bool) else ['s', 0, 0, [ord(c) for c in val]]
                    if got != want:
                        F.append(('the addressed keyword does not have the requested value', 'value-not-set', {'key': key, 'want': val, 'got': got}))
        if op == 'kw_del' and rc == 0:
            for s in sta:
                if s['tree'] is None:
                    continue
                pred = call_pred(exp)
                for c in find_call(s['tree'], pred):
                    for k, _ in c[3]:
                        if s_val(k) in exp['keys']:
                            F.append(('deleted keyword still present', 'value-not-set', {'key': s_val(k)}))
        if op in ('opt_set', 'opt_del', 'kw_rmre', 'kw_remove', 'kw_add') and rc == 0 and exp.get('func', 'project') in ('project', 'dependency'):
            lb, la = project_lists(stb, exp), project_lists(sta, exp)
            if op in ('opt_set', 'opt_del'):
                edits = {'default_options': exp['opts']}
            else:
                edits = exp['keys']
            for lkey, what in edits.items():
                bef, aft = lb.get(lkey, []), la.get(lkey, [])
                if bef is None or aft is None:
                    continue          # not a plain list of strings
                if op in ('opt_set', 'opt_del'):
                    ks = list(what)
                    kept = [e for e in bef if not any(e.startswith(k_ + '=') for k_ in ks)]
                    newe = [k_ + '=' + what[k_] for k_ in sorted(what)] if op == 'opt_set' else []
                elif op == 'kw_rmre':
                    kept, newe = [e for e in bef if not any(e.startswith(p_) for p_ in what)], []
                elif op == 'kw_remove':
                    kept, newe = [e for e in bef if e not in what], []
                else:
                    kept, newe = list(bef), list(what)
                self.edited_lists.append((op, lkey, bef, what, aft))
                if aft[:len(kept)] != kept or len(aft) != len(kept) + len(newe):
                    F.append(('entries of the edited list other than the addressed ones did not survive unchanged and in order',
                              'unrelated-entry-changed', {'list': lkey, 'before': bef, 'after': aft, 'expected_to_remain': kept, 'edit': what}))
        if op in ('opt_set', 'opt_del') and rc == 0:
            for s in sta:
                if s['tree'] is None:
                    continue
                for c in find_call(s['tree'], lambda t: s_val(t[1]) == 'project'):
                    kw = {s_val(k): v for k, v in c[3]}
                    do = kw.get('default_options')
                    ents = []
                    if do and do[0] == 'arr':
                        ents = [s_val(x[3]) for x in do[1] if is_plain_str(x)]
                    elif do and is_plain_str(do):
                        ents = [s_val(do[3])]
                    keys = exp['opts'] if isinstance(exp['opts'], list) else list(exp['opts'])
                    for key in keys:
                        mine = [e for e in ents if e.startswith(key + '=')]
                        if op == 'opt_del' and mine:
                            F.append(('deleted default option still present', 'value-not-set', {'key': key, 'entries': ents}))
                        if op == 'opt_set' and [m.lower() for m in mine] != [(key + '=' + exp['opts'][key]).lower()]:
                            F.append(('default option does not have exactly the requested value', 'value-not-set', {'key': key, 'entries': ents}))
        return F


def info_sources(info, which='sources'):
    if not info or 'target' not in info:
        return None
    v = list(info['target'].values())
    if not v:
        return None
    return sorted(v[-1].get(which, []))


# ------------------------------------------------------------------ generators for the in-process streams
def g_rawbody(rng):
    al = ['\\', '\\', "\\'", 'a', 'n', 'x', 'u', 'U', '0', '7', '4', '1', 'f', 'N', '{', '}', 'é', ' ', '8', 't', '00e9', '41', '0001F600']
    return ''.join(rng.choice(al) for _ in range(rng.randint(0, 8)))


def decode_in_model(raw):
    import re
    if '\\N{' in raw:
        return False
    for m in re.finditer(r'\\U([A-Fa-f0-9]{8})', raw):
        if int(m.group(1), 16) > 0x10FFFF:
            return False
    return True


def g_layout_file(rng):
    """Top-level statements with odd layout; returns (code, indexes of statements whose value is a call / array)."""
    L, idx = [], []
    n = rng.randint(1, 5)
    for i in range(n):
        kind = rng.random()
        t = ('call', rng.choice(FUNCS), g_pos(rng, 0, True, 3), g_kw(rng, 0, True, 3)) if kind < 0.5 else \
            ('arr', [g_tree(rng, 1, True, 3) for _ in range(rng.randint(0, 4))]) if kind < 0.8 else g_tree(rng, 0, True, 3)
        src = render(rng, t, 1)
        if src.startswith('(') or t[0] not in ('call', 'arr'):
            ok = False
        else:
            ok = True
        pre = rng.choice(['', '', 'v%d = ' % i, 'v%d=' % i])
        if pre and t[0] == 'atom' and False:
            pass
        if not pre and t[0] not in ('call',):
            pre = 'w%d = ' % i
        L.append(pre + src + rng.choice(['', '', ' # cé', '  ', ' #  x']))
        if ok:
            idx.append(i)
        if rng.random() < 0.3:
            L.append(rng.choice(['', '# c', "# it's \x0c", '']))
    # comment / blank lines are not statements: recompute indexes by counting non-comment lines
    code = '\n'.join(L) + '\n'
    return code, idx


def stmt_indexes(code_lines_idx):
    return code_lines_idx


def ref_splice(text, es):
    """Reference meaning of apply_changes' splice (lines end at '\\n' only; last extent first)."""
    starts = [0]
    for i, ch in enumerate(text):
        if ch == '\n':
            starts.append(i + 1)
    def inside(a, b):
        return a[:4] != b[:4] and (b[0], b[1]) <= (a[0], a[1]) and (a[2], a[3]) <= (b[2], b[3])
    es = [e for e in es if not any(inside(e, o) for o in es)]
    items = sorted(es, key=lambda e: (e[0], e[1]), reverse=True)
    raw = text
    for sl, sc, el, ec, new in items:
        a, b = starts[sl - 1] + sc, starts[el - 1] + ec
        raw = raw[:a] + new + raw[b:]
    return raw


def g_splice(rng):
    al = ['a', 'b', ' ', '\n', '\n', 'x', "'", '\x0c', ' ', '\x85', 'é', '(', ')', '\x0b', '\x1c']
    text = ''.join(rng.choice(al) for _ in range(rng.randint(5, 60)))
    # random ascending disjoint offset ranges -> (line, col)
    n = rng.randint(1, 3)
    cuts = sorted(rng.sample(range(len(text) + 1), min(2 * n, len(text) + 1)))
    if len(cuts) % 2:
        cuts = cuts[:-1]
    es = []

    def lc(off):
        pre = text[:off]
        return pre.count('\n') + 1, len(pre) - (pre.rfind('\n') + 1)
    for k in range(0, len(cuts), 2):
        a, b = cuts[k], cuts[k + 1]
        (sl, sc), (el, ec) = lc(a), lc(b)
        es.append((sl, sc, el, ec, rng.choice(['', 'NEW', 'f(1)', "['x',\n 'y']", 'Z'])))
    if es and rng.random() < 0.25:
        # a modified node inside another modified node (an array inside the call that is re-printed too)
        sl, sc, el, ec, _ = es[0]
        a, b = cuts[0], cuts[1]
        if b - a >= 2:
            i1 = rng.randint(a, b - 1)
            i2 = rng.randint(i1 + 1, b)
            if (i1, i2) != (a, b):
                es.append(lc(i1) + lc(i2) + ('INNER',))
    rng.shuffle(es)
    return text, es


# ------------------------------------------------------------------ replay
def replay(ctx):
    rec = json.load(open(ctx.replay))
    r = rec['replay']
    print('replaying', json.dumps(r)[:2000])
    scratch = ctx.mkscratch()
    if 'case' in r:
        res = run_impl(ADAPTER, {'cases': [r['case']], 'scratch': scratch})
        print('implementation:', repr(res['results'][0]))
        if ctx.build('Props/C17.v', 'Rewrite/Extract.v', 'C17'):
            print('model         :', repr(ctx.run_model([tuple(r['case'])])[0]))
    if 'project' in r:
        res = run_impl(ADAPTER, {'projects': [r['project']], 'scratch': scratch})
        for st, argv in zip(res['projects'][0], r['project']['steps']):
            print('$ meson rewrite', ' '.join(argv), '-> rc', st['rc'])
            for k, v in st['files'].items():
                print('---', k)
                print(v)
    ctx.cleanup()
    return 0


# ------------------------------------------------------------------ main
def run(ctx):
    if ctx.replay:
        return replay(ctx)
    rng = ctx.rng
    thorough = ctx.tier == 'thorough'
    built = ctx.build('Props/C17.v', 'Rewrite/Extract.v', 'C17')
    scratch = ctx.mkscratch()
    dist = {}
    import time as _t
    T0 = [_t.time()]
    stage = {}

    def lap(name):
        stage[name] = round(_t.time() - T0[0], 1)
        T0[0] = _t.time()

    # ---------------- (a) in-process: AstPrinter, apply_changes, literals
    exprs = list(EXPR_CORPUS)
    ntrees = 40000 if thorough else 2000
    for _ in range(ntrees):
        exprs.append(render(rng, g_tree(rng, 0, True, rng.choice([2, 3, 4, 5])), 1))
    # small exhaustive enumeration: every binary/unary operator nesting of depth 2 over one atom per kind
    ops = [('or', 'or'), ('and', 'and'), ('cmp', '=='), ('cmp', 'in'), ('add', '+'), ('add', '-'), ('mul', '*'), ('mul', '/'), ('mul', '%')]
    exh = []
    atoms = [('atom', 'a'), ('atom', '1')]
    lvl1 = atoms[:1] + [('un', 'not', atoms[0]), ('un', '-', atoms[1]), ('meth', atoms[0], 'm', [], []), ('idx', atoms[0], atoms[1]),
                        ('tern', atoms[0], atoms[1], atoms[1])] + [('bin', k, o, atoms[0], atoms[1]) for k, o in ops]
    for k, o in ops:
        for l in lvl1:
            for r in lvl1:
                exh.append(('bin', k, o, l, r))
    for l in lvl1:
        exh += [('un', 'not', l), ('un', '-', l), ('meth', l, 'm', [l], [('k', l)]), ('idx', l, l), ('arr', [l, l]), ('call', 'f', [l], [('k', l)])]
        if l[0] != 'tern':
            exh.append(('tern', l, l, l))
    nullrng = __import__('random').Random(1)
    nullrng.random = lambda: 0.5
    exprs += [render(nullrng, t, 1) for t in exh]
    ctx.extra['exhaustive'] = True
    ctx.extra['exhaustive_operator_nestings'] = len(exh)
    cases = []
    for e in exprs:
        code = e + '\n'
        cases += [('print', [code]), ('ptoks', [code]), ('check', [code]), ('prec', [code])]
        if rng.random() < 0.3:
            cases.append(('print', ['res = ' + code]))
    dist['expression_sources'] = len(exprs)
    # literals
    nlit = 20000 if thorough else 2000
    for s in STR_LITS:
        if s.startswith("'") and not s.startswith("'''"):
            cases.append(('decode', [s[1:-1]]))
    for _ in range(nlit):
        raw = g_rawbody(rng)
        if decode_in_model(raw):
            cases.append(('decode', [raw]))
        v = ''.join(rng.choice(STR_ALPHA) for _ in range(rng.randint(0, 7)))
        cases.append(('escape', [v]))
        cases.append(('escrt', [v]))
    for t in NUMS + ['0XfF', '0B11', '0O7', '4300', '123456789012345678901234567890']:
        cases.append(('numval', [t]))
    # statements of whole files
    files = []
    try:
        import check_C02
        nprog = 3000 if thorough else 300
        files += [check_C02.g_program(rng) for _ in range(nprog)]
        cf = check_C02.corpus_files()
        rng.shuffle(cf)
        for p in cf[:(1500 if thorough else 150)]:
            try:
                t = open(p, encoding='utf-8').read()
            except Exception:
                continue
            if check_C02.in_model(t) and '\r' not in t:
                files.append(t)
    except ImportError:
        pass
    projects = [g_project(rng, i) for i in range(6000 if thorough else 260)]
    files += [t_ for p in projects[:200] for t_ in p[0].values()]
    for t in files:
        cases.append(('stmts', [t]))
    dist['files_for_statement_extents'] = len(files)
    # apply_changes: re-print statements in place; hand-made extents
    nref = 4000 if thorough else 400
    reformat_cases = []
    for _ in range(nref):
        code, idx = g_layout_file(rng)
        if idx:
            pick = sorted(rng.sample(idx, rng.randint(1, len(idx))))
            reformat_cases.append((code, pick))
    splice_cases = [g_splice(rng) for _ in range(6000 if thorough else 600)]
    splice_cases.insert(0, ("x = 1 #  \nf(a)\ny = 2\n", [(2, 0, 2, 4, 'g(b)')]))
    splice_cases.insert(0, ("z = 'form\x0cfeed'\nf(a)\n", [(2, 0, 2, 4, 'g(b)')]))

    # run (reformat needs statement indexes in terms of statements: computed from the model's / impl's own parse)
    def stmt_index_cases(code, pick):
        return ('reformat', [code, ','.join(str(i) for i in pick)])
    # top-level statement index = index into block.lines: comment/blank lines are not lines, so map
    ref_cases = []
    for code, pick in reformat_cases:
        lines = code.split('\n')
        # statement k of g_layout_file is the k-th non-comment, non-blank physical "statement line";
        # statements never span lines unless inside brackets, where the continuation lines are not separate statements
        ref_cases.append(stmt_index_cases(code, pick))
    cases += ref_cases
    # rm_target's removal of `name = call(...)`: every top-level statement in turn, with and without a final newline
    nrm = 0
    for code, pick in reformat_cases[:(1500 if thorough else 150)]:
        variants = [code, code.rstrip('\n'), code.rstrip('\n') + '  \n\n']
        for k in range(min(6, code.count('\n') + 1)):
            cases.append(('rm_assign', [rng.choice(variants), str(k)]))
            nrm += 1
    dist['rm_assign_cases'] = nrm
    for text, es in splice_cases:
        cases.append(('splice', [text] + [str(x) for e in es for x in e]))
    dist['reformat_files'] = len(ref_cases)
    dist['splice_cases'] = len(splice_cases)

    lap('generate')
    impl = run_impl(ADAPTER, {'cases': cases, 'scratch': scratch})['results']
    lap('impl_in_process')
    model = ctx.run_model(cases) if built else impl
    lap('model_in_process')
    nskip = 0
    for (fn, args), ri, rm in zip(cases, impl, model):
        ctx.count((fn, tuple(args)), nontrivial=True)
        if fn in ('reformat', 'rm_assign') and (ri == '-' or rm == '-'):
            nskip += 1
            if ri == rm:
                continue
        if ri != rm and len(ctx.disagreements) < 200:
            ctx.disagreements.append({'case': [fn, args], 'implementation': ri, 'model': rm})
    ctx.cov['traces_validated_against_impl'] = len(cases)
    dist['in_process_cases'] = len(cases)
    for s in cases[:2] + cases[4 * len(EXPR_CORPUS) + 40:4 * len(EXPR_CORPUS) + 44]:
        ctx.sample({'fn': s[0], 'args': [a[:200] for a in s[1]]})
    if built:
        kc = [(c, m) for c, m in zip(cases, model) if len(c[1][0]) < 400 and len(m) < 1500]
        ctx.kernel_crosscheck('Rewrite.Entry', [c for c, _ in kc], [m for _, m in kc], limit=300)

    lap('kernel_crosscheck')
    # ---------------- the property's clauses on the implementation's in-process answers
    res_by = {}
    for (fn, args), ri in zip(cases, impl):
        res_by[(fn, tuple(args))] = ri
    failing = []
    for e in exprs:
        code = e + '\n'
        r = res_by.get(('check', (code,)))
        if r and len(r) == 3 and r[0] == 'T' and r[2] != 'T':
            failing.append((e, res_by.get(('print', (code,)), 'O')[1:]))
        elif r and r.startswith('EXC'):
            ctx.violation('C17:reprint:exception', 'AstPrinter raised %s on %r' % (r, e), {'case': ['check', [code]]})
    failing.sort(key=lambda x: len(x[0]))
    failing = failing[:300]
    # classify with the implementation's own parser
    why = run_impl(ADAPTER, {'cases': [('stmts', [e + '\n']) for e, _ in failing] + [('stmts', [pr + '\n']) for _, pr in failing],
                             'scratch': scratch})['results'] if failing else []
    for k, (e, pr) in enumerate(failing):
        wb, wa = why[k], why[len(failing) + k]
        cls = 'reprinted-text-unparsable'
        if wa != 'ERR' and wb != 'ERR':
            jb, ja = json.loads(wb), json.loads(wa)
            cls = classify_other(strip_p(jb[0][-1]), strip_p(ja[0][-1])) if jb and ja else 'argument-changed'
        ctx.violation('C17:reprint:' + cls,
                      'AstPrinter output of %r is %r: %s (the re-printed argument no longer evaluates to the value it had)' % (e, pr, cls),
                      {'case': ['check', [e + '\n']], 'source': e, 'printed': pr, 'class': cls})
    for (fn, args), ri in zip(cases, impl):
        if fn == 'escrt':
            if ri != 'T' + args[0]:
                cls = 'string-contents-changed' if ri.startswith('T') else 'reprinted-text-unparsable'
                ctx.violation('C17:escape:' + cls, 'the literal AstPrinter writes for the string %r is read back as %r' % (args[0], ri),
                              {'case': ['escrt', args], 'class': cls})
        elif fn == 'splice':
            es = [(int(args[k]), int(args[k + 1]), int(args[k + 2]), int(args[k + 3]), args[k + 4]) for k in range(1, len(args) - 4, 5)]
            want = ref_splice(args[0], es)
            if ri != want:
                ctx.violation('C17:splice:text-outside-the-extent-changed',
                              'apply_changes replaced other text than the recorded extents: %r with %r gives %r, the extents mean %r'
                              % (args[0], es, ri, want), {'case': ['splice', args], 'expected': want})
    rmq = [(args, ri[1:]) for (fn, args), ri in zip(cases, impl) if fn == 'rm_assign' and ri.startswith('O')]
    for (fn, args), ri in zip(cases, impl):
        if fn == 'rm_assign' and ri.startswith('EXC'):
            ctx.violation('C17:rm_assign:internal-error', 'removing statement %s of %r through apply_changes raises %s' % (args[1], args[0], ri),
                          {'case': ['rm_assign', args]})
    rm_res = run_impl(ADAPTER, {'cases': [('stmts', [a[0]]) for a, _ in rmq] + [('stmts', [r]) for _, r in rmq], 'scratch': scratch})['results'] if rmq else []
    for k, (args, after) in enumerate(rmq):
        sb, sa = rm_res[k], rm_res[len(rmq) + k]
        if sb == 'ERR':
            continue
        bad = None
        if sa == 'ERR':
            bad = 'unparsable'
        else:
            stb, _ = split_stmts(args[0], json.loads(sb))
            sta, _ = split_stmts(after, json.loads(sa))
            tb_, ta_ = [x['text'] for x in stb], [x['text'] for x in sta]
            # statement idx (top level) is the only one that may disappear, together with what is nested in it
            if len(ta_) >= len(tb_) or not all(t in tb_ for t in ta_):
                bad = 'wrong-statement-count'
            else:
                it = iter(tb_)
                if not all(any(t == u for u in it) for t in ta_):
                    bad = 'unrelated-statement-changed'
        if bad:
            ctx.violation('C17:rm_assign:' + bad, 'removing statement %s of %r gives %r: %s' % (args[1], args[0], after, bad),
                          {'case': ['rm_assign', args], 'class': bad})
    # reformat: re-printing statements in place keeps every other statement and the meaning of the re-printed ones
    stq = []
    for (fn, args), ri in zip(cases, impl):
        if fn == 'reformat' and ri.startswith('O'):
            stq.append((args, ri[1:]))
    st_res = run_impl(ADAPTER, {'cases': [('stmts', [a[0]]) for a, _ in stq] + [('stmts', [r]) for _, r in stq], 'scratch': scratch})['results']
    for k, (args, after) in enumerate(stq):
        sb, sa = st_res[k], st_res[len(stq) + k]
        if sb == 'ERR':
            continue
        if sa == 'ERR':
            ctx.violation('C17:reformat:unparsable', 're-printing statements %s of %r gives an unparsable file %r' % (args[1], args[0], after),
                          {'case': ['reformat', args]})
            continue
        stb, gb = split_stmts(args[0], json.loads(sb))
        sta, ga = split_stmts(after, json.loads(sa))
        pick = set(int(x) for x in args[1].split(','))
        bad = None
        if len(stb) != len(sta):
            bad = 'wrong-statement-count'
        elif gb != ga:
            bad = 'unrelated-text-changed'
        else:
            for i, (b, a) in enumerate(zip(stb, sta)):
                if i not in pick and b['text'] != a['text']:
                    bad = 'unrelated-statement-changed'
                elif b['tree'] != a['tree']:
                    bad = classify_other(b['tree'], a['tree'])
        if bad:
            ctx.violation('C17:reformat:' + bad, 're-printing statements %s of %r gives %r: %s' % (args[1], args[0], after, bad),
                          {'case': ['reformat', args], 'class': bad})

    lap('in_process_oracle')
    # ---------------- (b) meson rewrite on generated projects
    nproj = len(projects)
    plist = []
    for i, (pfiles, meta) in enumerate(projects):
        steps = g_dep_scenario(rng, meta) if (meta['dep'] and rng.random() < 0.3) else g_scenario(rng, meta)
        if rng.random() < 0.25:
            steps += (g_dep_scenario(rng, meta) if (meta['dep'] and rng.random() < 0.3) else g_scenario(rng, meta))[:3]
        plist.append({'files': pfiles, 'steps': [s[0] for s in steps], 'exp': [s[1] for s in steps], 'meta': meta})
    # hand-picked projects first
    corner = []
    corner.append({'files': {'meson.build': "project('p', 'c')\na = true\nb = false\nx = 3\nexe = executable('t1', 'a.c', 'b.c',\n  build_by_default: not (a and b),\n  install: (a or b) and a,\n  c_args: ['-DX=' + (x + 1).to_string(), '-D' + (3 * (2 / 3)).to_string()],\n)\n"},
                   'steps': [['target', 't1', 'add', 'c.c']], 'exp': [{'op': 'src_add', 'target': 't1', 'files': ['c.c']}]})
    corner.append({'files': {'meson.build': "project('p', 'c')\nexe = executable('t1', 'a.c', install_dir : 'it\\'s', c_args : ['-DQ=\"it\\'s\"'])\n"},
                   'steps': [['target', 't1', 'add', 'c.c']], 'exp': [{'op': 'src_add', 'target': 't1', 'files': ['c.c']}]})
    corner.append({'files': {'meson.build': "project('p', 'c')\nexe = executable('t1', 'a.c')\n"},
                   'steps': [['target', 't1', 'add', "it's.c"]], 'exp': [{'op': 'src_add', 'target': 't1', 'files': ["it's.c"]}]})
    corner.append({'files': {'meson.build': "project('p', 'c')\nexe = executable('t1', 'a.c', install_dir : '''a  \n\n b''', build_rpath : 'x \\n\\ny')\n"},
                   'steps': [['target', 't1', 'add', 'c.c']], 'exp': [{'op': 'src_add', 'target': 't1', 'files': ['c.c']}]})
    corner.append({'files': {'meson.build': "project('p', 'c')\n# comment with a line separator   here\nz = 'form\x0cfeed'\nexe = executable('t1', 'a.c')\ny = 1\n"},
                   'steps': [['target', 't1', 'add', 'c.c']], 'exp': [{'op': 'src_add', 'target': 't1', 'files': ['c.c']}]})
    plist = corner + plist
    CH = 24
    chunks = [plist[i:i + CH] for i in range(0, len(plist), CH)]

    def work(chunk_i):
        i, ch = chunk_i
        d = os.path.join(scratch, 'w%d' % i)
        os.makedirs(d, exist_ok=True)
        return run_impl(ADAPTER, {'projects': [{'files': c['files'], 'steps': c['steps'], 'relto': len(c['files']) > 1 or (hash(c['files']['meson.build']) % 3 == 0)}
                                               for c in ch], 'scratch': d}, timeout=3000)['projects']
    outs = pmap(work, list(enumerate(chunks)))
    lap('rewrite_projects')
    results = [r for o in outs for r in o]

    # statements through the extracted Coq parser (reference parser for the files the rewriter wrote)
    texts = set()
    for c, res in zip(plist, results):
        texts.update(c['files'].values())
        for st in res:
            texts.update(st['files'].values())
    texts.add('')
    texts = sorted(texts)
    if built:
        sj = ctx.run_model([('stmts', [t]) for t in texts])
    else:
        sj = run_impl(ADAPTER, {'cases': [('stmts', [t]) for t in texts], 'scratch': scratch})['results']
    impl_sj = run_impl(ADAPTER, {'cases': [('stmts', [t]) for t in texts], 'scratch': scratch})['results']
    for t, a, b in zip(texts, sj, impl_sj):
        if a != b and a != 'FUEL' and len(ctx.disagreements) < 200:
            ctx.disagreements.append({'case': ['stmts', [t]], 'implementation': b, 'model': a})
    cache = {t: (json.loads(x) if x not in ('ERR', 'FUEL') else 'ERR') for t, x in zip(texts, sj)}
    judge = StepJudge(lambda t: cache[t])
    opcount, failed_cmds, nsteps, n_unanalysable = {}, 0, 0, 0
    for pi, (c, res) in enumerate(zip(plist, results)):
        before_files = dict(c['files'])
        infos = []
        unanalysable = False
        for k, (argv, exp, st) in enumerate(zip(c['steps'], c['exp'], res)):
            if k == 0 and st['rc'] != 0 and st['files'] == before_files:
                unanalysable = True
                n_unanalysable += 1
                break
            nsteps += 1
            opcount[exp['op']] = opcount.get(exp['op'], 0) + 1
            fkey = exp.get('file', 'meson.build')
            if exp.get('anyfile'):
                chg = [f_ for f_ in before_files if st['files'].get(f_) != before_files[f_]]
                if len(chg) == 1:
                    fkey = chg[0]
            before = before_files.get(fkey, '')
            after = st['files'].get(fkey, '')
            for f_ in before_files:
                if f_ != fkey and st['files'].get(f_) != before_files[f_]:
                    ctx.violation('C17:cli:%s:another-build-file-changed' % exp['op'],
                                  '`meson rewrite %s` changed %s, the edited statement is in %s:\n%s\n->\n%s'
                                  % (' '.join(argv), f_, fkey, before_files[f_][:600], (st['files'].get(f_) or '')[:600]),
                                  {'project': {'files': c['files'], 'steps': c['steps'][:k + 1]}, 'step': k, 'command': argv})
            ctx.count(('proj', before, tuple(argv)), nontrivial=True)
            if st['rc'] != 0:
                failed_cmds += 1
            replay_obj = {'project': {'files': c['files'], 'steps': c['steps'][:k + 1]}, 'step': k, 'command': argv}
            if st['rc'] not in (0, 99) and 'Unhandled python exception' in (st['err'] or '') and 'rewriter.py' in (st['err'] or '') \
                    and exp['op'] not in ('info', 'kw_info'):
                last = [l for l in st['err'].split('\n') if 'Error' in l and ':' in l and not l.startswith('ERROR')]
                ctx.violation('C17:cli:%s:internal-error' % exp['op'],
                              '`meson rewrite %s` on\n%s\nends in an unhandled Python exception inside the rewriter (%s): the requested edit is not carried out'
                              % (' '.join(argv), before[:1500], (last[-1].strip() if last else '?')), dict(replay_obj, err=st['err'][-600:]))
            if st['rc'] == 99:
                ctx.violation('C17:cli:exception', 'meson rewrite %s raised %s' % (' '.join(argv), st['err'][:200]), replay_obj)
            for clause, cls, detail in judge.judge(before, after, exp, st['rc']):
                ctx.violation('C17:cli:%s:%s' % (exp['op'], cls),
                              '`meson rewrite %s` on\n%s\n%s: %s %s' % (' '.join(argv), before[:1500], clause, cls, json.dumps(detail, ensure_ascii=False)[:800]),
                              dict(replay_obj, clause=clause, detail=detail, after=after))
            if exp['op'] == 'kw_info' and st['rc'] == 0 and st['info'] and 'kwargs' in st['info'] and unanalysable is False:
                data = list(st['info']['kwargs'].values())[-1]
                for key, val in exp.get('expect_kw', {}).items():
                    if data.get(key) != val:
                        ctx.violation('C17:cli:kw_set:info-does-not-report-it', 'after setting %s to %r on\n%s\ninfo reports %r'
                                      % (key, val, before[:1200], data.get(key)), replay_obj)
                for key in exp.get('expect_absent', []):
                    if key in data:
                        ctx.violation('C17:cli:kw_del:info-does-not-report-it', 'after deleting %s on\n%s\ninfo still reports %r'
                                      % (key, before[:1200], data.get(key)), replay_obj)
            if exp['op'] == 'info':
                srcs, ext = info_sources(st['info']), info_sources(st['info'], 'extra_files')
                infos.append((srcs, ext))
                if st['rc'] == 0 and srcs is not None:
                    prev = infos[0] if 'expect_same_as' in exp else None
                    base = lambda p: p.split('/')[-1]
                    npth = lambda p: os.path.normpath(p).replace('\\', '/')
                    outside = [p_ for p_ in srcs + (ext or []) if npth(p_).startswith('..') or os.path.isabs(p_)]
                    if outside and not any(npth(f).startswith('..') for f in exp.get('expect_added', []) + exp.get('expect_extra_added', [])):
                        ctx.violation('C17:cli:info:source-outside-the-project', 'after the commands so far on\n%s\ninfo reports %s: outside the source tree'
                                      % (before[:1200], outside), replay_obj)
                    if 'expect_added' in exp and len(infos) >= 2 and infos[-2][0] is not None:
                        if set(npth(p_) for p_ in srcs) != set(npth(p_) for p_ in infos[-2][0]) | set(npth(f) for f in exp['expect_added']):
                            ctx.violation('C17:cli:src_add:info-does-not-report-it', 'after adding %s to\n%s\ninfo reports sources %s (before: %s)'
                                          % (exp['expect_added'], before[:1200], srcs, infos[-2][0]), replay_obj)
                    if 'expect_removed' in exp and len(infos) >= 2 and infos[-2][0] is not None:
                        if set(npth(p_) for p_ in srcs) != set(npth(p_) for p_ in infos[-2][0]) - set(npth(f) for f in exp['expect_removed']) \
                                or not set(npth(f) for f in exp['expect_removed']) <= set(npth(p_) for p_ in infos[-2][0]):
                            ctx.violation('C17:cli:src_rm:info-does-not-report-it', 'after removing %s from\n%s\ninfo reports sources %s (before: %s)'
                                          % (exp['expect_removed'], before[:1200], srcs, infos[-2][0]), replay_obj)
                    if 'expect_extra_added' in exp and ext is not None:
                        if not set(npth(f) for f in exp['expect_extra_added']) <= set(npth(p_) for p_ in ext):
                            ctx.violation('C17:cli:extra_add:info-does-not-report-it', 'after adding extra files %s to\n%s\ninfo reports %s'
                                          % (exp['expect_extra_added'], before[:1200], ext), replay_obj)
                    if prev is not None and prev[0] is not None and (set(prev[0]) != set(srcs) or set(prev[1] or []) != set(ext or [])):
                        ctx.violation('C17:cli:inverse-does-not-restore-the-set', 'add-then-remove / remove-then-add on\n%s\nleaves sources %s extra %s, was %s extra %s'
                                      % (before[:1200], srcs, ext, prev[0], prev[1]), replay_obj)
                    if 'expect_exact' in exp and set(base(f) for f in srcs) != set(exp['expect_exact']):
                        ctx.violation('C17:cli:target_add:info-does-not-report-it', 'new target reports sources %s, requested %s' % (srcs, exp['expect_exact']), replay_obj)
            before_files = dict(st['files'])
    # the edited default_options lists against the model of process_default_options (Rewrite/Edits.v:
    # opts_set / opts_remove, theorems C17_opts_*): entries of other options untouched, in order
    mcases, mexp = [], []
    for op, lkey, bef, what, aft in judge.edited_lists:
        if lkey != 'default_options' or any('\x02' in e for e in bef + aft):
            continue
        if op == 'opt_set':
            mcases.append(('opts_set', ['\x02'.join(bef)] + [x for k_ in sorted(what) for x in (k_, what[k_])]))
        elif op == 'opt_del':
            mcases.append(('opts_del', ['\x02'.join(bef)] + list(what)))
        elif op == 'kw_rmre' and all(p_.endswith('=') for p_ in what):
            mcases.append(('opts_del', ['\x02'.join(bef)] + [p_[:-1] for p_ in what]))
        else:
            continue
        mexp.append('\x02'.join(aft))
    if built and mcases:
        for c_, want, got in zip(mcases, mexp, ctx.run_model(mcases)):
            ctx.count(('opts', c_[0], tuple(c_[1])), nontrivial=True)
            if want.lower() != got.lower() and len(ctx.disagreements) < 200:
                ctx.disagreements.append({'case': [c_[0], c_[1]], 'implementation': want, 'model': got})
    dist['edited_option_lists_vs_model'] = len(mcases)
    # Rewriter.get_relto against the model (Rewrite/Edits.v: relto; theorems C17_relto_*): which build file's
    # directory the strings of a node are relative to, for every node the sources of every target flow through
    rcases, rexp = [], []
    for c, res in zip(plist, results):
        for enc, ans in (res[0].get('relto') or [] if res else []):
            if enc == 'EXC':
                continue
            rcases.append(('relto', enc))
            rexp.append(ans)
    if built and rcases:
        for c_, want, got in zip(rcases, rexp, ctx.run_model(rcases)):
            ctx.count(('relto', tuple(c_[1])), nontrivial=True)
            if want != got and len(ctx.disagreements) < 200:
                ctx.disagreements.append({'case': [c_[0], c_[1]], 'implementation': want, 'model': got})
    dist['get_relto_answers_vs_model'] = len(rcases)
    lap('judge_projects')
    ctx.cov['traces_validated_against_impl'] += nsteps
    dist.update({'projects': len(plist), 'rewrite_steps': nsteps, 'steps_by_operation': opcount, 'steps_with_nonzero_exit': failed_cmds,
                 'projects_the_rewriter_could_not_analyse': n_unanalysable})
    # a sample through the real command line (a new process per command): same files as in-process
    ncli = 40 if thorough else 4
    mism = 0
    cli_sample = list(zip(plist, results))[:ncli] + [x for x in zip(plist, results) if len(x[0]['files']) > 1][:(8 if thorough else 2)]
    for c, res in cli_sample:
        d = os.path.join(scratch, 'cli')
        shutil.rmtree(d, ignore_errors=True)
        os.makedirs(d)
        for rel, text in c['files'].items():
            os.makedirs(os.path.dirname(os.path.join(d, rel)), exist_ok=True)
            with open(os.path.join(d, rel), 'w', encoding='utf-8', newline='') as f:
                f.write(text)
        for argv, st in zip(c['steps'], res):
            r = meson_cli(['rewrite', '--sourcedir', d] + list(argv), cwd=d)
            got = {rel: open(os.path.join(d, rel), encoding='utf-8', newline='').read() for rel in c['files']}
            if got != {rel: st['files'].get(rel) for rel in c['files']}:
                mism += 1
                ctx.disagreements.append({'case': ['cli-vs-in-process', argv], 'implementation': json.dumps(got)[:600], 'model': json.dumps(st['files'])[:600]})
                break
    dist['real_cli_runs_compared'] = len(cli_sample)
    dist['projects_with_subdir'] = sum(1 for c in plist if len(c['files']) > 1)
    lap('real_cli')
    ctx.extra['stage_s'] = stage
    ctx.extra['input_distribution'] = dist
    ctx.extra['reformat_skipped'] = nskip
    ctx.sample({'project': {k_: v_[:600] for k_, v_ in plist[7]['files'].items()}, 'steps': plist[7]['steps']})

    order = ['C17:cli', 'C17:reformat', 'C17:splice', 'C17:reprint', 'C17:escape']
    ctx.violations.sort(key=lambda v: min([i for i, p_ in enumerate(order) if v['id'].startswith(p_)] or [9]))
    ctx.extra['violation_classes'] = [v['id'] for v in ctx.violations]
    return ctx.finish(
        level='proof',
        trusted=['Coq 8.16.1 kernel (coqc, vm_compute; no native_compute)',
                 'extraction with ExtrOcamlBasic directives only + OCaml + extract/driver.ml (cross-checked in-kernel on a sample each run)',
                 'harness/check_C17.py generators and judges, harness/impl/c17.py adapter/canonicaliser',
                 'not modelled: which node the rewriter edits (dataflow DAG, ast/interpreter.py, introspection.py), '
                 'path handling, removal of whole assignments; observed end to end through `meson rewrite`'],
        assumptions=['Print Assumptions: all property theorems closed under the global context (no axioms)',
                     'parser fuel (30*tokens+60) is sufficient for the generated files (FUEL results measured: 0)'],
        rule='expression sources (corner corpus, exhaustive two-level operator nestings, random trees rendered with the necessary and '
             'some redundant parentheses) are printed by AstPrinter and compared with the model text / token image; statements are '
             're-printed in place through Rewriter.apply_changes; generated projects whose targets carry arbitrary expressions in their '
             'other arguments are edited by `meson rewrite` (in-process command line entry, a sample through real processes) and every '
             'step is judged by the property clauses using the extracted Coq parser; distinct = distinct (function, arguments) / (file, command)')
