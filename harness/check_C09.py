"""C09 — a killed meson command never bricks the build directory.
Theorems: coq/Props/C09.v.  Model: coq/Crash/Model.v.  Implementation: the real CLI
(`meson setup|setup --reconfigure|setup --wipe|configure`) observed and killed from outside
with strace (harness/c09_trace.py); the real loaders judge the state files (harness/impl/c09.py).

Per scenario (directory history, mutating command):
  1. recording run under strace -> the command's sequence of file-system mutations;
     canonicalised (path class + op kind) it must equal the model's op sequence      [op-sequence correspondence]
  2. for kill point j (= the m-th call of syscall S touching the build directory): fresh copy of
     the directory, command killed on ENTRY to that call, then
       - the state files as the real loaders see them   vs  model `crash k`            [crash-state correspondence]
       - follow-up `meson setup [--reconfigure]`: exit class, option values, files      vs  model `recover`
  3. oracle (no model): follow-up succeeds, no state file unreadable afterwards, every option old-or-new.
"""
import json, os, re, shutil, hashlib, time
from common import *
import c09_trace as T

KEYS = ['s', 'c', 'i', 'sub:so', 'warning_level']
LONG = 'L' + 'x' * 9000
VALUES = {'s': ['sdef', 'hello', 'new', 'v3', LONG], 'c': ['one', 'two', 'three'], 'i': ['3', '7', '42'],
          'sub:so': ['subdef', 'x', 'y'], 'warning_level': ['1', '2', '3', '0']}
KEYS_WIRE = ','.join(str(i) for i in range(len(KEYS)))

MESON_BUILD = """project('p', default_options: ['optimization=1'])
message('opt_s=' + get_option('s'))
message('opt_c=' + get_option('c'))
message('opt_i=' + get_option('i').to_string())
message('opt_warning_level=' + get_option('warning_level'))
subproject('sub')
"""
MESON_OPTIONS = """option('s', type: 'string', value: 'sdef')
option('c', type: 'combo', choices: ['one', 'two', 'three'], value: 'one')
option('i', type: 'integer', value: 3, min: 0, max: 100)
"""
SUB_BUILD = "project('sub')\nmessage('opt_sub:so=' + get_option('so'))\n"
SUB_OPTIONS = "option('so', type: 'string', value: 'subdef')\n"

FIXED = {'meson-private': 'P', 'meson-info': 'J', 'meson-private/coredata.dat': 'c',
         'meson-private/coredata.dat.prev': 'p', 'meson-private/coredata.dat~': 't',
         'meson-private/build.dat': 'b', 'meson-private/cmd_line.txt': 'm', 'meson-private/cmd_line.txt~': 'n',
         'build.ninja': 'N', 'build.ninja~': 'M', 'meson-info/tmp_dump.json': 'T'}
STYLES = {'plain': 'd%07d', 'bracket': 'd[%05d]', 'space': 'd %06d', 'utf8': 'd\u00e9%05d'}
# a machine file that carries option values, and the edit applied to it / to the project's declared defaults by an 'E' event
NATIVE_INI = "[built-in options]\nwarning_level = '3'\n\n[project options]\nc = 'two'\n"
NATIVE_INI_EDITED = "[built-in options]\nwarning_level = '2'\n\n[project options]\nc = 'three'\n"
NATIVE_FILE_TEXT = "[properties]\nverif_marker = 'from a pipe'\n"
KINDCH = {'mkdir': 'K', 'fsync': 'F', 'unlink': 'U', 'rmdir': 'X', 'write': 'W'}


def d_args(D):
    return ['-D%s=%s' % (KEYS[k], VALUES[KEYS[k]][v]) for k, v in D]


def d_wire(D):
    return ','.join('%d=%d' % (k, v) for k, v in D)


# the world of the model (coq/Crash/Model.v `world`): declared defaults that differ from value 0, machine-file values.
# An 'E' event edits both (edit_project); an 'M' event brings the machine file native.ini into existence.
DECL_EDITED = [(2, 1), (4, 1)]               # i: '3' -> '7';  warning_level: '1' -> '2'
MFILE = [(4, 2), (1, 1)]                     # NATIVE_INI: warning_level='3', c='two'
MFILE_EDITED = [(4, 1), (1, 2)]              # NATIVE_INI_EDITED: warning_level='2', c='three'


def world_at(hist):
    """the world in which the LAST event of hist happens / in which a command after hist runs (hist may be [])"""
    edited = any(e[0] == 'E' for e in hist)
    has_m = any(e[0] == 'M' for e in hist)
    return (DECL_EDITED if edited else [], (MFILE_EDITED if edited else MFILE) if has_m else [])


MODEL_KIND = {'S': 'S', 'N': 'S', 'M': 'S', 'R': 'R', 'Q': 'R', 'W': 'W', 'V': 'W', 'Y': 'W', 'C': 'C', 'K': 'C'}
WIPES = 'WVY'      # W --wipe, V --wipe --native-file other.ini, Y --wipe --cross-file other.ini


def ev_wire(ev, world=([], [])):
    """event: (kind, D, order, kill) or ('X', code, 'T'|'A', None).
    kinds: S setup, N setup --native-file <pipe>, M setup --native-file native.ini, R reconfigure,
    Q reconfigure --clearcache, W wipe, C configure, K configure --clearcache"""
    kind, D, order, kill = ev
    if kind == 'X':
        return '\x01'.join(['X', D, order, ''])
    flag = 'T' if kind in 'NMKV' else ''
    return '\x01'.join([MODEL_KIND[kind], d_wire(D), ','.join(order or []), '' if kill is None else str(kill), flag,
                        d_wire(world[0]), d_wire(world[1])])


def cmd_args(kind, D, bdir, src):
    if kind == 'S':
        return ['setup', bdir, src] + d_args(D)
    if kind == 'N':
        return ['setup', bdir, src, '--native-file', '/dev/stdin'] + d_args(D)
    if kind == 'M':
        return ['setup', bdir, src, '--native-file', os.path.join(src, 'native.ini')] + d_args(D)
    if kind == 'R':
        return ['setup', '--reconfigure', bdir, src] + d_args(D)
    if kind == 'Q':
        return ['setup', '--reconfigure', '--clearcache', bdir, src] + d_args(D)
    if kind == 'K':
        return ['configure', '--clearcache', bdir] + d_args(D)
    if kind == 'W':
        return ['setup', '--wipe', bdir, src] + d_args(D)
    if kind == 'V':
        return ['setup', '--wipe', bdir, src, '--native-file', os.path.join(src, 'other.ini')] + d_args(D)
    if kind == 'Y':
        return ['setup', '--wipe', bdir, src, '--cross-file', os.path.join(src, 'other.ini')] + d_args(D)
    return ['configure', bdir] + d_args(D)


def cmd_text(kind, D):
    if kind == 'E':
        return '(the project is edited: meson.options default of i 3->7, default_options += warning_level=2, machine file values changed)'
    return ' '.join(cmd_args(kind, D, 'B', 'S')).replace(LONG, '<9001 chars>')


class Lab:
    """scratch area, source tree, name tables."""

    def __init__(self, ctx):
        self.ctx = ctx
        self.root = ctx.mkscratch()
        os.makedirs(os.path.join(self.root, 'tmp'))
        self.pyc = os.path.join(self.root, 'pyc')
        self.src = os.path.join(self.root, 'src')
        os.makedirs(os.path.join(self.src, 'subprojects', 'sub'))
        open(os.path.join(self.src, 'meson.build'), 'w').write(MESON_BUILD)
        open(os.path.join(self.src, 'meson.options'), 'w').write(MESON_OPTIONS)
        open(os.path.join(self.src, 'subprojects', 'sub', 'meson.build'), 'w').write(SUB_BUILD)
        open(os.path.join(self.src, 'subprojects', 'sub', 'meson.options'), 'w').write(SUB_OPTIONS)
        open(os.path.join(self.src, 'other.ini'), 'w').write("[properties]\nverif_marker = 'another machine file'\n")
        self.srcs = {}
        import itertools
        self._nd = itertools.count(1)          # next() is atomic: newdir() is called from worker threads
        self.dat_names, self.info_names, self.cinfo = [], [], []
        self.strace_runs = 0

    def src_for(self, tag):
        """a private copy of the project (for scenarios that edit the project between two commands)"""
        if not tag:
            return self.src
        if tag not in self.srcs:
            d = os.path.join(self.root, 'src_' + tag)
            shutil.copytree(self.src, d)
            if tag.startswith('cpp'):
                # a C++-modules target: the Ninja backend writes a per-target dependency-scan pickle <target>.p/<name>.dat
                mb = os.path.join(d, 'meson.build')
                t = open(mb).read()
                assert "project('p', default_options" in t
                open(mb, 'w').write(t.replace("project('p', default_options", "project('p', 'cpp', default_options") +
                                    "executable('e', 'm.cpp', cpp_args: ['-fmodules-ts'])\n")
                open(os.path.join(d, 'm.cpp'), 'w').write('int main() { return 0; }\n')
            self.srcs[tag] = d
        return self.srcs[tag]

    def area(self, tag):
        assert len(tag) == 6, tag       # relocate() needs equal path lengths
        d = os.path.join(self.root, tag)
        os.makedirs(d, exist_ok=True)
        return d

    def newdir(self, area, style='plain'):
        """a fresh 8-BYTE directory name (relocate() needs equal byte lengths).  Hostile styles: a glob
        character class, a blank, a non-ASCII letter - all legal directory names."""
        return os.path.join(area, STYLES[style] % next(self._nd))

    # ---- path classes
    def code(self, rel):
        if rel in FIXED:
            return FIXED[rel]
        if rel.startswith('meson-private/') and rel.endswith('.dat') and rel.count('/') == 1:
            n = rel.split('/', 1)[1]
            if n not in self.dat_names:
                self.dat_names.append(n)
            return 'D%d' % self.dat_names.index(n)
        if rel.startswith('meson-info/') and rel.endswith('.json') and rel.count('/') == 1:
            n = rel.split('/', 1)[1]
            if n not in self.info_names:
                self.info_names.append(n)
            return 'I%d' % self.info_names.index(n)
        return None          # logs, ignore files, compile_commands.json, meson.lock, the directory itself

    def env_wire(self, atomic=True, keep=True):
        return '\x01'.join([','.join(str(i) for i in range(len(self.dat_names))),
                            ','.join(str(i) for i in range(len(self.info_names))),
                            ','.join(str(i) for i in self.cinfo), '0',
                            ('T' if atomic else 'F') + ('T' if keep else 'F')])

    # ---- canonical tokens of a parsed strace log
    def tokens(self, evs, bdir):
        """-> list of [token, first_ev_index, last_ev_index]; rest-class mutations are dropped;
        consecutive writes to one file collapse into one W token."""
        toks = []
        for i, e in enumerate(evs):
            if e['killed'] or e['ret'] == '-1' or e['kind'] not in T.MUT:
                continue
            if e['kind'] == 'write' and e['ret'] == '0':
                continue
            rel = os.path.relpath(e['path'], bdir) if T.under(e['path'], bdir) else None
            if e['kind'] == 'rename':
                rel2 = os.path.relpath(e['path2'], bdir) if T.under(e['path2'], bdir) else None
                c2 = self.code(rel2) if rel2 else None
                if c2 is None:
                    continue
                c1 = self.code(rel) if rel else 's'
                toks.append(['R%s>%s' % (c1 or '?', c2), i, i])
                continue
            c = self.code(rel) if rel else None
            if c is None:
                continue
            if e['kind'] == 'open':
                t = ('O' if e['trunc'] or not e['append'] else 'A') + c
            else:
                t = KINDCH[e['kind']] + c
            if t[0] == 'W' and toks and toks[-1][0] == t:
                toks[-1][2] = i
            else:
                toks.append([t, i, i])
        return toks

    def record(self, base, kind, D, area, style='plain', src=None):
        src = src or self.src
        """Two recording runs of the command on copies of base: the first finds the paths the command
        touches, the second (with -P for exactly those paths) yields the kill points and the counters."""
        a = self.newdir(area, style)
        self._copy(base, a)
        r = T.run_traced(a + '.log', cmd_args(kind, D, a, src), self.pyc)
        self.strace_runs += 1
        evs = T.parse_log(a + '.log')
        rel = set()
        for i in T.mutations(evs, a):
            for p in (evs[i]['path'], evs[i]['path2']):
                if T.under(p, a):
                    rel.add(os.path.relpath(p, a))
                    rel.add(os.path.relpath(os.path.dirname(p), a) if p != a else '.')
        rel = sorted(rel)
        toks1 = [t[0] for t in self.tokens(evs, a)]
        b = self.newdir(area, style)
        self._copy(base, b)
        r2 = T.run_traced(b + '.log', cmd_args(kind, D, b, src), self.pyc, pfiles=self.pfiles(b, rel))
        self.strace_runs += 1
        evs2 = T.parse_log(b + '.log')
        toks = self.tokens(evs2, b)
        points = []
        for i in T.mutations(evs2, b):
            e = evs2[i]
            if e['ret'] == '-1' or (e['kind'] == 'write' and e['ret'] == '0'):
                continue
            m = sum(1 for x in evs2[:i + 1] if x['sys'] == e['sys'])
            k = sum(1 for t in toks if t[2] < i)
            tok = next((t[0] for t in toks if t[1] <= i <= t[2]), None)
            tgt = os.path.relpath(e['path2'] or e['path'], b)
            points.append({'j': len(points), 'sys': e['sys'], 'm': m, 'k': k, 'state_file': tok is not None,
                           'what': '%s#%d:%s' % (e['sys'], m, tgt), 'target': tgt})
        order = [t[0][1:] for t in toks if t[0][0] in 'UX']
        return {'rc': r2.returncode, 'rc1': r.returncode, 'out': (r2.stdout + r2.stderr)[-1500:], 'tokens': [t[0] for t in toks],
                'tokens1': toks1, 'out1': (r.stdout + r.stderr)[-1500:],
                'points': points, 'rel': rel, 'order': order, 'full_dir': b, 'evs': len(evs2)}

    def pfiles(self, d, rel):
        return [os.path.normpath(os.path.join(d, x)) for x in rel]

    def _copy(self, base, dst):
        if base is None:
            return          # fresh: the directory does not exist yet
        T.relocate(base, dst)

    def kill(self, base, kind, D, rec, pt, area, style='plain', src=None):
        src = src or self.src
        """Run the command on a fresh copy of base, killed on entry to point pt."""
        d = self.newdir(area, style)
        self._copy(base, d)
        r = T.run_traced(d + '.log', cmd_args(kind, D, d, src), self.pyc, pfiles=self.pfiles(d, rec['rel']),
                         inject=(pt['sys'], pt['m']))
        self.strace_runs += 1
        evs = T.parse_log(d + '.log')
        last = evs[-1] if evs else None
        hit = bool(last and last['killed'] and last['sys'] == pt['sys'] and
                   os.path.relpath(last['path2'] or last['path'] or '/', d) == pt['target'])
        toks = [t[0] for t in self.tokens(evs, d)]
        k = pt['k']
        stable = toks[:k] == rec['tokens'][:k] and (len(toks) == k or (len(toks) == k + 1 and toks[k][0] == 'W' and toks[k] == rec['tokens'][k]))
        return {'dir': d, 'hit': hit, 'stable': stable, 'rc': r.returncode}

    def followup(self, d, src=None):
        conf = os.path.exists(os.path.join(d, 'meson-private', 'coredata.dat'))
        r = T.meson(['setup'] + (['--reconfigure'] if conf else []) + [d, src or self.src], self.pyc)
        out = r.stdout + r.stderr
        if r.returncode == 0:
            cls = 'ok'
        elif 'Unhandled python exception' in out or 'Traceback (most recent call last)' in out:
            cls = 'PyErr'
        else:
            cls = 'MesonException'
        msgs = {}
        for k, v in re.findall(r'^Message: opt_([\w:]+)=(.*)$', r.stdout, re.M):
            if k in VALUES:
                msgs[k] = VALUES[k].index(v) if v in VALUES[k] else 900
        tail = [l for l in out.strip().split('\n') if l.strip()][-3:]
        return {'followup': 'reconfigure' if conf else 'setup', 'rc': r.returncode, 'cls': cls, 'msg_values': msgs if r.returncode == 0 else None,
                'tail': [t[:200] for t in tail] if r.returncode else []}

    def classify(self, dirs, refs, wellformed=False):
        """dirs -> adapter answers (real loaders), in chunks, in parallel."""
        if not dirs:
            return []
        chunks = [dirs[i:i + 24] for i in range(0, len(dirs), 24)]

        def one(ch):
            return run_impl('c09.py', {'classify': [{'dir': d, 'ninja_refs': refs} for d in ch], 'keys': KEYS, 'values': VALUES, 'wellformed': wellformed,
                                       'dats': self.dat_names, 'infos': self.info_names},
                            env={'PYTHONPYCACHEPREFIX': self.pyc, 'PYTHONDONTWRITEBYTECODE': ''})['classify']
        out = []
        for r in pmap(one, chunks):
            out += r
        return out


def vals_wire(vals):
    if vals is None:
        return '-'
    return ','.join('%d=%d' % (i, vals.get(k, 999)) for i, k in enumerate(KEYS))


def all_whole(state):
    toks = dict(t.split('=', 1) for t in state.split(' ') if '=' in t)
    for c, v in toks.items():
        if c in ('t', 'n', 'M', 'T'):
            if v != 'A':
                return False
        elif c == 'p':
            continue
        elif v[0] != 'W':
            return False
    return True


# ---------------------------------------------------------------- scenarios
def scenarios(thorough, rng):
    """(id, history, command).  history: list of events (kind, D, None, kill-index|None);
    D: list of (key index, value index)."""
    S = []
    conf = [('S', [(0, 1)], None, None)]
    conf2 = [('S', [(0, 1)], None, None), ('C', [(1, 1), (3, 1)], None, None)]
    S.append(('fresh/setup', [], ('S', [(0, 1), (1, 1)])))
    S.append(('configured/reconfigure', conf, ('R', [(0, 2)]), 'space'))
    S.append(('configured/configure', conf, ('C', [(0, 2), (1, 2)]), 'utf8'))
    S.append(('configured+configure/wipe', conf2, ('W', []), 'bracket'))
    # a machine file that was read from a pipe lives in meson-private/*.ini and must survive --wipe, whatever the directory is called
    S.append(('machine-file-from-pipe/wipe', [('N', [(0, 1)], None, None)], ('W', []), 'bracket'))
    S.append(('configured/wipe-D', conf, ('W', [(1, 1), (0, 2)])))
    # an earlier kill left coredata.dat (s=hello) and cmd_line.txt (s=new) disagreeing; --wipe -Ds=v3 on that (known finding)
    S.append(('killed-configure(cmd_line updated)/wipe-D', conf + [('C', [(0, 2)], None, 3)], ('W', [(0, 3)])))
    # the project's DECLARED defaults (meson.options default, project(default_options:), machine file contents) are edited
    # after the first setup: coredata.dat then holds values that cmd_line.txt + the current project cannot reproduce
    S.append(('edited-defaults/reconfigure', conf + [('E', [], None, None)], ('R', [(1, 1)])))
    S.append(('edited-defaults/configure', conf + [('E', [], None, None)], ('C', [(1, 1)]), 'bracket'))
    S.append(('machine-file-values/wipe', [('M', [(0, 1)], None, None)], ('W', [])))
    # the directory was configured with a machine file read from a PIPE (copy in meson-private/<uuid>.native.ini, named by
    # cmd_line.txt); the wipe itself passes ANOTHER machine file: the recorded copy must survive as long as cmd_line.txt names it
    S.append(('machine-file-from-pipe/wipe --native-file other', [('N', [(0, 1)], None, None)], ('V', []), 'plain', '', ['wipe']))
    S.append(('machine-file-from-pipe/wipe --cross-file other', [('N', [(0, 1)], None, None)], ('Y', [(1, 1)]), 'space', '', ['wipe']))
    # --wipe WITH a new -D for an option whose declared default changed since the first setup (known finding)
    S.append(('edited-defaults/wipe-D', conf + [('E', [], None, None)], ('W', [(2, 2)])))
    # --clearcache forces coredata.dat to be saved even when no value changes
    S.append(('configured/configure --clearcache -D(same value)', conf, ('K', [(0, 1)])))
    S.append(('configured/configure --clearcache', conf, ('K', []), 'space'))
    # a directory that a killed --wipe left without coredata.dat but with cmd_line.txt: what a first setup stores and records
    S.append(('killed-wipe(coredata gone)/setup', conf + [('W', [], None, 'core-gone')], ('S', [(1, 2)])))
    if thorough:
        S.append(('machine-file-values-edited/reconfigure', [('M', [(0, 1)], None, None), ('E', [], None, None)], ('R', [(0, 2)]), 'space'))
        S.append(('machine-file-values-edited/configure', [('M', [(0, 1)], None, None), ('E', [], None, None)], ('C', [(0, 2)])))
        S.append(('edited-defaults/wipe', conf + [('E', [], None, None)], ('W', [])))
        S.append(('configured/configure-same-value', conf, ('C', [(0, 1)])))
        S.append(('configured+configure/reconfigure --clearcache', conf2, ('Q', [(1, 2)]), 'bracket'))
        S.append(('machine-file-values/configure --clearcache', [('M', [(0, 1)], None, None)], ('K', [(1, 2)])))
        S.append(('configured/setup-D (already configured: acts as configure)', conf, ('S', [(2, 1)])))
        S.append(('configured+configure/reconfigure', conf2, ('R', [(3, 2), (4, 2)])))
        S.append(('configured+configure/configure', conf2, ('C', [(3, 2), (0, 0)])))
        S.append(('configured+configure/wipe-D', conf2, ('W', [(2, 2)]), 'space'))
        S.append(('configured+configure/wipe', conf2, ('W', []), 'utf8'))
        S.append(('configured+configure/wipe', conf2, ('W', [])))
        S.append(('machine-file-from-pipe/wipe', [('N', [(0, 1)], None, None)], ('W', [])))
        S.append(('machine-file-from-pipe/reconfigure', [('N', [(0, 1)], None, None)], ('R', [(0, 2)]), 'bracket'))
        S.append(('fresh/setup', [], ('S', [(0, 1), (1, 1)]), 'bracket'))
        S.append(('subproject-override/reconfigure', [('S', [(3, 1), (4, 3)], None, None)], ('R', [(3, 2)]), 'utf8'))
        S.append(('long-value/configure', [('S', [(0, 4)], None, None)], ('C', [(1, 1)]), 'bracket'))
        S.append(('long-value/reconfigure', [('S', [(0, 4)], None, None)], ('R', [(0, 1)])))
        # directories left behind by an earlier kill
        S.append(('killed-first-setup(after coredata)/reconfigure', [('S', [(0, 1)], None, 6)], ('R', [(1, 1)])))
        S.append(('killed-first-setup(before coredata)/setup', [('S', [(0, 1)], None, 4)], ('S', [(1, 1)])))
        S.append(('killed-configure(cmd_line updated)/reconfigure', conf + [('C', [(0, 2)], None, 3)], ('R', [])))
        S.append(('reconfigured-twice/configure', conf + [('R', [(2, 2)], None, None), ('R', [(0, 3)], None, None)], ('C', [(2, 1)])))
    if os.environ.get('C09_DEPSCAN', '1') == '1':
        # a C++-modules project (per-target dependency-scan pickle).  Behind a toggle until pending/C09-depscan-pickle-atomic.diff
        # is applied: on the unchanged tree a kill between the truncating open and the write of <target>.p/<name>.dat makes
        # every later `meson setup --reconfigure` die with EOFError.
        S.append(('cpp-modules/setup', [], ('S', [(0, 1)]), 'plain', 'cpp'))
        S.append(('cpp-modules/reconfigure', [('S', [(0, 1)], None, None)], ('R', [(0, 2)]), 'bracket', 'cpp'))
    # seeded random scenarios: random history of completed commands, random command, random -D lists
    for n in range(4 if thorough else 1):
        S.append(random_scenario(rng, n))
    return S


def random_D(rng, allow_empty=True):
    ks = [k for k in range(len(KEYS)) if rng.random() < 0.4]
    if not ks and not allow_empty:
        ks = [rng.randrange(len(KEYS))]
    rng.shuffle(ks)
    return [(k, rng.randrange(0, min(4, len(VALUES[KEYS[k]])))) for k in ks]


def random_scenario(rng, n):
    """random history of completed commands (optionally with a machine file, an edit of the project's declared
    defaults, --clearcache) and a random command to kill"""
    hist = [(rng.choice('SSM'), random_D(rng), None, None)]
    edited = False
    for _ in range(rng.randrange(0, 3)):
        kind = rng.choice('RCWKQE')
        if kind == 'E':
            if edited:
                continue
            edited = True
            hist.append(('E', [], None, None))
        else:
            hist.append((kind, random_D(rng, allow_empty=(kind != 'C')), None, None))
    kind = rng.choice('RCCWKQ')
    # (--wipe with new -D after an edit is the known finding and has its own scenario)
    D = [] if (kind == 'W' and edited) else random_D(rng, allow_empty=(kind != 'C'))
    name = 'random%d/%s' % (n, ' ; '.join(cmd_text(e[0], e[1]) if e[0] != 'E' else 'EDIT' for e in hist) + ' => ' + cmd_text(kind, D))
    return (name, hist, (kind, D), rng.choice(['plain', 'bracket', 'space', 'utf8']))


DAMAGE = [
    # (id, history) — recovery decisions on states meson itself never produces (external damage)
    ('damage/coredata-truncated', [('S', [(0, 1)], None, None), ('X', 'c', 'T', None)]),
    ('damage/coredata-truncated+cmd_line-deleted', [('S', [(0, 1)], None, None), ('X', 'c', 'T', None), ('X', 'm', 'A', None)]),
    ('damage/coredata-deleted', [('S', [(0, 1)], None, None), ('X', 'c', 'A', None)]),
    ('damage/cmd_line-deleted', [('S', [(0, 1)], None, None), ('X', 'm', 'A', None)]),
    ('damage/cmd_line-truncated', [('S', [(0, 1)], None, None), ('X', 'm', 'T', None)]),
    ('damage/coredata-deleted+cmd_line-truncated', [('S', [(0, 1)], None, None), ('X', 'c', 'A', None), ('X', 'm', 'T', None)]),
    ('damage/build.dat-truncated', [('S', [(0, 1)], None, None), ('X', 'b', 'T', None)]),
    ('damage/coredata+cmd_line-deleted', [('S', [(0, 1)], None, None), ('X', 'c', 'A', None), ('X', 'm', 'A', None)]),
]
CODE2REL = {v: k for k, v in FIXED.items()}


def edit_project(src):
    """edit what the project DECLARES: meson.options default of i (3 -> 7), project(default_options:) gains
    warning_level=2, the machine file (if the history uses one) changes both of its values"""
    p = os.path.join(src, 'meson.options')
    t = open(p).read()
    assert "value: 3," in t
    open(p, 'w').write(t.replace("value: 3,", "value: 7,"))
    p = os.path.join(src, 'meson.build')
    t = open(p).read()
    assert "['optimization=1']" in t
    open(p, 'w').write(t.replace("['optimization=1']", "['optimization=1', 'warning_level=2']"))
    p = os.path.join(src, 'native.ini')
    if os.path.exists(p):
        open(p, 'w').write(NATIVE_INI_EDITED)


class Runner:
    def __init__(self, ctx, lab):
        self.ctx, self.lab = ctx, lab
        self.bases = {}          # history key -> (dir, wire events)
        import itertools
        self._hn = itertools.count(1)

    def build_history(self, hist, style='plain', srctag=''):
        """Apply the events to a fresh directory.  -> (base dir or None, [wire events]) ; cached on prefixes."""
        key = style + '|' + srctag + '|' + json.dumps(hist)
        if key in self.bases:
            return self.bases[key]
        lab = self.lab
        if not hist:
            self.bases[key] = (None, [])
            return self.bases[key]
        pdir, pw = self.build_history(hist[:-1], style, srctag)
        src = lab.src_for(srctag)
        area = lab.area('h%05d' % next(self._hn))
        d = lab.newdir(area, style)
        if pdir is not None:
            T.relocate(pdir, d)
        kind, D, _, kill = hist[-1]
        if kind == 'E':
            # the project's declared defaults change under the configured directory (not a meson command: no model event)
            edit_project(src)
            w = pw
        elif kind == 'X':
            p = os.path.join(d, CODE2REL[D])
            if _ == 'T':
                open(p, 'w').close()
            else:
                os.remove(p)
            w = pw + [ev_wire(hist[-1])]
        elif kill is None:
            order = None
            if kind in WIPES:
                rec = lab.record(pdir, kind, D, area, style, src)
                order = rec['order']
            if kind == 'M':
                open(os.path.join(src, 'native.ini'), 'w').write(NATIVE_INI)
            r = T.meson(cmd_args(kind, D, d, src), lab.pyc, stdin_text=NATIVE_FILE_TEXT if kind == 'N' else None)
            if r.returncode != 0:
                raise HarnessError('history command failed: %s\n%s' % (cmd_text(kind, D), (r.stdout + r.stderr)[-800:]))
            w = pw + [ev_wire((kind, D, order, None), world_at(hist))]
        else:
            rec = lab.record(pdir, kind, D, area, style, src)
            if kill == 'core-gone':
                # the first kill point after coredata.dat has been unlinked
                kill = rec['tokens'].index('Uc') + 1
            pts = [p for p in rec['points'] if p['k'] == kill and p['state_file']]
            if not pts:
                raise HarnessError('no kill point with model index %s in %s' % (kill, cmd_text(kind, D)))
            if pdir is not None:
                shutil.rmtree(d)
            d2 = lab.kill(pdir, kind, D, rec, pts[0], area, style, src)
            if not d2['hit']:
                raise HarnessError('kill point missed while building a history')
            d = d2['dir']
            w = pw + [ev_wire((kind, D, rec['order'] if kind in WIPES else None, kill), world_at(hist))]
        self.bases[key] = (d, w)
        return self.bases[key]


def select_points(points, thorough, stride=7):
    if thorough:
        return list(points)
    sel, rest = [], 0
    for p in points:
        if p['j'] == 0 or p['state_file']:
            sel.append(p)
        else:
            rest += 1
            if rest % stride == 0:
                sel.append(p)
    return sel


def thin_info(points, keep_every=3):
    """quick tier: the twelve identical intro-file triples (open tmp, write, replace) are sampled"""
    out, n = [], 0
    for p in points:
        if p['target'].startswith('meson-info/') and p['j'] != 0:
            n += 1
            if n % keep_every:
                continue
        out.append(p)
    return out


def do_replay(ctx):
    rec = json.load(open(ctx.replay))
    r = rec['replay']
    print('replaying', json.dumps({k: v for k, v in r.items() if k != 'history_wire'})[:1500])
    lab = Lab(ctx)
    T.meson(['--version'], lab.pyc)
    run = Runner(ctx, lab)
    hist = [tuple(e) for e in r['history']]
    hist = [(e[0], [tuple(x) for x in e[1]] if e[0] != 'X' else e[1], e[2], e[3]) for e in hist]
    srctag = ('cpp000' if r.get('project') == 'cpp' else 'p000') if r.get('private_project_copy') else ''
    src = lab.src_for(srctag)
    base, hw = run.build_history(hist, r.get('style', 'plain'), srctag)
    kind, D = r['command'][0], [tuple(x) for x in r['command'][1]]
    area = lab.area('replay')
    style = r.get('style', 'plain')
    rc = lab.record(base, kind, D, area, style, src)
    if r.get('j') == -1:
        print('command        :', cmd_text(kind, D), ' (NOT killed) in a directory named like %r -> exit %s' % (STYLES[style] % 1, rc['rc1']))
        for l in [l for l in rc['out1'].strip().split('\n') if l.strip()][-4:]:
            print('                 ', l[:300])
        ctx.cleanup()
        return 0
    pts = [p for p in rc['points'] if p['what'] == r.get('what')] or [p for p in rc['points'] if p['j'] == r.get('j')]
    if not pts:
        print('kill point not found in this tree; points are:', [p['what'] for p in rc['points']][:80])
        ctx.cleanup()
        return 1
    kd = lab.kill(base, kind, D, rc, pts[0], area, style, src)
    print('command        :', cmd_text(kind, D), ' killed on entry to', pts[0]['what'], '(hit=%s)' % kd['hit'])
    refs = sorted({r['ninja'] for r in lab.classify([x for x in (base, rc['full_dir']) if x], []) if r.get('ninja')})
    pre = lab.classify([kd['dir']], refs)[0]
    print('state files    :', pre['state'])
    f = lab.followup(kd['dir'], src)
    post = lab.classify([kd['dir']], [])[0]
    print('follow-up      : meson setup%s -> exit %d (%s)' % (' --reconfigure' if f['followup'] == 'reconfigure' else '', f['rc'], f['cls']))
    for t in f['tail']:
        print('                 ', t)
    print('values reported:', {k: VALUES[k][v] if v < len(VALUES[k]) else v for k, v in (post['intro_values'] or {}).items()} if f['rc'] == 0 else '-')
    if ctx.build('Props/C09.v', 'Crash/Extract.v', 'C09'):
        m = ctx.run_model([('crash', [lab.env_wire(), '\x02'.join(hw), ev_wire((kind, D, rc['order'] if kind in WIPES else None, None), world_at(hist)),
                                      str(pts[0]['k']), KEYS_WIRE])])[0]
        print('model          :', m)
    ctx.cleanup()
    return 0


def run(ctx):
    if ctx.replay:
        return do_replay(ctx)
    rng = ctx.rng
    thorough = ctx.tier == 'thorough'
    built = ctx.build('Props/C09.v', 'Crash/Extract.v', 'C09')
    lab = Lab(ctx)
    runner = Runner(ctx, lab)
    t0 = time.time()
    # warm the byte-code cache (outside the tree under test) and learn the file-name tables
    T.meson(['--version'], lab.pyc)
    ref_area = lab.area('ref000')
    ref = lab.record(None, 'S', [(0, 1)], ref_area)
    if ref['rc'] != 0:
        raise HarnessError('reference `meson setup` failed under strace: ' + ref['out'])
    refc = lab.record(ref['full_dir'], 'C', [(0, 2)], ref_area)
    lab.cinfo = sorted({int(t.split('>I')[1]) for t in refc['tokens'] if t.startswith('RT>I')})
    # configure's order of intro files
    lab.cinfo = [int(t.split('>I')[1]) for t in refc['tokens'] if t.startswith('RT>I')]
    ctx.extra['mutation_points_of_a_first_setup'] = len(ref['points'])
    ctx.extra['state_file_points_of_a_first_setup'] = sum(1 for p in ref['points'] if p['state_file'])
    ctx.extra['traced_calls_of_a_first_setup'] = ref['evs']

    scs = scenarios(thorough, rng)
    jobs = []          # one per scenario
    plan = []
    for n, sc in enumerate(scs):
        hist = sc[1]
        style = sc[3] if len(sc) > 3 else 'plain'
        srctag = ('p%03d' % n) if any(e[0] in 'ME' for e in hist) else ''
        if len(sc) > 4 and sc[4]:
            srctag = sc[4] + '%03d' % n
        plan.append((hist, style, srctag))
    for L in range(1, max([len(h) for h, _, _ in plan] + [0]) + 1):
        todo = {style + '|' + srctag + '|' + json.dumps(h[:L]): (h[:L], style, srctag) for h, style, srctag in plan if len(h) >= L}
        pmap(lambda t: runner.build_history(*t), list(todo.values()))
    for sc in scs:
        sid, hist, (kind, D) = sc[:3]
        style = sc[3] if len(sc) > 3 else 'plain'
        # histories that edit the project or use a machine file get a private copy of the project
        srctag = ('p%03d' % len(jobs)) if any(e[0] in 'ME' for e in hist) else ''
        if len(sc) > 4 and sc[4]:
            srctag = sc[4] + '%03d' % len(jobs)
        base, hw = runner.build_history(hist, style, srctag)
        jobs.append({'id': sid + ('' if style == 'plain' else ' [%s directory name]' % style), 'hist': hist, 'hw': hw, 'base': base,
                     'kind': kind, 'D': D, 'style': style, 'srctag': srctag, 'src': lab.src_for(srctag),
                     'unmodelled_values': False, 'extra_followups': sc[5] if len(sc) > 5 else []})
    ctx.extra['history_build_s'] = round(time.time() - t0, 1)

    # --- recordings (parallel)
    def rec_job(jb):
        jb['area'] = lab.area('s' + hashlib.sha1(jb['id'].encode()).hexdigest()[:5])
        jb['rec'] = lab.record(jb['base'], jb['kind'], jb['D'], jb['area'], jb['style'], jb['src'])
        return jb
    pmap(rec_job, jobs)
    env_w = lab.env_wire()
    model_cases, model_meta = [], []
    kills = []
    for jb in jobs:
        rec = jb['rec']
        jb['cmd_wire'] = ev_wire((jb['kind'], jb['D'], rec['order'] if jb['kind'] in WIPES else None, None), world_at(jb['hist']))
        model_cases.append(('ops', [env_w, '\x02'.join(jb['hw']), jb['cmd_wire']]))
        model_meta.append(('ops', jb, None))
        pts = select_points(rec['points'], thorough)
        if not thorough:
            pts = thin_info(pts)
            if jb['id'].startswith('killed-wipe(coredata gone)/setup'):
                pts = [p for p in pts if p['j'] == 0 or 'cmd_line' in p['target'] or 'coredata.dat' == os.path.basename(p['target'])]
            if jb['id'].startswith('edited-defaults'):
                # quick tier: everything around coredata.dat (the file these scenarios are about) + a sample of the rest
                pts = [p for n, p in enumerate(pts) if p['j'] == 0 or 'coredata' in p['target'] or n % 6 == 0]
            if jb['id'].startswith('cpp-modules'):
                keep = {p['j'] for n, p in enumerate(pts) if n % 6 == 0}
                pts = [p for p in rec['points'] if p['j'] == 0 or '.p/' in p['target'] or p['j'] in keep]
            if jb['id'].startswith('machine-file-from-pipe/wipe --'):
                pts = [p for n, p in enumerate(pts) if p['j'] == 0 or n % 2 == 0]
            elif jb['id'].startswith('machine-file'):
                pts = [p for n, p in enumerate(pts) if p['j'] == 0 or n % 5 == 0]
            if jb['id'].startswith('random'):
                pts = [p for n, p in enumerate(pts) if p['j'] == 0 or n % 3 == 0]
            if (jb['id'].startswith('killed-configure(cmd_line updated)/wipe-D') or jb['id'].startswith('edited-defaults/wipe-D')) and 'Uc' in rec['tokens']:
                # quick tier: only the window around the deletion of coredata.dat
                kc = rec['tokens'].index('Uc')
                pts = [p for p in pts if p['j'] == 0 or (p['state_file'] and kc - 1 <= p['k'] <= kc + 3)]
        jb['selected'] = pts
        for p in pts:
            kills.append((jb, p))
    ctx.extra['scenarios'] = len(jobs)
    ctx.extra['kill_points_total'] = sum(len(jb['rec']['points']) for jb in jobs)
    ctx.extra['kill_points_run'] = len(kills)
    ctx.extra['exhaustive'] = bool(thorough)

    # --- kill runs (parallel), crashed-state classification, follow-ups, post classification
    def kill_job(x):
        jb, p = x
        return lab.kill(jb['base'], jb['kind'], jb['D'], jb['rec'], p, jb['area'], jb['style'], jb['src'])
    t1 = time.time()
    kres = pmap(kill_job, kills)
    # complete runs as the "new" reference: follow-up on the recording's directory
    full_dirs = [jb['rec']['full_dir'] for jb in jobs]
    refs_pre = lab.classify(full_dirs + [jb['base'] for jb in jobs if jb['base']], [])
    ninja_refs = sorted({r['ninja'] for r in refs_pre if r.get('ninja')})
    pre = lab.classify([k['dir'] for k in kres], ninja_refs)
    ctx.extra['kill_runs_s'] = round(time.time() - t1, 1)
    t2 = time.time()
    extra = [(i, kills[i][0]) for i in range(len(kres)) if 'wipe' in kills[i][0]['extra_followups']]

    def wipe_followup(x):
        i, jb = x
        d2 = lab.newdir(jb['area'], jb['style'])
        T.relocate(kres[i]['dir'], d2)
        r = T.meson(['setup', '--wipe', d2, jb['src']], lab.pyc)
        out = r.stdout + r.stderr
        return {'rc': r.returncode, 'tail': [l[:200] for l in out.strip().split('\n') if l.strip()][-2:] if r.returncode else []}
    wres = dict(zip([i for i, _ in extra], pmap(wipe_followup, extra)))
    fres = pmap(lambda x: lab.followup(x[0], x[1]), [(k['dir'], kills[i][0]['src']) for i, k in enumerate(kres)] + [(jb['rec']['full_dir'], jb['src']) for jb in jobs])
    post = lab.classify([k['dir'] for k in kres] + full_dirs, ninja_refs + [], wellformed=True)
    # build.ninja after a follow-up is a new complete file: accept any content there
    ctx.extra['followups_s'] = round(time.time() - t2, 1)

    nk = len(kres)
    missed = [(kills[i][0]['id'], kills[i][1]['what']) for i in range(nk) if not kres[i]['hit']]
    if missed:
        raise HarnessError('strace did not kill at the requested point for %d kill runs, e.g. %s' % (len(missed), missed[:3]))
    unstable = 0
    for i, (jb, p) in enumerate(kills):
        f, po = fres[i], post[i]
        vals = po['intro_values'] if f['rc'] == 0 else None
        obs = {'j': p['j'], 'what': p['what'], 'k': p['k'], 'state': pre[i]['state'], 'followup': f['followup'], 'rc': f['rc'],
               'cls': f['cls'], 'values': vals, 'msg_values': f['msg_values'], 'post': _fix_ninja(po['state']) if f['rc'] == 0 else None,
               'pre_missing': pre[i].get('missing_machine_files'), 'post_missing': po.get('missing_machine_files') if f['rc'] == 0 else None,
               'wipe_followup': wres.get(i),
               'ninja': po.get('ninja') if f['rc'] == 0 else None, 'problems': po.get('problems') if f['rc'] == 0 else None,
               'tail': f['tail'], 'stable': kres[i]['stable']}
        jb.setdefault('obs', []).append(obs)
        # distinct = distinct crashed states per scenario; trivial = nothing mutated yet (state of kill point 0)
        base_state = jb['obs'][0]['state']
        ctx.count((jb['id'], obs['state']), nontrivial=(obs['state'] != base_state))
        if not kres[i]['stable'] or jb['rec']['tokens'] != jb['rec']['tokens1']:
            unstable += 1
            continue
        if jb['unmodelled_values']:
            # option values come from a machine file / edited declared defaults: outside the model; op sequence + oracle only
            continue
        model_cases.append(('crash', [env_w, '\x02'.join(jb['hw']), jb['cmd_wire'], str(p['k']), KEYS_WIRE]))
        model_meta.append(('crash', jb, obs))
    ctx.extra['kill_runs_with_a_different_call_order_than_the_recording'] = unstable
    for n, jb in enumerate(jobs):
        f, po = fres[nk + n], post[nk + n]
        jb['new'] = po['intro_values'] if f['rc'] == 0 else None
        jb['new_cls'] = f['cls']
        # build.ninja of the uninterrupted runs of this scenario (path-normalised): before the command, after it, after its follow-up
        withbase = [x for x in jobs if x['base']]
        jb['ninja_refs'] = sorted({h for h in [refs_pre[n].get('ninja'), po.get('ninja') if f['rc'] == 0 else None] +
                                   [refs_pre[len(jobs) + i].get('ninja') for i, x in enumerate(withbase) if x is jb] if h})

    # --- damage table (recovery decisions on unreachable states)
    dmg = []
    for did, hist in DAMAGE:
        base, hw = runner.build_history(hist)
        d = lab.newdir(lab.area('dmg000'))
        T.relocate(base, d)
        dmg.append({'id': did, 'hw': hw, 'dir': d})
    dpre = lab.classify([x['dir'] for x in dmg], ninja_refs)
    dfol = pmap(lambda x: lab.followup(x['dir']), dmg)
    dpost = lab.classify([x['dir'] for x in dmg], ninja_refs)
    for x, a, f, b in zip(dmg, dpre, dfol, dpost):
        obs = {'what': x['id'], 'state': a['state'], 'followup': f['followup'], 'cls': f['cls'],
               'values': b['intro_values'] if f['rc'] == 0 else None, 'post': _fix_ninja(b['state']) if f['rc'] == 0 else None}
        model_cases.append(('state', [env_w, '\x02'.join(x['hw']), KEYS_WIRE, '', '']))
        model_meta.append(('state', x, obs))

    # --- model vs implementation
    model = ctx.run_model(model_cases) if built else [None] * len(model_cases)
    for (fn, args), (tag, jb, obs), mo in zip(model_cases, model_meta, model):
        if tag == 'ops':
            rec = jb['rec']
            impl = ('ok' if rec['rc1'] == 0 else 'fail') + '|' + ' '.join(rec['tokens1'])
            ctx.count(('ops', jb['id']))
            if mo is not None and _ops_norm(mo) != impl:
                ctx.disagreements.append({'scenario': jb['id'], 'command': cmd_text(jb['kind'], jb['D']), 'observable': 'op sequence',
                                          'implementation': impl, 'model': mo})
        else:
            ok = obs['post'] is not None and all_whole(obs['post'])
            impl = '|'.join([obs['state'], obs['followup'], obs['cls'], vals_wire(obs['values']) if obs['cls'] == 'ok' else '-',
                             'T' if ok else 'F'])
            if tag == 'state':
                ctx.count((tag, jb['id'], obs['what']))
            if mo is not None:
                mm = mo.split('|')
                if mm[2] != 'ok':
                    mm[4] = 'F'
                if '|'.join(mm) != impl:
                    ctx.disagreements.append({'scenario': jb['id'], 'kill_point': obs['what'], 'model_index': obs.get('k'),
                                              'observable': 'state files | follow-up | outcome | values | all whole afterwards',
                                              'implementation': impl, 'model': '|'.join(mm)})
    ctx.cov['traces_validated_against_impl'] = len(model_cases)
    if built:
        ctx.kernel_crosscheck('Crash.Entry', model_cases, model, limit=120 if not thorough else 300)

    # --- oracle: the property's clauses on the implementation's answers
    osc = []
    for jb in jobs:
        obs = jb.get('obs', [])
        first = next((o for o in obs if o['j'] == 0), None)
        osc.append({'id': jb['id'], 'old': first['values'] if first else None, 'new': jb['new'], 'ninja_refs': jb.get('ninja_refs', []),
                    'points': [{k: o[k] for k in ('j', 'what', 'rc', 'cls', 'values', 'msg_values', 'post', 'tail', 'ninja', 'problems', 'pre_missing', 'post_missing')} for o in obs]})
    fails = run_impl('c09.py', {'oracle': osc}, env={'PYTHONPYCACHEPREFIX': lab.pyc})['oracle']
    disagreeing = {(d.get('scenario'), d.get('kill_point')) for d in ctx.disagreements}
    for jb, fl in zip(jobs, fails):
        hist_txt = '; '.join((cmd_text(e[0], e[1]) + (' (killed at mutation %s)' % e[3] if e[3] is not None else '')) if e[0] != 'X'
                             else 'damage ' + e[1] for e in jb['hist']) or 'empty directory'
        replay_base = {'history': jb['hist'], 'command': [jb['kind'], jb['D']], 'style': jb['style'], 'private_project_copy': bool(jb['srctag']), 'project': jb['srctag'][:3] if jb['srctag'].startswith('cpp') else '',
                       'build_directory_name_like': STYLES[jb['style']] % 1}
        if jb['rec']['rc1'] != 0:
            ctx.violation('C09:command-fails:' + jb['id'],
                          '`meson %s` on [%s] in a build directory named like %r FAILS although it is not killed (exit %s): %s'
                          % (cmd_text(jb['kind'], jb['D']), hist_txt, STYLES[jb['style']] % 1, jb['rec']['rc1'],
                             ' / '.join(l for l in jb['rec']['out1'].strip().split('\n') if l.strip())[-400:]),
                          dict(replay_base, j=-1))
        elif jb['new'] is None:
            ctx.violation('C09:command-fails:' + jb['id'], 'the follow-up after the COMPLETE command `%s` fails (%s)' % (cmd_text(jb['kind'], jb['D']), jb['new_cls']),
                          dict(replay_base, j=-1))
        # alternative recovery: `meson setup --wipe` on a copy of the killed directory must succeed too
        wfail = [o for o in jb.get('obs', []) if o.get('wipe_followup') and o['wipe_followup']['rc'] != 0]
        if wfail:
            o = wfail[0]
            ctx.violation('C09:followup-fails(--wipe):' + jb['id'],
                          '`meson %s` on [%s], killed on entry to %s: recovering with `meson setup --wipe` exits %s: %s  (%d kill point(s): %s)'
                          % (cmd_text(jb['kind'], jb['D']), hist_txt, o['what'], o['wipe_followup']['rc'], ' / '.join(o['wipe_followup']['tail']),
                             len(wfail), ', '.join(x['what'] for x in wfail[:6])),
                          dict(replay_base, j=o['j'], what=o['what'], recovery='setup --wipe'))
        groups = {}
        for f in fl:
            groups.setdefault((f['kind'], f.get('key')), []).append(f)
        for (kind, key), fs in groups.items():
            f = fs[0]
            pt = next((p for p in jb['selected'] if p['j'] == f['j']), None)
            what_pt = pt['what'] if pt else '?'
            dec = lambda v: (VALUES[key][v] if key in VALUES and isinstance(v, int) and v < len(VALUES[key]) else v)
            if kind == 'neither-old-nor-new':
                detail = 'option %s is %r afterwards; before the command it was %r, the command was setting %r' % (
                    key, dec(f['got']), dec(f['old']), dec(f['new']))
            elif kind == 'state-file-malformed-after-followup':
                detail = 'the follow-up exits 0 but the build.ninja / compile_commands.json it wrote is malformed: ' + '; '.join(f['problems'])
            elif kind == 'build.ninja-differs-from-uninterrupted-run':
                detail = 'the follow-up exits 0 but the build.ninja it wrote is not the file an uninterrupted run writes (sha1 %s, expected one of %s)' % (
                    f['sha1_after_recovery'][:12], [h[:12] for h in f['sha1_of_uninterrupted_runs']])
            elif kind in ('recorded-machine-file-missing', 'recorded-machine-file-missing-after-followup'):
                detail = 'cmd_line.txt [properties] names a machine file that no longer exists: ' + '; '.join(f['files'])
            elif kind == 'followup-fails':
                detail = 'the follow-up exits with %s: %s' % (f['class'], ' / '.join(f.get('detail') or [])[-300:])
            else:
                detail = json.dumps({k: v for k, v in f.items() if k != 'ident'})
            what = ('`meson %s` on [%s], killed on entry to %s: %s  (%d kill point(s) of this scenario fail this way: %s)'
                    % (cmd_text(jb['kind'], jb['D']), hist_txt, what_pt, detail, len(fs),
                       ', '.join(x['ident'].split('@', 1)[1] for x in fs[:6]) + (' ...' if len(fs) > 6 else '')))
            # the recorded finding: --wipe WITH new -D settings on a directory an EARLIER kill left with
            # coredata.dat and cmd_line.txt disagreeing (model: C09_old_or_new_after_kills_refuted).  Classified as
            # that finding only when the model predicts exactly the implementation's answer at these points.
            earlier_kill = any(e[0] != 'X' and e[3] is not None for e in jb['hist'])
            agrees = built and all((jb['id'], x['ident'].split('@', 1)[1]) not in disagreeing for x in fs)
            # the recorded finding: after a killed --wipe (coredata.dat gone, cmd_line.txt kept) the plain `meson setup`
            # applies the recorded -D options but NOT the recorded machine files.  Classified as that finding only when the
            # history configured the directory with a machine file, the command is --wipe and coredata.dat is absent
            # at every failing kill point.
            st_of = {o['j']: o['state'] for o in jb.get('obs', [])}
            core_gone = all(' c=A ' in (' ' + st_of.get(x['j'], '') + ' ') for x in fs)
            if kind == 'neither-old-nor-new' and earlier_kill and jb['kind'] == 'W' and jb['D'] and agrees:
                ident = 'C09:neither-old-nor-new:wipe-with-options-after-a-killed-command'
            elif kind == 'neither-old-nor-new' and jb['kind'] == 'W' and jb['D'] and agrees and core_gone \
                    and any(e[0] == 'E' for e in jb['hist']) and key in [KEYS[k] for k, _ in jb['D']]:
                # the same family without any kill: the declared default of an option the wipe sets changed after the
                # first setup (model: C09_old_or_new_after_edit_refuted)
                ident = 'C09:neither-old-nor-new:wipe-with-options-after-the-declared-default-changed'
            elif kind == 'neither-old-nor-new' and jb['kind'] == 'W' and any(e[0] == 'M' for e in jb['hist']) and core_gone \
                    and key in ('c', 'warning_level'):
                ident = 'C09:neither-old-nor-new:machine-file-not-applied-by-setup-after-a-killed-wipe'
            else:
                ident = 'C09:%s:%s%s' % (kind, jb['id'], (':' + key) if key else '')
            ctx.violation(ident, what, dict(replay_base, j=f['j'], what=what_pt, failure=f,
                                            all_failing_points=[x['ident'].split('@', 1)[1] for x in fs]))
    for jb in jobs[:3]:
        ctx.sample({'scenario': jb['id'], 'history': [cmd_text(e[0], e[1]) for e in jb['hist'] if e[0] != 'X'], 'command': cmd_text(jb['kind'], jb['D']),
                    'op_sequence': ' '.join(jb['rec']['tokens']), 'kill_points': len(jb['rec']['points']),
                    'example_point': jb.get('obs', [{}])[len(jb.get('obs', [])) // 2]})
    ctx.extra['strace_runs'] = lab.strace_runs
    ctx.extra['input_distribution'] = {jb['id']: {'points': len(jb['rec']['points']), 'run': len(jb['selected']),
                                                  'model_ops': len(jb['rec']['tokens'])} for jb in jobs}
    ctx.extra['damage_states'] = len(dmg)
    return ctx.finish(
        level='proof',
        trusted=['Coq 8.16.1 kernel (coqc, vm_compute; no native_compute)',
                 'extraction with ExtrOcamlBasic directives only + OCaml + extract/driver.ml (cross-checked in-kernel on a sample each run)',
                 'strace 6.1 path-filtered syscall tracing and signal injection (kill on entry to the m-th matching call); harness/c09_trace.py log parser',
                 'harness/check_C09.py scenario list / canonicaliser and harness/impl/c09.py (real loaders classify the state files)',
                 'crash model = process death with a coherent page cache (no power-loss reordering); pickle contents abstract; '
                 'not modelled: -U, machine files, failing (exception) runs, external edits, meson.lock/log/ignore files'],
        assumptions=['Print Assumptions: all property theorems closed under the global context (no axioms)',
                     'kill granularity = system call entry of the main meson process (torn = truncated or cut between write calls)'],
        rule='scenario = (directory history, mutating command); every file-system mutation of the command under the build directory is a kill point '
             '(thorough: all of them; quick: all that touch a state file except 2/3 of the identical intro-file triples, plus every 7th other); each point = one '
             'real run killed by strace on entry to that call + one real follow-up; evaluations = kill points run + op-sequence comparisons + damaged directories; '
             'distinct_nontrivial = distinct (scenario, crashed state of all state files as the real loaders see it) that differ from the untouched directory '
             '(kill points between two state-file mutations share a crashed state and count once)')


def _ops_norm(mo):
    out, toks = mo.split('|', 1)
    return ('ok' if out == 'ok' else 'fail') + '|' + toks


def _fix_ninja(state):
    """after a completed follow-up build.ninja is whatever that run generated: it is judged
    by existence only (its content legitimately differs from the reference runs)"""
    return re.sub(r'\bN=T\b', 'N=W', state)
