"""C19 — version comparison is a consistent order; constraint logic is sound.
Theorems: coq/Props/C19.v.  Model: coq/Version/{Unicode,Model,Feature,Search}.v.  Implementation:
mesonbuild/utils/universal.py (Version, version_compare*, Range, version_check_to_range,
version_compare_condition_with_min, search_version) and mesonbuild/interpreterbase/decorators.py
(FeatureNew / FeatureDeprecated / FeatureBroken: check_version, use, report)."""
import itertools, json
from common import *

SEP2, MARK, SEP4 = '\x02', '\x03', '\x04'
ALPHA = ['0', '1', '2', '9', '10', '00', '01', '007', '12', 'a', 'b', 'rc', 'Z', 'aa', 'beta', 'A']
SEPS = ['.', '-', '_', '+', '~', ':', ' ', '', '..', '\t', 'é', '€', '/']
OPSP = ['<', '<=', '==', '=', '!=', '>=', '>', '']
# starts of some Unicode decimal-digit blocks (Arabic-Indic, Devanagari, Thai, fullwidth, mathematical bold, Adlam)
UBLOCKS = [0x660, 0x6F0, 0x966, 0xE50, 0xFF10, 0x1D7CE, 0x1D7D8, 0x1E950, 0x1FBF0]
BLANKS = [' ', '\t', '\n', '\x0b', '\x1f', '\x85', '\xa0', '\u2003', '\u3000', '\u200b']   # the last one is NOT a blank
INT_LIMIT = 4300


def gen_digits(rng):
    k = rng.random()
    if k < 0.5:
        return rng.choice(['0', '1', '2', '9', '10', '12', '99', '100'])
    if k < 0.65:   # leading zeros
        return '0' * rng.randint(1, 4) + rng.choice(['', '1', '9', '10'])
    if k < 0.8:    # long runs (value compared numerically, far beyond 64 bits)
        n = rng.choice([18, 19, 20, 21, 38, 39, 40, 60])
        return rng.choice(['1', '9', '0']) + ''.join(rng.choice('0189') for _ in range(n - 1))
    # Unicode decimal digits, possibly mixed with ASCII ones inside one run
    b = rng.choice(UBLOCKS)
    return ''.join(chr(b + rng.randint(0, 9)) if rng.random() < 0.7 else rng.choice('019') for _ in range(rng.randint(1, 3)))


def gen_version(rng):
    k = rng.choice([0, 1, 1, 2, 2, 3, 3, 4, 5])
    parts = []
    for i in range(k):
        r = rng.random()
        if r < 0.6:
            parts.append(rng.choice(ALPHA))
        elif r < 0.85:
            parts.append(gen_digits(rng))
        else:      # mixed alnum components without separator: 1a2, rc1, 2B
            parts.append(rng.choice(['1a2', 'rc1', '2B', 'a1', '0x1F', '1e5', 'B2b']))
        if i + 1 < k or rng.random() < 0.15:
            parts.append(rng.choice(SEPS))
    s = ''.join(parts)
    r = rng.random()
    if r < 0.1:
        s = rng.choice([' ', '\t', 'v', '-']) + s
    elif r < 0.13:
        s = rng.choice(['.', '..', '-.-', '  ', '\u3000', '\ud800', '\U0010ffff']) + (s if rng.random() < 0.5 else '')
    elif r < 0.16:
        s = s.swapcase()
    if rng.random() < 0.05:
        s = s + rng.choice([' ', '\n', ' ', '\xa0'])
    return s


def gen_check(rng, w=None):
    sp = rng.choice(OPSP)
    w = gen_version(rng) if w is None else w
    r = rng.random()
    if r < 0.3:
        w = ' ' + w
    elif r < 0.4:
        w = rng.choice(BLANKS) + w + rng.choice(BLANKS)
    c = sp + w
    r = rng.random()
    if r < 0.05:
        c = ' ' + c            # a blank BEFORE the operator: the operator is not recognised
    elif r < 0.08 and len(sp) == 2:
        c = sp[0] + ' ' + sp[1] + w   # a blank inside the operator
    elif r < 0.1:
        c = sp + sp + w        # operator twice
    return c


def gen_checklist(rng, pool, n=None):
    """constraint lists, with repeated and contradictory entries and equal bounds open/closed"""
    n = rng.randint(0, 4) if n is None else n
    r = rng.random()
    if r < 0.25 and n >= 2:
        v = rng.choice(pool)
        ops = [rng.choice(['<', '<=', '>', '>=', '==', '!=', '=', '']) for _ in range(n)]
        return [o + (v if rng.random() < 0.85 else rng.choice(pool)) for o in ops]
    cl = [gen_check(rng) if rng.random() < 0.4 else rng.choice(OPSP) + rng.choice(pool) for _ in range(n)]
    if cl and rng.random() < 0.2:
        cl.insert(rng.randint(0, len(cl)), rng.choice(cl))   # repeated entry
    return cl


def exhaustive_strings(symbols, maxlen):
    out = ['']
    for n in range(1, maxlen + 1):
        for t in itertools.product(symbols, repeat=n):
            out.append(''.join(t))
    return out


# ---------------------------------------------------------------- search_version texts
SV_DIG = ['1', '4', '12', '09', '100', '2020', '20140320', '12345', '0', '٣', '１２']
SV_WORD = ['gcc', '(GCC)', 'version', 'clang', 'LLVM', 'v', 'Sourcery', 'Lite', '(prerelease)', 'x86_64-linux-gnu',
           'Copyright', '(C)', 'ld.', 'rc', 'beta', '-', '--', 'a.b', '.', '..']
SV_GLUE = [' ', ' ', ' ', '', '\n', '\t', '-', '.', ',', ')', '(', ':', 'v', '\xa0', '\u3000', '_', '+']


def gen_dotted(rng):
    n = rng.choice([1, 2, 2, 3, 3, 4, 5])
    s = '.'.join(rng.choice(SV_DIG) for _ in range(n))
    r = rng.random()
    if r < 0.2:
        s += '-' + rng.choice(['rc1', 'beta', '29', 'git', 'x_y', '', 'é1', 'a.1'])
    elif r < 0.3:
        s += rng.choice(['.', '..', '.-1', '-'])
    return s


def gen_text(rng):
    parts = []
    for _ in range(rng.randint(0, 6)):
        parts.append(gen_dotted(rng) if rng.random() < 0.5 else rng.choice(SV_WORD))
        parts.append(rng.choice(SV_GLUE))
    if rng.random() < 0.3 and parts:
        parts.pop()
    return ''.join(parts)


# ---------------------------------------------------------------- FeatureNew / FeatureDeprecated cases
FVERS = ['0.46.0', '0.46', '0.47.0', '1.0.0', '1.1', '1.10.0', '0.0', '0', '1.0', '2.0.0', '0.46.0.0', '1.0.0rc1',
         '0.50.1', '1.9.9', '10.0', '.0', '', '0.460', '1.00.0', '1.0.00']
PVERS = ['0.46', '0.46.0', '0.47', '1.0', '1.0.0', '1.1', '1.9', '1.10', '2.0', '0', '0.45.9', '1']


def gen_feat(rng):
    kind = rng.choice(['new', 'new', 'new', 'dep', 'dep', 'brk'])
    major = rng.choice(['1', '1', '0', '2', '10'])
    tvk = rng.choice(['R', 'R', 'R', 'R', 'V', 'N'])
    pv = rng.choice(['>=', '>=', '>=', '>', '==', '<', '<=', '!=', '', '>= ']) + rng.choice(PVERS)
    conds = []
    for _ in range(rng.choice([0, 0, 0, 1, 1, 2, 3])):
        cs = [rng.choice(['>=', '>=', '<', '>', '<=', '==', '']) + rng.choice(PVERS) for _ in range(rng.choice([1, 1, 2, 3]))]
        conds.append(SEP2.join(cs))
    uses = []
    names = ['f', 'g', 'kw.x']
    for _ in range(rng.randint(1, 5)):
        ver = rng.choice(FVERS) if rng.random() < 0.85 else rng.choice(PVERS) + rng.choice(['.0', '.0.0', ''])
        uses.append(SEP2.join([rng.choice(names), ver, rng.choice(['', '', 'l1', 'l2'])]))
    return ('feat', [kind, major, tvk, pv] + conds + [MARK] + uses)


def replay(ctx):
    rec = json.load(open(ctx.replay))
    r = rec['replay']
    print('replaying', json.dumps(r)[:2000])
    if 'case' in r:
        res = run_impl('c19.py', {'cases': [r['case']]})
        print('implementation:', repr(res['results'][0])[:2000])
        ctx.build('Props/C19.v', 'Version/Extract.v', 'C19')
        print('model         :', repr(ctx.run_model([tuple(r['case'])])[0])[:2000])
    if 'oracle' in r:
        res = run_impl('c19.py', {'oracle': [r['oracle']]})
        print('property clauses failing on the implementation:', json.dumps(res['oracle'], indent=1))
    if 'feature_oracle' in r:
        res = run_impl('c19.py', {'feature_oracle': [r['feature_oracle']]})
        print('feature clauses failing on the implementation:', json.dumps(res['feature_oracle'], indent=1))
    return 0


EQ_BOUNDS = [['<2.0', '<=2.0'], ['<=2.0', '<2.0'], ['>2.0', '>=2.0'], ['>=2.0', '>2.0'], ['>=2.0', '<=2.0'],
             ['<=2.0', '>=2.0'], ['>2.0', '<=2.0'], ['>=2.0', '<2.0'], ['<2.0', '==2.0'], ['==2.0', '<2.0'],
             ['==2.0', '!=2.0'], ['!=2.0', '==2.0'], ['>=2.0', '!=2.0', '<=2.0'], ['<=2', '<=2.0'], ['<2.0', '<2.0'],
             ['>2.0'], ['>=2.0'], ['<2.0'], ['<=2.0'], ['==2.0'], ['!=2.0'], []]


def run(ctx):
    if ctx.replay:
        return replay(ctx)
    rng = ctx.rng
    thorough = ctx.tier == 'thorough'
    built = ctx.build('Props/C19.v', 'Version/Extract.v', 'C19')

    cases = []
    # corpus first
    corpus = [('cmp', ['1.9', '1.10']), ('cmp', ['1.0', '1_00']), ('cmp', ['1.a', '1.0']), ('cmp', ['', '0']),
              ('cmp', ['1.0', '1.0.0']), ('cmp', ['a', 'A']), ('vc', ['1.2.3', '>= 1.2']), ('vc', ['1.2.3', '=1.2.3']),
              ('many', ['1.5', '>=1.0', '<1.2', '!=1.5']), ('range', ['1.2', '>=1.2', '!=1.2', '<2.0']),
              ('isect', ['1.5', '>=1.0', MARK, '<2.0']), ('cwm', ['>=0.50', '0.49']), ('cwm', ['<0.50', '0.49']),
              ('cmp', ['1.٣', '1.3']), ('cmp', ['１２', '12']), ('cmp', ['1\U0001d7d81', '101']), ('tok', ['1٣a２.０7']),
              ('cmp', ['1' * 40, '9' * 39]), ('cmp', ['0' * 30 + '1', '1']), ('cmp', ['1a2', '1.a.2']),
              ('cmp', ['...', '']), ('cmp', ['1.0RC1', '1.0rc1']), ('vc', ['1.0', ' >=1.0']), ('vc', ['1.0', '>=\u3000 1.0\xa0']),
              ('vc', ['1.0', '> =1.0']), ('vc', ['1.0', '>=>=1.0']), ('vc', ['1.0', '']), ('vc', ['', '']),
              ('search', ['(Sourcery CodeBench Lite 2014.05-29) 4.8.3 20140320 (prerelease)']),
              ('search', ['gcc (GCC) 12.2.0']), ('search', ['blah 2020.01.100 foo']), ('search', ['blah 2020.01 foo']),
              ('search', ['clang version 14.0.0-1ubuntu1']), ('search', ['no version here']), ('search', ['']),
              ('search', ['1.2.3.']), ('search', ['x1.2']), ('search', ['.1.2 3.4']), ('search', ['123.4 5.6-']),
              ('search', ['12345.6']), ('search', ['1.2-rc.1']), ('search', ['٣.٤']),
              ('fnorm', ['0.46.0']), ('fnorm', ['0.0']), ('fnorm', ['.0']), ('fnorm', ['1.0.0.0']), ('fnorm', ['1.00']),
              ('feat', ['dep', '1', 'R', '>=0.46', MARK, 'f\x020.46.0\x02']),
              ('feat', ['new', '1', 'R', '>=0.46', '>=0.50', MARK, 'f\x020.47.0\x02', 'f\x020.47.0\x02', 'g\x020.51\x02l1']),
              ('feat', ['new', '1', 'V', '>=0.46', MARK, 'f\x020.47.0\x02', 'g\x021.0.0\x02']),
              ('feat', ['brk', '1', 'N', '>=0.46', MARK, 'f\x020.47.0\x02']),
              ('feat', ['new', '1', 'N', '>=0.46', MARK, 'f\x020.47.0\x02'])]
    # the int() digit limit: runs of exactly and just above 4300 digits (cmp/vc/tok only: every argument is parsed).
    # A 4300-digit run costs the extracted model seconds (binary N arithmetic), so quick has one, thorough several.
    corpus.append(('cmp', ['7' * INT_LIMIT, '1.0']))
    for n in (INT_LIMIT + 1, INT_LIMIT + 2, 2 * INT_LIMIT):
        corpus.append(('cmp', ['7' * n, '1.0']))
        corpus.append(('cmp', ['1.' + '0' * n, 'a' + '٣' * n + 'b']))
        corpus.append(('vc', ['1.0', '>=' + '1' * n]))
        corpus.append(('tok', ['x' + '１' * n]))
    corpus.append(('cmp', ['1' * 700 + '.' + '2' * 700, '1' * 700 + 'x' + '٢' * 700]))
    corpus.append(('vc', ['0' * 900 + '1', '==1']))
    if thorough:
        corpus.append(('cmp', ['1.' + '0' * INT_LIMIT, 'a' + '٣' * (INT_LIMIT - 1) + 'b']))
        corpus.append(('vc', ['1.0', '>=' + '1' * INT_LIMIT]))
        corpus.append(('cmp', ['1' * INT_LIMIT + '.' + '2' * INT_LIMIT, '1' * INT_LIMIT + 'x' + '2' * (INT_LIMIT + 1)]))
    cases += corpus
    for a, b in itertools.product(EQ_BOUNDS, repeat=2):       # equal bounds, open/closed, both operand orders
        cases.append(('isect', ['2.0'] + a + [MARK] + b))
    for a in EQ_BOUNDS:
        for x in ('1.9', '2.0', '2', '2.0.0', '2.1', ''):
            cases.append(('range', [x] + a))
    npairs = 600000 if thorough else 30000
    nrange = 150000 if thorough else 4000
    pool = [gen_version(rng) for _ in range(400 if thorough else 150)]
    for _ in range(npairs):
        a = rng.choice(pool) if rng.random() < 0.7 else gen_version(rng)
        b = rng.choice(pool) if rng.random() < 0.7 else gen_version(rng)
        k = rng.random()
        if k < 0.45:
            cases.append(('cmp', [a, b]))
        elif k < 0.55:
            cases.append(('tok', [a]))
        elif k < 0.8:
            cases.append(('vc', [a, gen_check(rng, b)]))
        elif k < 0.9:
            cases.append(('many', [a] + gen_checklist(rng, pool)))
        else:
            cases.append(('cwm', [gen_check(rng), a]))
    for _ in range(nrange):
        x = rng.choice(pool)
        ca = gen_checklist(rng, pool)
        if rng.random() < 0.5:
            cases.append(('range', [x] + ca))
        else:
            cb = gen_checklist(rng, pool, rng.randint(0, 3))
            cases.append(('isect', [x] + ca + [MARK] + cb))
    if thorough:
        # exhaustive: all strings of length <= 4 over a 7-symbol alphabet, pairwise (cmp)
        ex = exhaustive_strings(['1', '0', '9', 'a', 'B', '.', '-'], 4)
        ctx.extra['exhaustive_strings'] = len(ex)
        sub = ex if len(ex) <= 2801 else ex[:2801]
        for a in sub:
            for b in sub[::3]:
                cases.append(('cmp', [a, b]))
        ctx.extra['exhaustive'] = False
    else:
        ex = exhaustive_strings(['1', '0', 'a', '.'], 3)
        for a in ex:
            for b in ex:
                cases.append(('cmp', [a, b]))
    # search_version, feature glue
    nsearch = 600000 if thorough else 6000
    nfeat = 300000 if thorough else 4000
    for _ in range(nsearch):
        cases.append(('search', [gen_text(rng)]))
    exs = exhaustive_strings(['1', '.', '-', ' ', 'a'], 7 if thorough else 5)
    if thorough:
        exs += exhaustive_strings(['1', '23', '.', '-', ' ', 'a', '\u0663', ','], 5)
    ctx.extra['search_exhaustive_texts'] = len(exs)
    for t in exs:
        cases.append(('search', [t]))
    for _ in range(nfeat):
        cases.append(gen_feat(rng))
        if rng.random() < 0.1:
            cases.append(('fnorm', [rng.choice(FVERS + pool)]))
    # every code point against re \d / [a-zA-Z] / int() / str.strip(), in blocks of 4096
    sweep_cases = [('sweep', [str(lo), '4096']) for lo in range(0, 0x110000, 4096)]
    ctx.extra['code_points_swept'] = 0x110000
    ctx.extra['exhaustive_code_points'] = True   # digit class, digit value, letter class, blank class of every code point

    # implementation
    CH = 200000
    impl = []
    for i in range(0, len(cases), CH):
        impl += run_impl('c19.py', {'cases': cases[i:i + CH]})['results']
    impl_sweep = run_impl('c19.py', {'cases': sweep_cases})['results']
    model = ctx.run_model(cases) if built else impl
    model_sweep = ctx.run_model(sweep_cases, shards=NPROC) if built else impl_sweep
    kinds = {}
    for (fn, args), ri, rm in zip(cases, impl, model):
        ctx.count((fn, tuple(args)), nontrivial=True)
        kinds[fn] = kinds.get(fn, 0) + 1
        if ri == rm:
            if ri == 'EXC:ValueError' and max(map(len, args)) > INT_LIMIT:
                ctx.violation('C19:int-max-str-digits', 'Version() raises ValueError on a run of more than 4300 digits: %s(%s)'
                              % (fn, ', '.join('%s...[%d chars]' % (a[:12], len(a)) for a in args)), {'case': [fn, args]})
            continue
        if fn == 'feat' and built:
            mi, mm = ri.split(SEP4), rm.split(SEP4)
            if len(mi) == 5 and len(mm) == 6 and mi[:4] == mm[:4]:
                if mi[4] == mm[4]:
                    continue
                if mi[4] == mm[5]:
                    ctx.violation('C19:report-unnormalised-version', 'report() lists a feature whose usage warning was printed under the '
                                  'notice heading (or the reverse): it compares the version as registered, use() the normalised one: %s'
                                  % json.dumps(args), {'case': [fn, args]})
                    continue
        if len(ctx.disagreements) < 200:
            ctx.disagreements.append({'case': [fn, args], 'implementation': ri, 'model': rm})
    for (fn, args), ri, rm in zip(sweep_cases, impl_sweep, model_sweep):
        ctx.count((fn, tuple(args)), nontrivial=True)
        if ri != rm:
            lo = int(args[0])
            k = next((i for i in range(min(len(ri), len(rm))) if ri[i] != rm[i]), 0)
            ctx.disagreements.append({'case': ['sweep', [str(lo + k), '1']], 'implementation': ri[k:k + 1], 'model': rm[k:k + 1],
                                      'note': 'character class of code point U+%04X (digit value / a=letter / s=blank / -)' % (lo + k)})
    ctx.extra['digits_found'] = sum(sum(ch.isdigit() for ch in r) for r in impl_sweep)
    ctx.extra['case_kinds'] = kinds
    ctx.cov['traces_validated_against_impl'] = len(cases) + len(sweep_cases)
    for s in cases[:3] + cases[len(corpus) + 5:len(corpus) + 9] + cases[-2:]:
        ctx.sample({'fn': s[0], 'args': [a if len(a) < 80 else a[:40] + '...[%d chars]' % len(a) for a in s[1]]})
    if built:
        light = [i for i, c in enumerate(cases) if max([len(a) for a in c[1]] + [0]) < 200]
        ctx.kernel_crosscheck('Version.Entry', [cases[i] for i in light] + sweep_cases[:2],
                              [model[i] for i in light] + model_sweep[:2], limit=300)

    # the property's clauses evaluated directly on the implementation (failing-input search)
    groups = []
    ngroups = (1200 if thorough else 60)
    if ctx.disagreements:
        ngroups *= 3
        # neighbourhood of every disagreeing case
        for d in ctx.disagreements[:40]:
            if d['case'][0] not in ('cmp', 'tok', 'vc', 'many', 'range', 'isect', 'cwm'):
                continue
            strs = [a for a in d['case'][1] if a != MARK and len(a) < 200]
            vers = [s.lstrip('<>=! ') for s in strs] + strs
            groups.append({'strings': list(dict.fromkeys(vers + rng.sample(pool, 6)))[:14],
                           'checklists': [[s] for s in strs[:6]] + [strs[1:5]]})
    short = [p for p in pool if len(p) < 200]
    for _ in range(ngroups):
        strs = rng.sample(short, 10) + [gen_version(rng) for _ in range(3)]
        cls = [[rng.choice(OPSP) + rng.choice(strs) for _ in range(rng.randint(0, 3))] for _ in range(6)]
        cls += [gen_checklist(rng, strs, rng.randint(2, 3)) for _ in range(2)]
        groups.append({'strings': strs, 'checklists': cls})
    ex3 = exhaustive_strings(['1', '0', 'a', '.'], 3 if not thorough else 3)
    groups.append({'strings': ex3[:60], 'checklists': [['>=1'], ['<1.a'], ['!=1', '>=1'], ['==1.0'], []]})
    groups.append({'strings': ['1.9', '2.0', '2', '2.0.0', '2.1', '', '2.0a', '2.00'], 'checklists': EQ_BOUNDS[:16]})
    groups.append({'strings': ['1.٣', '1.3', '１２', '12', '1.٣a', '1.4', '٠', '0', '00', '1\U0001d7d8', '10', 'A', 'a'],
                   'checklists': [['>=1.٣'], ['<１２'], ['==٠'], ['>1.3', '<=１２']]})
    fgroups = []
    for _ in range(900 if thorough else 40):
        fgroups.append({'major': rng.choice(['1', '0', '2']), 'pvs': [rng.choice(['>=', '>=', '>', '==', '<', '<=', '']) + rng.choice(PVERS) for _ in range(4)],
                        'conds': [[rng.choice(['>=', '<', '>', '<=', '==']) + rng.choice(PVERS) for _ in range(rng.randint(1, 2))] for _ in range(rng.randint(0, 2))],
                        'fvers': rng.sample(FVERS, 6), 'xs': rng.sample(PVERS + FVERS, 10) + rng.sample(short, 4)})
    res = run_impl('c19.py', {'oracle': groups, 'feature_oracle': fgroups})
    ctx.extra['oracle_groups'] = len(groups)
    ctx.extra['feature_oracle_groups'] = len(fgroups)
    for f in res['oracle']:
        ident = 'C19:%s:%s' % (f['kind'], json.dumps({k: v for k, v in f.items() if k != 'kind'}, sort_keys=True))
        grp = {'strings': [v for k, v in f.items() if k in ('a', 'b', 'c', 'x', 'v')] or f.get('strings', []),
               'checklists': [f[k] for k in ('checks', 'a', 'b', 'conditions') if isinstance(f.get(k), list)] or f.get('checklists', [])}
        if f['kind'] in ('intersect', 'always_true', 'always_false'):
            grp = {'strings': [f['x']], 'checklists': [f['a'], f['b']]}
        ctx.violation(ident, 'property clause %s fails on the implementation: %s' % (f['kind'], json.dumps(f)),
                      {'oracle': grp, 'failure': f})
    for f in res['feature_oracle']:
        ident = f.pop('ident', None) or 'C19:%s:%s' % (f['kind'], json.dumps({k: v for k, v in f.items() if k != 'kind'}, sort_keys=True))
        ctx.violation(ident, 'feature-check clause %s fails on the implementation: %s' % (f['kind'], json.dumps(f)),
                      {'feature_oracle': f.get('group', {}), 'failure': {k: v for k, v in f.items() if k != 'group'}})
    # an implementation/model disagreement where the model's answer is forced by a theorem and the
    # observable is itself what the property fixes (operator results) is a concrete failing input too
    if ctx.disagreements and not ctx.violations:
        for d in ctx.disagreements:
            if d['implementation'].startswith('EXC:') or d['implementation'].endswith('HASH'):
                ctx.violation('C19:exc:' + json.dumps(d['case'])[:300], 'implementation raises / hashes inconsistently on %s: %s'
                              % (json.dumps(d['case'])[:300], d['implementation']), {'case': d['case']})
                break
    # the callers and helpers whose answer the theorems fix as a function of the input (tokenizer classes:
    # C19_digit_class/C19_tokenize_dotted; search_version: C19_search_version_*; feature_version normalisation and
    # use()/report(): C19_feature_norm, C19_use_warns_iff, C19_report_consistent_with_use): the first input on which
    # the implementation answers differently is the concrete failing input
    if ctx.disagreements and not ctx.violations:
        for d in sorted(ctx.disagreements, key=lambda d: len(json.dumps(d['case']))):
            if d['case'][0] in ('sweep', 'tok', 'search', 'fnorm', 'feat'):
                ctx.violation('C19:differs-from-verified-model:' + json.dumps(d['case'])[:300],
                              '%s%s: the implementation answers %r, the verified model %r'
                              % (d['case'][0], json.dumps(d['case'][1])[:300], d['implementation'][:200], d['model'][:200]),
                              {'case': d['case']})
                break
    return ctx.finish(
        level='proof',
        trusted=['Coq 8.16.1 kernel (coqc, vm_compute; no native_compute)',
                 'extraction with ExtrOcamlBasic directives only + OCaml 4.13.1 + extract/driver.ml (cross-checked in-kernel on a sample each run)',
                 'harness/check_C19.py generators and harness/impl/c19.py adapter/canonicaliser (the adapter repeats the three glue '
                 'lines of evaluate_if / handle_meson_version that install the target range; every function they call is the real one)',
                 'model covers universal.py:968-1247 and decorators.py:656-870 (check_version, use, report headings); '
                 'not modelled: str() of Range and all message texts'],
        assumptions=['Print Assumptions: all property theorems closed under the global context (no axioms)',
                     'the Unicode decimal-digit table of Version/Unicode.v equals the running Python\'s re \\d / int(): swept over all 0x110000 code points on every run',
                     'Version() on a digit run longer than 4300 characters raises ValueError (modelled: version_init; known finding C19:int-max-str-digits); '
                     'such runs are generated for cmp/vc/tok only'],
        rule='seeded generator of version strings over a component alphabet (digit runs incl. leading zeros, 18-60 digit runs, Unicode '
             'decimal digits mixed with ASCII, alpha runs in both cases, mixed alnum, separators, Unicode blanks, lone surrogates, empty / '
             'separator-only strings), constraints with blanks before/inside/after the operator and doubled operators, constraint lists with '
             'repeated and contradictory entries, all pairs of equal-bound open/closed ranges in both operand orders, compiler-banner-like texts '
             'and all texts of length <= 5 over {1 . - blank a} for search_version, FeatureNew/Deprecated/Broken use sequences under generated '
             'meson_version constraints and nested version_compare conditions; each case is run through the implementation and the '
             'extracted Coq model and compared; distinct = distinct (function,arguments) tuples; every case exercises tokenizer '
             'and comparison so all are non-trivial')
