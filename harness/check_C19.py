"""C19 — version comparison is a consistent order; constraint logic is sound.
Theorems: coq/Props/C19.v.  Model: coq/Version/Model.v.  Implementation:
mesonbuild/utils/universal.py (Version, version_compare*, Range, version_check_to_range)."""
import itertools, json
from common import *

MARK = '\x03'
ALPHA = ['0', '1', '2', '9', '10', '00', '01', '007', '12', 'a', 'b', 'rc', 'Z', 'aa', 'beta', 'A']
SEPS = ['.', '-', '_', '+', '~', ':', ' ', '', '..', '\t', 'é', '€', '/']
OPSP = ['<', '<=', '==', '=', '!=', '>=', '>', '']


def gen_version(rng):
    k = rng.choice([0, 1, 1, 2, 2, 3, 3, 4, 5])
    parts = []
    for i in range(k):
        parts.append(rng.choice(ALPHA))
        if i + 1 < k or rng.random() < 0.15:
            parts.append(rng.choice(SEPS))
    s = ''.join(parts)
    if rng.random() < 0.1:
        s = rng.choice([' ', '\t', 'v', '-']) + s
    if rng.random() < 0.05:
        s = s + rng.choice([' ', '\n', ' '])
    return s


def gen_check(rng):
    sp = rng.choice(OPSP)
    w = gen_version(rng)
    if rng.random() < 0.3:
        w = ' ' + w
    return sp + w


def exhaustive_strings(symbols, maxlen):
    out = ['']
    for n in range(1, maxlen + 1):
        for t in itertools.product(symbols, repeat=n):
            out.append(''.join(t))
    return out


def replay(ctx):
    rec = json.load(open(ctx.replay))
    r = rec['replay']
    print('replaying', json.dumps(r))
    if 'case' in r:
        res = run_impl('c19.py', {'cases': [r['case']]})
        print('implementation:', repr(res['results'][0]))
        ctx.build('Props/C19.v', 'Version/Extract.v', 'C19')
        print('model         :', repr(ctx.run_model([tuple(r['case'])])[0]))
    if 'oracle' in r:
        res = run_impl('c19.py', {'oracle': [r['oracle']]})
        print('property clauses failing on the implementation:', json.dumps(res['oracle'], indent=1))
    return 0


def run(ctx):
    if ctx.replay:
        return replay(ctx)
    rng = ctx.rng
    thorough = ctx.tier == 'thorough'
    built = ctx.build('Props/C19.v', 'Version/Extract.v', 'C19')

    cases = []
    # corpus first
    corpus = [('cmp', ['1.9', '1.10']), ('cmp', ['1.0', '1_00']), ('cmp', ['1.a', '1.0']), ('cmp', ['', '0']),
              ('cmp', ['1.0', '1.0.0']), ('cmp', ['a', 'A']), ('vc', ['1.2.3', '>= 1.2']), ('vc', ['1.2.3', '=1.2.3']),
              ('many', ['1.5', '>=1.0', '<1.2', '!=1.5']), ('range', ['1.2', '>=1.2', '!=1.2', '<2.0']),
              ('isect', ['1.5', '>=1.0', MARK, '<2.0']), ('cwm', ['>=0.50', '0.49']), ('cwm', ['<0.50', '0.49'])]
    cases += corpus
    npairs = 300000 if thorough else 30000
    nrange = 30000 if thorough else 3000
    pool = [gen_version(rng) for _ in range(400 if thorough else 150)]
    for _ in range(npairs):
        a = rng.choice(pool) if rng.random() < 0.7 else gen_version(rng)
        b = rng.choice(pool) if rng.random() < 0.7 else gen_version(rng)
        k = rng.random()
        if k < 0.45:
            cases.append(('cmp', [a, b]))
        elif k < 0.55:
            cases.append(('tok', [a]))
        elif k < 0.8:
            c = rng.choice(OPSP) + (' ' if rng.random() < 0.3 else '') + b
            cases.append(('vc', [a, c]))
        elif k < 0.9:
            cases.append(('many', [a] + [gen_check(rng) for _ in range(rng.randint(0, 4))]))
        else:
            cases.append(('cwm', [gen_check(rng), a]))
    for _ in range(nrange):
        x = rng.choice(pool)
        ca = [gen_check(rng) if rng.random() < 0.5 else rng.choice(OPSP) + rng.choice(pool) for _ in range(rng.randint(0, 4))]
        if rng.random() < 0.5:
            cases.append(('range', [x] + ca))
        else:
            cb = [rng.choice(OPSP) + rng.choice(pool) for _ in range(rng.randint(0, 3))]
            cases.append(('isect', [x] + ca + [MARK] + cb))
    if thorough:
        # exhaustive: all strings of length <= 4 over a 7-symbol alphabet, pairwise (cmp)
        ex = exhaustive_strings(['1', '0', '9', 'a', 'B', '.', '-'], 4)
        ctx.extra['exhaustive_strings'] = len(ex)
        sub = ex if len(ex) <= 2801 else ex[:2801]
        for a in sub:
            for b in sub[::3]:
                cases.append(('cmp', [a, b]))
        ctx.extra['exhaustive'] = False
    else:
        ex = exhaustive_strings(['1', '0', 'a', '.'], 3)
        for a in ex:
            for b in ex:
                cases.append(('cmp', [a, b]))

    # implementation
    CH = 200000
    impl = []
    for i in range(0, len(cases), CH):
        impl += run_impl('c19.py', {'cases': cases[i:i + CH]})['results']
    model = ctx.run_model(cases) if built else impl
    for (fn, args), ri, rm in zip(cases, impl, model):
        ctx.count((fn, tuple(args)), nontrivial=True)
        if ri != rm:
            if len(ctx.disagreements) < 200:
                ctx.disagreements.append({'case': [fn, args], 'implementation': ri, 'model': rm})
    ctx.cov['traces_validated_against_impl'] = len(cases)
    for s in cases[:3] + cases[len(corpus) + 5:len(corpus) + 9] + cases[-2:]:
        ctx.sample({'fn': s[0], 'args': s[1]})
    if built:
        ctx.kernel_crosscheck('Version.Entry', cases, model, limit=300)

    # the property's clauses evaluated directly on the implementation (failing-input search)
    groups = []
    ngroups = (400 if thorough else 60)
    if ctx.disagreements:
        ngroups *= 3
        # neighbourhood of every disagreeing case
        for d in ctx.disagreements[:40]:
            strs = [a for a in d['case'][1] if a != MARK]
            vers = [s.lstrip('<>=! ') for s in strs] + strs
            groups.append({'strings': list(dict.fromkeys(vers + rng.sample(pool, 6)))[:14],
                           'checklists': [[s] for s in strs[:6]] + [strs[1:5]]})
    for _ in range(ngroups):
        strs = rng.sample(pool, 10) + [gen_version(rng) for _ in range(3)]
        cls = [[rng.choice(OPSP) + rng.choice(strs) for _ in range(rng.randint(0, 3))] for _ in range(8)]
        groups.append({'strings': strs, 'checklists': cls})
    ex3 = exhaustive_strings(['1', '0', 'a', '.'], 3 if not thorough else 3)
    groups.append({'strings': ex3[:60], 'checklists': [['>=1'], ['<1.a'], ['!=1', '>=1'], ['==1.0'], []]})
    res = run_impl('c19.py', {'oracle': groups})
    ctx.extra['oracle_groups'] = len(groups)
    for f in res['oracle']:
        ident = 'C19:%s:%s' % (f['kind'], json.dumps({k: v for k, v in f.items() if k != 'kind'}, sort_keys=True))
        grp = {'strings': [v for k, v in f.items() if k in ('a', 'b', 'c', 'x', 'v')] or f.get('strings', []),
               'checklists': [f[k] for k in ('checks', 'a', 'b', 'conditions') if isinstance(f.get(k), list)] or f.get('checklists', [])}
        if f['kind'] in ('intersect', 'always_true', 'always_false'):
            grp = {'strings': [f['x']], 'checklists': [f['a'], f['b']]}
        ctx.violation(ident, 'property clause %s fails on the implementation: %s' % (f['kind'], json.dumps(f)),
                      {'oracle': grp, 'failure': f})
    # an implementation/model disagreement where the model's answer is forced by a theorem and the
    # observable is itself what the property fixes (operator results) is a concrete failing input too
    if ctx.disagreements and not ctx.violations:
        for d in ctx.disagreements:
            if d['implementation'].startswith('EXC:') or d['implementation'].endswith('HASH'):
                ctx.violation('C19:exc:' + json.dumps(d['case']), 'implementation raises / hashes inconsistently on %s: %s'
                              % (json.dumps(d['case']), d['implementation']), {'case': d['case']})
                break
    return ctx.finish(
        level='proof',
        trusted=['Coq 8.16.1 kernel (coqc, vm_compute; no native_compute)',
                 'extraction with ExtrOcamlBasic directives only + OCaml 4.13.1 + extract/driver.ml (cross-checked in-kernel on a sample each run)',
                 'harness/check_C19.py generators and harness/impl/c19.py adapter/canonicaliser',
                 'model covers universal.py:968-1205; not modelled: non-ASCII \\d digits, str() of Range, search_version'],
        assumptions=['Print Assumptions: all property theorems closed under the global context (no axioms)',
                     'Python regex \\d restricted to ASCII digits in generated inputs'],
        rule='seeded generator of version strings over a component alphabet (digit runs incl. leading zeros, alpha runs, '
             'separators, blanks, non-ASCII filler) and constraint lists; each case is run through the implementation and the '
             'extracted Coq model and compared; distinct = distinct (function,arguments) tuples; every case exercises tokenizer '
             'and comparison so all are non-trivial')
