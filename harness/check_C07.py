"""C07 — option values resolve by the documented precedence and are always valid.
Theorems: coq/Props/C07.v.  Model: coq/Options/{Kinds,Store,Init}.v.  Implementation:
mesonbuild/options.py (OptionStore, UserOption.validate_value family), cmdline.py."""
import itertools, json, os, shutil
from common import *

S1, S2, S3, S4, S5 = '\x01', '\x02', '\x03', '\x04', '\x05'
SUB = 'sub'
SOURCES = ['p_opt', 's_opt', 'mf_opt', 'cl_opt', 'p_sub', 'spcall', 'mf_sub', 'cl_sub']   # documented order, lowest first


# ------------------------------------------------------------------ encoding (mirrors Entry.v)
def ekey(name, sub=None, build=False):
    return ('-' if sub is None else '=' + sub) + S4 + ('B' if build else 'H') + S4 + name


def eval_(v):
    if isinstance(v, bool):
        return 'T' if v else 'F'
    if isinstance(v, str):
        return 'S' + v
    if isinstance(v, int):
        return 'I' + str(v)
    if isinstance(v, list):
        return 'L' + ''.join(S4 + x for x in v)
    raise ValueError(v)


def edict(pairs):
    return ''.join(S2 + k + S3 + eval_(v) for k, v in pairs)


def kint(lo, hi):
    return 'i' + ('-' if lo is None else str(lo)) + S4 + ('-' if hi is None else str(hi))


def kcombo(ch):
    return 'c' + ''.join(S5 + c for c in ch)


def karr(ch):
    return 'a-' if ch is None else 'a=' + ''.join(S5 + c for c in ch)


def op_add(o, key, kind, value, y=False, ro=False, depr='n', extra=None):
    f = [o] + ([extra] if extra is not None else []) + [key, kind, eval_(value), 'T' if y else 'F', 'T' if ro else 'F', depr]
    return S1.join(f)


def op_set(key, v, first=False, user=False):
    return S1.join(['su' if user else 'set', key, eval_(v), 'T' if first else 'F'])


def op_top(pdo, cmd, mf):
    return S1.join(['top', edict(pdo), edict(cmd), edict(mf)])


def op_sub(name, spcall, pdo, cmd, mf):
    return S1.join(['sub', name, edict(spcall), edict(pdo), edict(cmd), edict(mf)])


def op_get(key):
    return 'get' + S1 + key


def op_gp(key):
    return 'gp' + S1 + key


def op_hv(key, v):
    return S1.join(['hv', key, eval_(v)])


def hdr(builtins=True, cross=False, libdir='lib'):
    return S1.join(['B' if builtins else '0', 'T' if cross else 'F', libdir])


# ------------------------------------------------------------------ option configurations
LETTERS = ['a', 'b', 'c', 'd', 'e', 'f', 'g', 'h']
# name, class, kind, default, 8 valid typed values, string spelling fn, invalid values, build?
def _cfg(name, cls, kind, default, typed, tostr, invalid, **kw):
    d = dict(name=name, cls=cls, kind=kind, default=default, typed=typed, tostr=tostr, invalid=invalid)
    d.update(kw)
    return d


def _b(i):
    return i % 2 == 0


CONFIGS = [
    _cfg('sys_str', 'system', 's', 'dflt', ['v%d' % i for i in range(8)], lambda v: v, [True, 5, ['x']]),
    _cfg('sys_bool', 'system', 'b', False, [_b(i) for i in range(8)], lambda v: ['true', 'false', 'True', 'FALSE'][(0 if v else 1)], ['yes', 1, '', ['true']]),
    _cfg('sys_int', 'system', kint(0, 100), 50, list(range(10, 18)), str, [101, -1, 'abc', True, '1.5', '']),
    _cfg('sys_combo', 'system', kcombo(LETTERS), 'a', list(LETTERS), lambda v: v, ['zz', True, '', 'A']),
    _cfg('sys_arr', 'system', karr(LETTERS), [], [[LETTERS[i]] if i % 2 else [LETTERS[i], LETTERS[(i + 1) % 8]] for i in range(8)],
         lambda v: ','.join(v), ['zz', 5, 'a,zz', True]),
    _cfg('sys_feat', 'system', 'f', 'auto', ['enabled', 'disabled', 'auto', 'enabled', 'disabled', 'auto', 'enabled', 'disabled'],
         lambda v: v, ['on', True, 'Enabled']),
    _cfg('default_library', 'builtin', kcombo(['shared', 'static', 'both']), None, ['static', 'both', 'shared', 'static', 'both', 'shared', 'static', 'both'], lambda v: v, ['dll', True]),
    _cfg('werror', 'builtin', 'b', None, [_b(i) for i in range(8)], lambda v: 'true' if v else 'false', ['yes', 2]),
    _cfg('unity_size', 'builtin', kint(2, None), None, list(range(3, 11)), str, [1, 'x', '-5']),
    _cfg('warning_level', 'builtin', kcombo(['0', '1', '2', '3', 'everything']), None, ['0', '2', '3', 'everything', '1', '0', '2', '3'], lambda v: v, ['4', 3]),
    _cfg('bindir', 'builtin', 's', None, ['b%d' % i for i in range(8)], lambda v: v, [7, True]),
    _cfg('force_fallback_for', 'builtin', karr(None), None, [['p%d' % i, 'q'] for i in range(8)], lambda v: ','.join(v), [5, True]),
    _cfg('auto_features', 'builtin', 'f', None, ['enabled', 'disabled', 'auto', 'enabled', 'disabled', 'auto', 'enabled', 'disabled'], lambda v: v, ['no']),
    _cfg('pkg_config_path', 'permachine', karr(None), None, [['/p%d' % i] for i in range(8)], lambda v: ','.join(v), [3]),
    _cfg('pkg_config_path', 'permachine', karr(None), None, [['/b%d' % i] for i in range(8)], lambda v: ','.join(v), [3], build=True),
    _cfg('python.bytecompile', 'module', kint(-1, 2), None, [-1, 0, 1, 2, -1, 0, 1, 2], str, [3, -2, 'x']),
    _cfg('python.install_env', 'module', kcombo(['auto', 'prefix', 'system', 'venv']), None, ['auto', 'prefix', 'system', 'venv', 'auto', 'prefix', 'system', 'venv'], lambda v: v, ['global']),
    _cfg('pkgconfig.relocatable', 'module', 'b', None, [_b(i) for i in range(8)], lambda v: 'true' if v else 'false', ['1']),
    _cfg('popt', 'project_both', kcombo(LETTERS), 'a', list(LETTERS), lambda v: v, ['zz', False], sdefault='h'),
    _cfg('popt', 'project_both', kcombo(LETTERS), 'a', list(LETTERS), lambda v: v, ['zz', False], sdefault='h', yielding=True),
    _cfg('pint', 'project_both', kint(-5, 5), 0, [-4, -3, -2, -1, 1, 2, 3, 4], str, [6, 'q'], sdefault=5, yielding=True),
    _cfg('sopt', 'project_sub', 'b', None, [_b(i) for i in range(8)], lambda v: 'true' if v else 'false', ['maybe'], sdefault=True),
    _cfg('sarr', 'project_sub', karr(None), None, [['x%d' % i] for i in range(8)], lambda v: ','.join(v), [4], sdefault=['d']),
    _cfg('c_std', 'compiler', kcombo(['none', 'c89', 'c99', 'c11', 'c17', 'gnu99', 'gnu11', 'gnu17']), 'none',
         ['c89', 'c99', 'c11', 'c17', 'gnu99', 'gnu11', 'gnu17', 'none'], lambda v: v, ['c++11']),
]


def source_value(cfg, i, cls_, rng):
    """value of source i under value-class cls_ ('typed','string','invalid')"""
    if cls_ == 'invalid':
        return rng.choice(cfg['invalid'])
    v = cfg['typed'][i]
    return cfg['tostr'](v) if cls_ == 'string' else v


REALISTIC = {'p_opt': 'string', 's_opt': 'string', 'mf_opt': 'typed', 'cl_opt': 'string',
             'p_sub': 'string', 'spcall': 'string', 'mf_sub': 'typed', 'cl_sub': 'string'}


def scenario(cfg, mask, cross, classes, rng):
    src = {}
    for i, s in enumerate(SOURCES):
        if mask >> i & 1:
            src[s] = source_value(cfg, i, classes[s], rng)
    return dict(o='prec', name=cfg['name'], cls=cfg['cls'], kind=cfg['kind'], cross=cross, build=cfg.get('build', False),
                default=None if cfg['default'] is None else eval_(cfg['default']),
                sdefault=None if cfg.get('sdefault') is None else eval_(cfg['sdefault']),
                **{'yield': cfg.get('yielding', False)},
                src={k: eval_(v) for k, v in src.items()})


def clean(sc):
    return {k: v for k, v in sc.items() if v is not None}


def scenario_seq(sc, libdir, dump, pre_augment=None):
    """the op sequence that plays a precedence scenario (same calls as impl/c07.py:oracle_scenario)"""
    name, cls, kd, b = sc['name'], sc['cls'], sc['kind'], sc.get('build', False)
    g, r, s = ekey(name, None, b), ekey(name, '', b), ekey(name, SUB, b)
    src = sc['src']

    def d(*pairs):
        return ''.join(S2 + k + S3 + src[x] for k, x in pairs if x in src)
    ops = []
    if cls == 'system':
        ops.append(S1.join(['as', g, kd, sc['default'], 'F', 'F', 'n']))
    elif cls in ('project_both', 'project_top'):
        ops.append(S1.join(['ap', r, kd, sc['default'], 'F', 'F', 'n']))
    pdo, mf, cmd = d((g, 'p_opt'), (s, 'p_sub')), d((g, 'mf_opt'), (s, 'mf_sub')), d((g, 'cl_opt'), (s, 'cl_sub'))
    ops.append(S1.join(['top', pdo, cmd, mf]))
    top = r if cls in ('project_both', 'project_top') else g
    if cls == 'compiler':
        ops.append(op_gp(g))
        ops.append(S1.join(['ac', 'c', g, kd, sc['default'], 'F', 'F', 'n']))
    if cls != 'project_sub':
        ops.append(op_get(top))
    if cls in ('project_both', 'project_sub'):
        ops.append(S1.join(['ap', s, kd, sc['sdefault'], 'T' if sc.get('yield') else 'F', 'F', 'n']))
    if pre_augment is not None:
        # an augment that exists before the subproject is initialised keeps priority (options.py:1372,1385)
        ops.append(S1.join(['set', s, pre_augment, 'F']))
    ops.append(S1.join(['sub', SUB, d((g, 'spcall')), d((g, 's_opt')), cmd, mf]))
    ops.append(op_get(s))
    if cls != 'project_sub':
        ops.append(op_get(top))
    ops.append(op_get(ekey(name, 'other', b)))
    if dump:
        ops.append('dump')
    return ('seq', [hdr(True, sc['cross'], libdir)] + ops)


# ------------------------------------------------------------------ random operation sequences
NAMES = ['o1', 'o2', 'o3', 'c_', '_', 'b_', 'backend_', 'o-1', 'x y', 'é_opt', 'dir', 'xdir', 'c_é', 'cpp', 'werror', 'default_library', 'buildtype', 'debug', 'optimization', 'prefix', 'bindir',
         'libdir', 'sysconfdir', 'localstatedir', 'unity_size', 'force_fallback_for', 'pkg_config_path', 'c_std',
         'cpp_args', 'b_lto', 'b_foo', 'backend_max_links', 'python.bytecompile', 'python.purelibdir', 'wrap_mode', 'backend',
         'namingscheme', 'x.y']
SUBS = [None, None, '', SUB, SUB, 'other', 's p', 'ü']
PATHS = ['/usr', '/usr/local', '/usr/', '/opt/x', '/', '//', '//net/x', '/usr/local/', 'rel/dir', '/usr/lib', '/usr/local/lib',
         '/usr/local/../x', 'a/../b', './bin', 'bin//x/', '', '.', '/usr/local/etc', '/etc', '/opt/x/', 'C:/', '/a\\', '/:/', '/usr/localx/y']
KINDS = ['s', 'b', kint(0, 10), kint(None, 3), kint(-2, None), kint(None, None), kcombo(['a', 'b', 'c']), kcombo(['true', 'false', '1']),
         karr(None), karr(['a', 'b', 'c']), karr([]), 'f']


def valid_for(kind, rng):
    c = kind[:1]
    if c == 's':
        return rng.choice(['x', 'y', '', 'a,b', '/p/q'])
    if c == 'b':
        return rng.choice([True, False, 'true', 'false', 'True', 'FALSE'])
    if c == 'i':
        a, b = kind[1:].split(S4)
        lo = 0 if a == '-' else int(a)
        hi = lo + 3 if b == '-' else int(b)
        if a == '-':
            lo = hi - 3
        z = rng.randint(lo, hi)
        return rng.choice([z, str(z), ' %d ' % z, '+%d' % z if z >= 0 else str(z)])
    if c == 'c':
        ch = kind[1:].split(S5)[1:]
        return rng.choice(ch)
    if c == 'f':
        return rng.choice(['enabled', 'disabled', 'auto'])
    if c == 'a':
        ch = None if kind[1:2] == '-' else kind[2:].split(S5)[1:]
        pool = ch or ['a', 'b', 'zz', 'x y']
        l = [rng.choice(pool) for _ in range(rng.randint(0, 3))]
        return rng.choice([l, ','.join(l), ' , '.join(l)]) if l else rng.choice([[], ''])
    raise ValueError(kind)


JUNK = [True, False, 0, 1, 7, -3, 1000, '', 'x', 'true', 'a', 'zz', 'custom', 'release', 'debug', 'plain', '5', '0x10', '1_0', '1__0', '_1',
        ' 7', '٣', '1e3', ['a'], ['a', 'a'], [], ['zz'], 'a,b', 'a, b ,c', '[a]', "['a', 'b']", '~/x', 'é', 'TRUE', 'False', 'enabled',
        'minsize', 'debugoptimized', '2', 's', 'g']


def rand_value(name, rng):
    if name in ('prefix', 'bindir', 'libdir', 'sysconfdir', 'localstatedir', 'python.purelibdir') and rng.random() < 0.8:
        return rng.choice(PATHS)
    if name == 'buildtype' and rng.random() < 0.8:
        return rng.choice(['plain', 'debug', 'debugoptimized', 'release', 'minsize', 'custom'])
    if name == 'debug' and rng.random() < 0.7:
        return rng.choice([True, False, 'true', 'false'])
    if name == 'optimization' and rng.random() < 0.7:
        return rng.choice(['plain', '0', 'g', '1', '2', '3', 's'])
    return rng.choice(JUNK)


def rand_key(rng, name=None):
    name = name or rng.choice(NAMES)
    return name, ekey(name, rng.choice(SUBS), rng.random() < 0.12)


def rand_dict(rng, n):
    out, seen = [], set()
    for _ in range(rng.randint(0, n)):
        name, k = rand_key(rng)
        if k in seen:
            continue
        seen.add(k)
        out.append((k, rand_value(name, rng)))
    return out


def rand_depr(rng):
    r = rng.random()
    if r < 0.6:
        return 'n'
    if r < 0.68:
        return 'y'
    if r < 0.78:
        return 'l' + ''.join(S5 + x for x in rng.sample(['a', 'b', 'true', 'x'], 2))
    if r < 0.9:
        return 'm' + ''.join(S5 + a + S4 + b for a, b in rng.sample([('a', 'b'), ('x', 'y'), ('true', 'false'), ('1', '2'), ('zz', 'a')], 2))
    return 'r' + rng.choice(['o1', 'o2', 'o3', 'werror', 'nonexistent'])


def rand_seq(rng, libdir):
    builtins = rng.random() < 0.8
    cross = rng.random() < 0.35
    ops = []
    n = rng.randint(2, 9)
    for _ in range(n):
        r = rng.random()
        if r < 0.25:
            kind = rng.choice(KINDS)
            name = rng.choice(['o1', 'o2', 'o3', 'c_std', 'cpp_args', 'b_lto', 'x.y', 'prefix', 'buildtype', 'debug', 'optimization', 'werror'])
            val = valid_for(kind, rng) if rng.random() < 0.9 else rng.choice(JUNK)
            w = rng.random()
            if w < 0.4:
                ops.append(op_add('ap', ekey(name, rng.choice(['', SUB, SUB, 'other', None]), rng.random() < 0.05), kind, val,
                                  y=rng.random() < 0.5, ro=rng.random() < 0.1, depr=rand_depr(rng)))
            elif w < 0.75:
                ops.append(op_add('as', ekey(name, rng.choice([None, None, SUB, '']), rng.random() < 0.15), kind, val,
                                  ro=rng.random() < 0.1, depr=rand_depr(rng)))
            elif w < 0.9:
                nm = rng.choice(['c_std', 'cpp_args', 'c_x', 'o1'])
                ops.append(op_add('ac', ekey(nm, rng.choice([None, SUB]), rng.random() < 0.3), kind, val, extra=rng.choice(['c', 'cpp'])))
            else:
                nm = rng.choice(['x.y', 'python.z', 'build.x', 'o1'])
                ops.append(op_add('am', ekey(nm, None, False), kind, val, extra=rng.choice(['x', 'python', 'build'])))
        elif r < 0.5:
            name, k = rand_key(rng)
            ops.append(op_set(k, rand_value(name, rng), first=rng.random() < 0.5, user=rng.random() < 0.6))
        elif r < 0.62:
            ops.append(op_top(rand_dict(rng, 4), rand_dict(rng, 4), rand_dict(rng, 3)))
        elif r < 0.74:
            ops.append(op_sub(rng.choice([SUB, SUB, 'other']), rand_dict(rng, 3), rand_dict(rng, 3), rand_dict(rng, 4), rand_dict(rng, 3)))
        elif r < 0.9:
            name, k = rand_key(rng)
            ops.append(rng.choice([op_get(k), op_get(k), op_gp(k), op_hv(k, rand_value(name, rng))]))
        else:
            ops.append('dump')
    if rng.random() < 0.5:
        ops.append('dump')
    return ('seq', [hdr(builtins, cross, libdir)] + ops)


# kind -> (declared value, a second valid value, extra values to try as a later set)
YKINDS = {
    's': ('x', 'y', [True, 5]),
    'b': (True, False, ['maybe', 'true']),
    kint(0, 10): (7, 9, [11, '3']),
    kint(0, 5): (3, 5, [7]),
    kint(None, None): (100, -4, []),
    kcombo(['a', 'b', 'c', 'enabled', 'auto']): ('c', 'enabled', ['zz', 'auto']),
    kcombo(['a', 'b']): ('a', 'b', ['c']),
    kcombo(['enabled', 'disabled', 'auto']): ('auto', 'enabled', []),
    karr(['a', 'b', 'c']): (['c'], ['a', 'b'], ['zz']),
    karr(['a']): (['a'], [], [['c']]),
    karr(None): (['q'], ['zz', 'c'], []),
    'f': ('enabled', 'disabled', ['on']),
}


def yield_grid():
    out = []
    kinds = list(YKINDS)
    for ck in kinds:
        cv = YKINDS[ck][0]
        for y in (True, False):
            out.append(dict(o='yield', pk=None, ck=ck, cv=eval_(cv), y=y))
            for pk in kinds:
                pv, pv2, extra = YKINDS[pk]
                base = dict(o='yield', pk=pk, pv=eval_(pv), ck=ck, cv=eval_(cv), y=y)
                out.append(dict(base))
                for nv in [pv2] + extra:
                    out.append(dict(base, set=eval_(nv)))
                out.append(dict(base, set_child=eval_(YKINDS[ck][1])))
                out.append(dict(base, set=eval_(pv2), set_child=eval_(YKINDS[ck][1]), cross=True))
    return out


def yield_seq(sc, libdir):
    """the same scenario as an operation sequence for the model/implementation correspondence"""
    r, s_ = ekey('yopt', ''), ekey('yopt', SUB)
    ops = []
    if sc.get('pk') is not None:
        ops.append(S1.join(['ap', r, sc['pk'], sc['pv'], 'F', 'F', 'n']))
    ops.append(S1.join(['ap', s_, sc['ck'], sc['cv'], 'T' if sc['y'] else 'F', 'F', 'n']))
    ops.append(op_get(s_))
    if 'set' in sc and sc.get('pk') is not None:
        ops.append(S1.join(['su', r, sc['set'], 'F']))
        ops.append(op_get(s_))
    if 'set_child' in sc:
        ops.append(S1.join(['set', s_, sc['set_child'], 'F']))
        ops.append(op_get(s_))
    ops += [op_get(r), 'dump']
    return ('seq', [hdr(True, sc.get('cross', False), libdir)] + ops)


# ------------------------------------------------------------------ machine files -> option keys
MF_KEYS = ['pkg_config_path', 'build.pkg_config_path', 'cmake_prefix_path', 'werror', 'build.werror', 'c_args', 'build.c_args',
           'cpp_std', 'foo', 'python.bytecompile', 'default_library', 'prefix', 'bindir', 'b_lto', 'unity_size', 'x_y']
MF_BAD_KEYS = ['sub:werror', ':werror', 'build.python.x', 'a.b.c', 'a:b:c', 'build.', 'other:build.c_args']
MF_SECTIONS = ['built-in options', 'project options', 'sub:built-in options', 'sub:project options', 'other:built-in options',
               'paths', 'custom stuff', 'sub:custom stuff', 'a:b:built-in options', 'sub:other:project options', ':built-in options']
MF_VALUES = ['/p', 'x', True, False, 3, ['a', 'b'], []]


def ecfg(sections):
    """sections: list of (name, [(keytext, value)])"""
    return ''.join(S1 + n + S5 + ''.join(S2 + k + S3 + eval_(v) for k, v in ents) for n, ents in sections)


def rand_cfg(rng, hostile):
    names = rng.sample(MF_SECTIONS[:5] + (MF_SECTIONS[5:] if hostile or rng.random() < 0.15 else []), rng.randint(1, 4))
    out = []
    for n in names:
        keys = rng.sample(MF_KEYS, rng.randint(0, 4))
        if hostile and rng.random() < 0.5:
            keys.insert(rng.randint(0, len(keys)), rng.choice(MF_BAD_KEYS))
        out.append((n, [(k, rng.choice(MF_VALUES)) for k in keys]))
    return out


def mf_cases(rng, n):
    cases = []
    # exhaustive: native/cross file x section kind x per-machine or not x build. prefix or not x is_cross
    for sect in MF_SECTIONS[:5] + ['paths']:
        for key in ['pkg_config_path', 'build.pkg_config_path', 'c_args', 'build.c_args', 'werror', 'build.werror', 'foo', 'python.bytecompile']:
            ents = [(key, '/v')]
            for is_cross in (False, True):
                cases.append(('mfload', ['T' if is_cross else 'F', ecfg([(sect, ents)]), ecfg([]) if is_cross else '-']))
                if is_cross:
                    cases.append(('mfload', ['T', '-', ecfg([(sect, ents)])]))
                    cases.append(('mfload', ['T', ecfg([(sect, [(key, '/n')])]), ecfg([(sect, [(key, '/c')])])]))
    for k in MF_KEYS + MF_BAD_KEYS + ['', 'build.build.x', 'a.b', '.x', 'x.', 'é.ü', 'build.é']:
        cases.append(('fromstr', [k]))
        for sp in ('-', '=', '=sub', '=s p'):
            for m in 'HB':
                cases.append(('mfkey', [k, sp, m]))
    for i in range(n):
        hostile = rng.random() < 0.25
        is_cross = rng.random() < 0.6
        nat = ecfg(rand_cfg(rng, hostile)) if rng.random() < 0.85 else '-'
        cro = ecfg(rand_cfg(rng, hostile)) if is_cross else '-'
        cases.append(('mfload', ['T' if is_cross else 'F', nat, cro]))
    return cases


def corpus(libdir):
    H, HC, H0 = hdr(True, False, libdir), hdr(True, True, libdir), hdr(False, False, libdir)
    g = lambda n, s=None, b=False: ekey(n, s, b)
    return [
        ('tables', []),
        ('seq', [H, 'dump']), ('seq', [HC, 'dump']), ('seq', [H0, 'dump']),
        # buildtype expansion and the "changed" rule
        ('seq', [H, op_top([(g('optimization'), '3'), (g('buildtype'), 'debug')], [], []), op_get(g('optimization')), op_get(g('debug'))]),
        ('seq', [H, op_top([(g('optimization'), '1')], [(g('buildtype'), 'release')], []), op_get(g('optimization')), op_get(g('debug'))]),
        ('seq', [H, op_top([], [(g('buildtype'), 'minsize'), (g('debug'), 'false')], []), op_get(g('optimization')), op_get(g('debug'))]),
        ('seq', [H, op_top([], [(g('buildtype'), 'custom')], []), op_get(g('optimization')), op_get(g('debug'))]),
        ('seq', [H, op_set(g('buildtype', SUB), 'release', True), op_get(g('debug', SUB)), op_get(g('debug')), 'dump']),
        # prefix
        ('seq', [H, op_top([(g('prefix'), '/usr')], [], []), op_get(g('sysconfdir')), op_get(g('localstatedir')), op_get(g('prefix'))]),
        ('seq', [H, op_top([(g('prefix'), '/usr')], [(g('prefix'), '/opt/')], [(g('prefix'), '/usr/local')]), 'dump']),
        ('seq', [H, op_top([(g('prefix'), 'rel')], [], [])]),
        ('seq', [H, op_top([], [], [(g('prefix'), True)])]),
        ('seq', [H, op_top([(g('prefix'), 5)], [], [])]),
        ('seq', [H, op_set(g('prefix'), '/usr', True), 'dump']),
        ('seq', [H, op_set(g('prefix'), '/usr', False), 'dump']),
        ('seq', [H, op_set(g('sysconfdir'), '/custom', False), op_set(g('prefix'), '/usr', True), op_get(g('sysconfdir'))]),
        ('seq', [H, op_set(g('bindir'), '/usr/local/bin', False), op_get(g('bindir')), op_set(g('bindir'), '/usr/local/../bin', False)]),
        ('seq', [H, op_set(g('bindir'), '/usr/local', False), op_get(g('bindir')), op_set(g('buildtype'), './release', False), 'dump']),
        ('seq', [H, op_set(g('sysconfdir', SUB), '/usr/local/etc', False), op_get(g('sysconfdir', SUB)), op_get(g('sysconfdir'))]),
        # readonly
        ('seq', [H, op_set(g('backend'), 'none', False)]), ('seq', [H, op_set(g('backend'), 'none', True), op_get(g('backend'))]),
        ('seq', [H, op_set(g('backend'), 'ninja', False), op_get(g('backend'))]),
        # deprecated
        ('seq', [H0, op_add('as', g('o2'), 's', 'x'), op_add('as', g('o1'), 's', 'q', depr='ro2'), op_set(g('o1'), 'new'), 'dump']),
        ('seq', [H0, op_add('as', g('o1'), 's', 'q', depr='ro2'), op_add('as', g('o2'), 's', 'x', depr='ro1'), op_set(g('o1'), 'new')]),
        ('seq', [H0, op_add('as', g('o1'), karr(None), ['a'], depr='m' + S5 + 'a' + S4 + 'b'), op_set(g('o1'), 'a,c'), 'dump']),
        ('seq', [H0, op_add('as', g('o1'), 'b', True, depr='m' + S5 + 'true' + S4 + 'false'), op_set(g('o1'), True), 'dump']),
        # pending compiler options
        ('seq', [H, op_top([(g('c_std'), 'c99')], [(g('c_std', SUB), 'c11')], []), op_gp(g('c_std')), 'dump',
                 op_add('ac', g('c_std'), kcombo(['none', 'c99', 'c11']), 'none', extra='c'), op_get(g('c_std')), 'dump']),
        ('seq', [H, op_set(g('c_std'), ['a'], True, True), op_set(g('c_std'), "['a']", True, True), op_set(g('c_std'), "x", True, True)]),
        ('seq', [HC, op_add('ac', g('c_std', None, True), kcombo(['none', 'c99']), 'none', extra='c'),
                 op_add('ac', g('c_std'), kcombo(['none', 'c99']), 'none', extra='c'),
                 op_top([], [(g('c_std'), 'c99')], []), op_get(g('c_std')), op_get(g('c_std', None, True))]),
        # yielding
        ('seq', [H0, op_add('ap', g('p', ''), 's', 'top'), op_add('ap', g('p', SUB), 's', 'sub', y=True), op_get(g('p', SUB)),
                 op_set(g('p', ''), 'new'), op_get(g('p', SUB)), op_set(g('p', SUB), 'own'), op_get(g('p', SUB)), 'dump']),
        ('seq', [H0, op_add('ap', g('p', ''), 's', 'top'), op_add('ap', g('p', SUB), 'b', True, y=True), op_get(g('p', SUB))]),
        # unknown options
        ('seq', [H, op_top([], [(g('nonexistent'), 'x')], [])]), ('seq', [H, op_get(g('nonexistent'))]),
        ('seq', [H, op_top([(g('nonexistent', SUB), 'x')], [], []), op_sub(SUB, [], [], [], [])]),
        ('seq', [H, op_sub(SUB, [(g('werror', SUB), 'true')], [], [], [])]),
        ('seq', [H, op_sub(SUB, [(g('werror', 'other'), 'true')], [(g('werror', ''), 'true')], [], []), 'dump',
                 op_sub('other', [], [], [], []), 'dump']),
        ('seq', [H, op_set(g('werror', SUB), 'true', False), op_sub(SUB, [(g('werror'), 'false')], [], [(g('werror', SUB), 'false')], []),
                 op_get(g('werror', SUB)), 'dump']),
        ('val', [kint(None, None), eval_(' +1_000 ')]), ('val', [kint(0, 5), eval_(True)]), ('val', ['b', eval_('TrUe')]),
        ('val', [karr(['a']), eval_('a, a')]), ('val', [karr([]), eval_('zz')]), ('val', [kcombo(['1']), eval_(1)]),
        ('reorder', [edict([(g('debug'), 'false'), (g('buildtype'), 'release'), (g('optimization'), '1')])]),
        ('reorder', [edict([(g('debug'), 'false'), (g('buildtype', SUB), 'release')])]),
        ('sanprefix', ['/usr//']), ('sanprefix', ['/']), ('sanprefix', ['']), ('sanprefix', ['/a\\']),
        ('sandir', ['/usr/local', g('libdir'), eval_('/usr/local/lib//x/.')]), ('sandir', ['/usr/local', g('sysconfdir'), eval_('/usr/local/etc')]),
        ('sandir', ['/usr/local', g('sysconfdir', SUB), eval_('/usr/local/etc')]), ('sandir', ['/usr', g('bindir'), eval_('/usr/../bin')]),
    ]


def replay(ctx):
    rec = json.load(open(ctx.replay))
    r = rec['replay']
    print('replaying', json.dumps(r)[:2000])
    if 'case' in r:
        res = run_impl('c07.py', {'cases': [r['case']]})
        print('implementation:', repr(res['results'][0]))
        if ctx.build('Props/C07.v', 'Options/Extract.v', 'C07'):
            print('model         :', repr(ctx.run_model([tuple(r['case'])])[0]))
    if 'oracle' in r:
        res = run_impl('c07.py', {'oracle': [r['oracle']]})
        print('property clauses failing on the implementation:', json.dumps(res['oracle'], indent=1))
    if 'cli' in r:
        print(json.dumps(cli_run(ctx, r['cli']), indent=1))
    if 'clix' in r:
        print(json.dumps(cli_extra_run(ctx, 0, r['clix']), indent=1))
    return 0


# ------------------------------------------------------------------ CLI sample
CLI_OPTS = {   # name -> (meson.options declaration for project options or None for builtins, values, printer)
    'default_library': (None, ['static', 'both', 'shared']),
    'werror': (None, ['true', 'false']),
    'warning_level': (None, ['0', '2', '3']),
    'unity_size': (None, ['5', '6', '7']),
    'bindir': (None, ['b1', 'b2', 'b3']),
    'popt': ("option('popt', type: 'combo', choices: ['a','b','c','d','e','f','g','h'], value: 'a')", LETTERS),
}


def cli_project(root, name, srcs, yielding=False):
    """srcs: dict source -> value string.  Builds a top project + subproject 'sub' + native file; returns argv."""
    is_proj = CLI_OPTS[name][0] is not None
    os.makedirs(os.path.join(root, 'subprojects', SUB))
    p_do = []
    if 'p_opt' in srcs:
        p_do.append('%s=%s' % (name, srcs['p_opt']))
    if 'p_sub' in srcs:
        p_do.append('%s:%s=%s' % (SUB, name, srcs['p_sub']))
    sp = "subproject('%s'%s)" % (SUB, (", default_options: ['%s=%s']" % (name, srcs['spcall'])) if 'spcall' in srcs else '')
    with open(os.path.join(root, 'meson.build'), 'w') as f:
        f.write("project('top', default_options: %s)\nmessage('TOPVAL=@0@='.format(get_option('%s')))\n%s\n" % (json.dumps(p_do).replace('"', "'"), name, sp))
    with open(os.path.join(root, 'subprojects', SUB, 'meson.build'), 'w') as f:
        s_do = ['%s=%s' % (name, srcs['s_opt'])] if 's_opt' in srcs else []
        f.write("project('sub', default_options: %s)\nmessage('SUBVAL=@0@='.format(get_option('%s')))\n" % (json.dumps(s_do).replace('"', "'"), name))
    if is_proj:
        decl = CLI_OPTS[name][0]
        open(os.path.join(root, 'meson.options'), 'w').write(decl + '\n')
        sdecl = decl.replace("value: 'a'", "value: 'h'" + (", yield: true" if yielding else ''))
        open(os.path.join(root, 'subprojects', SUB, 'meson.options'), 'w').write(sdecl + '\n')
    sect_b, sect_p, sect_s, sect_sb = [], [], [], []
    q = lambda v: v if name in ('werror', 'unity_size') else "'%s'" % v
    if 'mf_opt' in srcs:
        (sect_p if is_proj else sect_b).append('%s = %s' % (name, q(srcs['mf_opt'])))
    if 'mf_sub' in srcs:
        if is_proj:
            sect_s.append('%s = %s' % (name, q(srcs['mf_sub'])))
        else:
            sect_sb.append('%s = %s' % (name, q(srcs['mf_sub'])))
    nat = ''
    if sect_b:
        nat += '[built-in options]\n' + '\n'.join(sect_b) + '\n'
    if sect_p:
        nat += '[project options]\n' + '\n'.join(sect_p) + '\n'
    if sect_sb:
        nat += '[%s:built-in options]\n' % SUB + '\n'.join(sect_sb) + '\n'
    if sect_s:
        nat += '[%s:project options]\n' % SUB + '\n'.join(sect_s) + '\n'
    argv = ['setup', '--backend=none', os.path.join(root, 'b'), root]
    if nat:
        open(os.path.join(root, 'native.ini'), 'w').write(nat)
        argv += ['--native-file', os.path.join(root, 'native.ini')]
    if 'cl_opt' in srcs:
        argv.append('-D%s=%s' % (name, srcs['cl_opt']))
    if 'cl_sub' in srcs:
        argv.append('-D%s:%s=%s' % (SUB, name, srcs['cl_sub']))
    return argv


def cli_run(ctx, case):
    """case: {'name','srcs','yield'} -> observed/expected values at CLI level"""
    import re
    root = os.path.join(ctx.mkscratch(), 'cli-%d' % case['id'])
    shutil.rmtree(root, ignore_errors=True)
    os.makedirs(root)
    argv = cli_project(root, case['name'], case['srcs'], case.get('yield', False))
    r = meson_cli(argv, cwd=root, timeout=300)
    out = r.stdout + r.stderr
    top = re.search(r'TOPVAL=(.*?)=\n', out)
    sub = re.search(r'SUBVAL=(.*?)=\n', out)
    res = {'rc': r.returncode, 'top': top.group(1) if top else None, 'sub': sub.group(1) if sub else None}
    if r.returncode == 0:
        ri = meson_cli(['introspect', '--buildoptions', os.path.join(root, 'b')], cwd=root, timeout=120)
        try:
            bo = json.loads(ri.stdout)
            conv = lambda v: ('true' if v else 'false') if isinstance(v, bool) else str(v)
            res['intro_top'] = next((conv(o['value']) for o in bo if o['name'] == case['name']), None)
            res['intro_sub'] = next((conv(o['value']) for o in bo if o['name'] == SUB + ':' + case['name']), None)
        except Exception as e:
            res['intro_error'] = type(e).__name__
    else:
        res['tail'] = out[-600:]
    shutil.rmtree(root, ignore_errors=True)
    # expected by the property text
    srcs, name = case['srcs'], case['name']
    is_proj = CLI_OPTS[name][0] is not None
    default = {'default_library': 'shared', 'werror': 'false', 'warning_level': '1', 'unity_size': '4', 'bindir': 'bin', 'popt': 'a'}[name]
    want_top = next((srcs[s] for s in ('cl_opt', 'mf_opt', 'p_opt') if s in srcs), default)
    order = ['s_opt', 'p_sub', 'spcall', 'mf_sub', 'cl_sub'] if is_proj else SOURCES
    want_sub = next((srcs[s] for s in reversed(order) if s in srcs), None)
    if want_sub is None:
        want_sub = (want_top if case.get('yield') else 'h') if is_proj else default
    res['want_top'], res['want_sub'] = want_top, want_sub
    return res


# ------------------------------------------------------------------ CLI end-to-end projects
# Each case: files, extra argv, and what the property text says must come out: either the
# values printed by message('NAME=@0@='.format(get_option(...))) or a refusal (rc != 0).
def _msg(*names, sub=False):
    return ''.join("message('%s%s=@0@='.format(get_option('%s')))\n" % ('S_' if sub else '', n.replace('.', '_'), n) for n in names)


def cli_extra_cases():
    C = []

    def add(name, files, args, expect=None, fail=False):
        C.append({'name': name, 'files': files, 'args': args, 'expect': expect or {}, 'fail': fail})
    dirs = _msg('prefix', 'sysconfdir', 'localstatedir', 'sharedstatedir', 'bindir')
    add('prefix-default', {'meson.build': "project('p')\n" + dirs}, [],
        {'prefix': '/usr/local', 'sysconfdir': 'etc', 'localstatedir': '/var/local', 'sharedstatedir': '/var/local/lib', 'bindir': 'bin'})
    add('prefix-usr-cmdline', {'meson.build': "project('p', default_options: ['prefix=/opt/x'])\n" + dirs}, ['-Dprefix=/usr/'],
        {'prefix': '/usr', 'sysconfdir': '/etc', 'localstatedir': '/var', 'sharedstatedir': '/var/lib'})
    add('prefix-default-options', {'meson.build': "project('p', default_options: ['prefix=/opt/x'])\n" + dirs}, [],
        {'prefix': '/opt/x', 'sysconfdir': 'etc', 'localstatedir': 'var', 'sharedstatedir': 'com'})
    add('prefix-machine-file-beats-default', {'meson.build': "project('p', default_options: ['prefix=/opt/x', 'sysconfdir=/my/etc'])\n" + dirs,
                                              'native.ini': "[built-in options]\nprefix = '/usr'\n"}, ['--native-file', 'native.ini'],
        {'prefix': '/usr', 'sysconfdir': '/my/etc', 'localstatedir': '/var'})
    add('dir-inside-prefix-relativised', {'meson.build': "project('p')\n" + dirs}, ['-Dprefix=/opt/x', '-Dbindir=/opt/x/mybin', '-Dsysconfdir=/opt/x/etc'],
        {'prefix': '/opt/x', 'bindir': 'mybin', 'sysconfdir': '/opt/x/etc'})
    add('dir-dotdot-rejected', {'meson.build': "project('p')\n"}, ['-Dbindir=/usr/local/../bin'], fail=True)
    add('prefix-relative-rejected', {'meson.build': "project('p')\n"}, ['-Dprefix=rel/dir'], fail=True)
    bt = _msg('buildtype', 'debug', 'optimization')
    add('buildtype-release', {'meson.build': "project('p')\n" + bt}, ['-Dbuildtype=release'],
        {'buildtype': 'release', 'debug': 'false', 'optimization': '3'})
    add('buildtype-explicit-debug-before-on-cmdline', {'meson.build': "project('p')\n" + bt}, ['-Ddebug=true', '-Doptimization=1', '-Dbuildtype=release'],
        {'buildtype': 'release', 'debug': 'true', 'optimization': '1'})
    add('buildtype-default-options-then-cmdline-explicit', {'meson.build': "project('p', default_options: ['buildtype=minsize'])\n" + bt}, ['-Doptimization=2'],
        {'buildtype': 'minsize', 'debug': 'true', 'optimization': '2'})
    add('buildtype-machine-file', {'meson.build': "project('p')\n" + bt, 'native.ini': "[built-in options]\nbuildtype = 'debugoptimized'\n"},
        ['--native-file', 'native.ini'], {'buildtype': 'debugoptimized', 'debug': 'true', 'optimization': '2'})
    add('invalid-combo-rejected', {'meson.build': "project('p')\n"}, ['-Dwarning_level=9'], fail=True)
    add('invalid-range-rejected', {'meson.build': "project('p')\n"}, ['-Dunity_size=1'], fail=True)
    add('invalid-bool-rejected', {'meson.build': "project('p', default_options: ['werror=maybe'])\n"}, [], fail=True)
    add('invalid-machine-file-type-rejected', {'meson.build': "project('p')\n", 'native.ini': "[built-in options]\nunity_size = 'many'\n"},
        ['--native-file', 'native.ini'], fail=True)
    add('invalid-project-option-choice-rejected', {'meson.build': "project('p')\n", 'meson.options': "option('c', type: 'combo', choices: ['a', 'b'], value: 'a')\n"},
        ['-Dc=z'], fail=True)
    add('invalid-array-choice-rejected', {'meson.build': "project('p')\n", 'meson.options': "option('arr', type: 'array', choices: ['a', 'b'], value: ['a'])\n"},
        ['-Darr=a,z'], fail=True)
    add('unknown-option-rejected', {'meson.build': "project('p')\n"}, ['-Dno_such_option=1'], fail=True)
    add('module-option', {'meson.build': "project('p', default_options: ['python.bytecompile=1'])\n" + _msg('python.bytecompile', 'python.install_env')},
        ['-Dpython.install_env=venv', '-Dpython.bytecompile=2'], {'python_bytecompile': '2', 'python_install_env': 'venv'})
    add('module-option-range-rejected', {'meson.build': "project('p')\n"}, ['-Dpython.bytecompile=7'], fail=True)
    add('per-machine-array', {'meson.build': "project('p')\n" + _msg('pkg_config_path', 'build.pkg_config_path')},
        ['-Dpkg_config_path=/a,/b', '-Dbuild.pkg_config_path=/c'],
        {'pkg_config_path': "['/a', '/b']", 'build_pkg_config_path': "['/a', '/b']"})      # native: build.X reads X, setting it is ignored
    dep_opts = ("option('old_name', type: 'string', value: 'o', deprecated: 'new_name')\n"
                "option('new_name', type: 'string', value: 'n')\n"
                "option('b', type: 'boolean', value: true, deprecated: {'yes': 'true', 'no': 'false'})\n")
    add('deprecated-rename-and-map', {'meson.build': "project('p')\n" + _msg('old_name', 'new_name', 'b'), 'meson.options': dep_opts},
        ['-Dold_name=v', '-Db=no'], {'old_name': 'v', 'new_name': 'v', 'b': 'false'})
    # cross builds: native file = build machine, cross file = host machine, [sub:...] sections per subproject
    XHOST = "[host_machine]\nsystem = 'linux'\ncpu_family = 'x86_64'\ncpu = 'x86_64'\nendian = 'little'\n"
    pm = _msg('pkg_config_path', 'build.pkg_config_path')
    xfiles = {'meson.build': "project('top')\n" + pm + "subproject('sub')\n",
              'subprojects/sub/meson.build': "project('sub')\n" + _msg('pkg_config_path', 'build.pkg_config_path', sub=True)}
    add('cross-native-and-cross-file-with-sub-sections',
        dict(xfiles, **{'native.ini': "[built-in options]\npkg_config_path = '/n'\n[sub:built-in options]\npkg_config_path = '/nsub'\n",
                        'cross.ini': XHOST + "[built-in options]\npkg_config_path = '/c'\n[sub:built-in options]\npkg_config_path = '/csub'\n"}),
        ['--native-file', 'native.ini', '--cross-file', 'cross.ini'],
        {'pkg_config_path': "['/c']", 'build_pkg_config_path': "['/n']", 'S_pkg_config_path': "['/csub']", 'S_build_pkg_config_path': "['/nsub']"})
    add('cross-native-sub-section-only',
        dict(xfiles, **{'native.ini': "[sub:built-in options]\npkg_config_path = '/nsub'\n", 'cross.ini': XHOST}),
        ['--native-file', 'native.ini', '--cross-file', 'cross.ini'],
        {'pkg_config_path': '[]', 'build_pkg_config_path': '[]', 'S_pkg_config_path': '[]', 'S_build_pkg_config_path': "['/nsub']"})
    add('cross-cmdline-sub-build-beats-native-file',
        dict(xfiles, **{'native.ini': "[built-in options]\npkg_config_path = '/n'\n[sub:built-in options]\npkg_config_path = '/nsub'\n", 'cross.ini': XHOST}),
        ['--native-file', 'native.ini', '--cross-file', 'cross.ini', '-Dsub:build.pkg_config_path=/cl', '-Dpkg_config_path=/h'],
        {'pkg_config_path': "['/h']", 'build_pkg_config_path': "['/n']", 'S_pkg_config_path': "['/h']", 'S_build_pkg_config_path': "['/cl']"})
    add('cross-native-non-per-machine-option-dropped',
        {'meson.build': "project('top')\n" + _msg('werror', 'default_library'),
         'native.ini': "[built-in options]\nwerror = true\n", 'cross.ini': XHOST + "[built-in options]\ndefault_library = 'static'\n"},
        ['--native-file', 'native.ini', '--cross-file', 'cross.ini'], {'werror': 'false', 'default_library': 'static'})
    # yielding
    def ysub(topdecl, subdecl, args, want_top, want_sub, name):
        add(name, {'meson.build': "project('top')\n" + _msg('mode') + "subproject('sub')\n", 'meson.options': topdecl + '\n',
                   'subprojects/sub/meson.build': "project('sub')\n" + _msg('mode', sub=True),
                   'subprojects/sub/meson.options': subdecl + '\n'}, args, {'mode': want_top, 'S_mode': want_sub})
    ysub("option('mode', type: 'feature', value: 'auto')", "option('mode', type: 'combo', choices: ['fast', 'slow'], value: 'fast', yield: true)",
         ['-Dmode=enabled'], 'enabled', 'fast', 'yield-different-type-not-followed')
    ysub("option('mode', type: 'combo', choices: ['fast', 'slow'], value: 'fast')", "option('mode', type: 'combo', choices: ['fast', 'slow'], value: 'fast', yield: true)",
         ['-Dmode=slow'], 'slow', 'slow', 'yield-same-type-follows-parent')
    ysub("option('mode', type: 'combo', choices: ['fast', 'slow'], value: 'fast')", "option('mode', type: 'combo', choices: ['fast', 'slow'], value: 'fast', yield: true)",
         ['-Dmode=slow', '-Dsub:mode=fast'], 'slow', 'fast', 'yield-explicit-sub-value-wins')
    ysub("option('mode', type: 'string', value: 't')", "option('mode', type: 'boolean', value: true, yield: true)",
         ['-Dmode=x'], 'x', 'true', 'yield-string-vs-boolean')
    return C


def cli_extra_run(ctx, idx, case):
    import re
    root = os.path.join(ctx.mkscratch(), 'clix-%d' % idx)
    shutil.rmtree(root, ignore_errors=True)
    for rel, text in case['files'].items():
        p = os.path.join(root, rel)
        os.makedirs(os.path.dirname(p), exist_ok=True)
        open(p, 'w').write(text)
    argv = ['setup', '--backend=none', os.path.join(root, 'b'), root] + [os.path.join(root, a) if a.endswith('.ini') else a for a in case['args']]
    r = meson_cli(argv, cwd=root, timeout=600)
    out = r.stdout + r.stderr
    got = dict(re.findall(r'Message: (\w+)=(.*?)=\n', out))
    shutil.rmtree(root, ignore_errors=True)
    bad = []
    if case['fail']:
        if r.returncode == 0:
            bad.append('accepted (rc=0) although the value violates the option')
        elif 'Traceback' in out or 'Unhandled python' in out:
            bad.append('refused with an internal error instead of a MesonException')
    else:
        if r.returncode != 0:
            bad.append('setup failed: ' + out[-300:])
        for k, v in case['expect'].items():
            if got.get(k) != v:
                bad.append('%s: expected %r, got %r' % (k, v, got.get(k)))
    return {'name': case['name'], 'rc': r.returncode, 'got': got, 'bad': bad}


def run(ctx):
    if ctx.replay:
        return replay(ctx)
    rng = ctx.rng
    thorough = ctx.tier == 'thorough'
    built = ctx.build('Props/C07.v', 'Options/Extract.v', 'C07')
    libdir = run_impl('c07.py', {'libdir': 1})['libdir']

    cases, scen = [], []
    corp = corpus(libdir)
    cases += corp
    # ---- exhaustive: 2^8 source subsets x option configurations x {native, cross}; realistic value classes, all valid
    nexh = 0
    for ci, cfg in enumerate(CONFIGS):
        for cross in (False, True):
            if cfg.get('build') and not cross and not thorough:
                pass
            for mask in range(256):
                sc = clean(scenario(cfg, mask, cross, REALISTIC, rng))
                if cfg['cls'] != 'compiler' and (cross or not cfg.get('build')):
                    scen.append(sc)       # natively, build-machine keys are ignored by design (options.py:1291-1294)
                cases.append(scenario_seq(sc, libdir, dump=(mask % 16 == 5)))
                nexh += 1
    # ---- the same grid with a random value class per source (typed / string / invalid)
    reps = 6 if thorough else 1
    for _ in range(reps):
        for cfg in CONFIGS:
            for mask in range(1, 256):
                cross = rng.random() < 0.3
                classes = {s: rng.choice(['typed', 'string', 'string', 'invalid'] if rng.random() < 0.5 else ['typed', 'string']) for s in SOURCES}
                sc = clean(scenario(cfg, mask, cross, classes, rng))
                if cfg['cls'] != 'compiler' and (cross or not cfg.get('build')):
                    scen.append(sc)
                pre = eval_(cfg['tostr'](cfg['typed'][rng.randrange(8)])) if rng.random() < 0.12 else None
                cases.append(scenario_seq(sc, libdir, dump=False, pre_augment=pre))
    # ---- random operation sequences
    nseq = 100000 if thorough else 5000
    for _ in range(nseq):
        cases.append(rand_seq(rng, libdir))
    # ---- yielding grid (all ordered pairs of kinds); an exception in the middle is part of the observable,
    #      so every prefix of the sequence is played as its own case
    for sc in yield_grid():
        fn, args = yield_seq(sc, libdir)
        cases.append((fn, args))
        if 'set' in sc:
            cases.append((fn, args[:-4] + args[-2:]))      # without the failing/succeeding set of the parent
    # ---- machine files: key text / section / machine -> OptionKey, and Environment.options of real files
    cases += mf_cases(rng, 4000 if thorough else 700)
    # ---- validate_value cells: every kind x junk/valid values
    for kind in KINDS + [kint(2, None), kint(-1, 2), kcombo(LETTERS)]:
        for v in JUNK:
            cases.append(('val', [kind, eval_(v)]))
            cases.append(('sat', [kind, eval_(v)]))
        for _ in range(60 if thorough else 15):
            cases.append(('val', [kind, eval_(valid_for(kind, rng))]))
    # ---- prefix / directory sanitising
    comps = ['usr', 'local', 'lib', '..', '.', '', 'etc', 'x y', 'opt']
    def rpath():
        p = '/'.join(rng.choice(comps) for _ in range(rng.randint(0, 4)))
        return rng.choice(['', '/', '//', '///', '/usr/local/', '/usr/']) + p + rng.choice(['', '', '/', '\\'])
    for _ in range(6000 if thorough else 1200):
        cases.append(('sanprefix', [rpath() if rng.random() < 0.8 else rng.choice(PATHS)]))
        nm = rng.choice(['bindir', 'libdir', 'sysconfdir', 'localstatedir', 'buildtype', 'python.purelibdir', 'dir', 'xdir'])
        cases.append(('sandir', [rng.choice(['/usr', '/usr/local', '/', '//usr', '/opt/x', 'rel']),
                                 ekey(nm, rng.choice([None, None, SUB])), eval_(rpath() if rng.random() < 0.85 else rng.choice(JUNK))]))
    for _ in range(300):
        rd = rand_dict(rng, 5)
        if rng.random() < 0.5 and not any(k == ekey('buildtype') for k, _ in rd):
            rd.insert(rng.randint(0, len(rd)), (ekey('buildtype'), 'release'))
        cases.append(('reorder', [edict(rd)]))

    # ---------------- implementation vs model
    CH = 20000
    impl, stored_bad = [], []
    chunks = [cases[i:i + CH] for i in range(0, len(cases), CH)]
    from concurrent.futures import ThreadPoolExecutor
    with ThreadPoolExecutor(max_workers=min(NPROC, 8)) as ex:
        for r in ex.map(lambda c: run_impl('c07.py', {'cases': c, 'scratch': ctx.mkscratch()}), chunks):
            impl += r['results']
            stored_bad += r['stored_invalid']
    model = ctx.run_model(cases, shards=NPROC) if built else impl
    oom = 0
    dist = {}
    for (fn, args), ri, rm in zip(cases, impl, model):
        if rm.endswith('EXC:OOM') or ri == 'SKIP':
            oom += 1
            continue
        ctx.count((fn, tuple(args)), nontrivial=True)
        dist[fn] = dist.get(fn, 0) + 1
        tail = ri.rsplit(S1, 1)[-1]
        if tail.startswith('EXC:'):
            dist['error:' + tail[4:]] = dist.get('error:' + tail[4:], 0) + 1
        if ri != rm:
            if len(ctx.disagreements) < 200:
                ctx.disagreements.append({'case': [fn, args], 'implementation': ri, 'model': rm})
    ctx.cov['traces_validated_against_impl'] = len(cases) - oom
    ctx.extra['out_of_model'] = oom
    ctx.extra['input_distribution'] = dist
    ctx.extra['exhaustive'] = True
    ctx.extra['exhaustive_cells'] = {'source_subsets': 256, 'option_configurations': len(CONFIGS), 'native_and_cross': 2, 'cells': nexh}
    for s in [cases[len(corp) + 200], cases[len(corp) + 5000], cases[-1]]:
        ctx.sample({'fn': s[0], 'args': [a.replace(S1, '|').replace(S2, ';').replace(S3, '=').replace(S4, ',').replace(S5, '^') for a in s[1]][:8]})
    if built:
        small = [(c, m) for c, m in zip(cases, model) if len(m) < 400 and sum(len(a) for a in c[1]) < 700]
        ctx.kernel_crosscheck('Options.Entry', [c for c, _ in small], [m for _, m in small], limit=200)

    # ---------------- the property's clauses evaluated on the implementation
    for b in stored_bad:
        ctx.violation('C07:stored_invalid:' + json.dumps(b['keys']), 'a stored option value violates its type/choices/range: %s' % b['keys'],
                      {'case': ['seq', b['seq']], 'failure': b})
    # ---- yielding: every ordered pair of option kinds (parent, child), incl. same type with different
    #      choices / ranges and the subclass pair feature/combo, with and without yield, parent absent,
    #      parent or child changed afterwards
    ygrid = yield_grid()
    ctx.extra['yield_pairs'] = len(ygrid)
    scen += ygrid
    # ---- an override that exists before the subproject is initialised keeps priority (all subsets of the
    #      six sources that can reach the subproject key)
    for cfg in CONFIGS:
        if cfg['cls'] not in ('builtin', 'module') or cfg.get('build'):
            continue
        srcs6 = ['s_opt', 'mf_opt', 'cl_opt', 'spcall', 'mf_sub', 'cl_sub']
        for mask in range(64):
            src = {sname: eval_(source_value(cfg, SOURCES.index(sname), REALISTIC[sname], rng)) for j, sname in enumerate(srcs6) if mask >> j & 1}
            scen.append(dict(o='aug', name=cfg['name'], pre=eval_(cfg['tostr'](cfg['typed'][4])), src=src, cross=bool(mask & 1)))
    # ---- read-only options, renamed options, replaced deprecated values
    for first in (True, False):
        for nm, kd, vals in (('backend', kcombo(['ninja', 'vs', 'vs2010', 'vs2012', 'vs2013', 'vs2015', 'vs2017', 'vs2019', 'vs2022', 'vs2026', 'xcode', 'none']),
                              ['ninja', 'none', 'xcode', 'bogus']), ('vsenv', 'b', [True, False, 'true', 'false', 'perhaps'])):
            for v in vals:
                scen.append(dict(o='misc', t='readonly', name=nm, kind=kd, value=eval_(v), first=first))
    for cfg in CONFIGS[:6]:
        for v in cfg['typed'][:3] + [cfg['tostr'](cfg['typed'][3])] + cfg['invalid'][:2]:
            for via in ('set', 'top'):
                scen.append(dict(o='misc', t='rename', kind=cfg['kind'], default=eval_(cfg['default']), value=eval_(v), via=via))
    dmap = 'm' + S5 + 'old' + S4 + 'a' + S5 + 'yes' + S4 + 'true' + S5 + 'legacy' + S4 + 'zz'
    for kind, default, cells in ((kcombo(LETTERS), 'b', [('old', 'Sa'), ('c', 'Sc'), ('legacy', None), ('zz', None)]),
                                 ('b', False, [('yes', 'T'), ('true', 'T'), ('no', None)]),
                                 (karr(LETTERS), [], [('old,b', 'L' + S4 + 'a' + S4 + 'b'), ('c', 'L' + S4 + 'c'), ('legacy', None)]),
                                 ('s', 'x', [('old', 'Sa'), ('other', 'Sother')])):
        for v, want in cells:
            scen.append(dict(o='misc', t='replace', kind=kind, default=eval_(default), depr=dmap, value=eval_(v), want=want))
    # ---- machine files: every (file, section subproject, section kind, per-machine or not, build. prefix, is_cross)
    #      cell alone, then random non-colliding combinations
    mf_names = {'builtin': ['pkg_config_path', 'werror', 'c_args'], 'project': ['foo']}
    cells = [(f, subp, kind, name, bp) for f in ('native', 'cross') for subp in ('', 'sub', 'other') for kind in ('builtin', 'project')
             for name in mf_names[kind] for bp in (False, True)]
    for cross in (False, True):
        for c in cells:
            if c[0] == 'cross' and not cross:
                continue
            scen.append(dict(o='mf', cross=cross, entries=[list(c) + ['/v']]))
        for _ in range(300 if thorough else 80):
            ents, seen = [], set()
            for i, c in enumerate(rng.sample(cells, rng.randint(2, 7))):
                if c[0] == 'cross' and not cross:
                    continue
                key = (c[1], c[4] or (c[0] == 'native' and cross), c[3])
                if key in seen:
                    continue
                seen.add(key)
                ents.append(list(c) + ['/v%d' % i])
            if ents:
                scen.append(dict(o='mf', cross=cross, entries=ents))
    # buildtype and prefix scenarios (exhaustive over sources)
    for bt in ['plain', 'debug', 'debugoptimized', 'release', 'minsize', 'custom']:
        for sb in ('p', 'mf', 'cl'):
            for dbg in [None] + [(s, v) for s in ('p', 'mf', 'cl') for v in ('true', 'false')]:
                for opt in [None] + [(s, v) for s in ('p', 'mf', 'cl') for v in ('0', '3', 's')]:
                    scen.append({'o': 'bt', 'bt': (sb, bt), 'debug': dbg, 'opt': opt})
    prefs = ['/usr', '/usr/local', '/opt/x', '/usr/', '/']
    for k in range(1, 8):
        for combo in itertools.product(prefs, repeat=bin(k).count('1')):
            it = iter(combo)
            pd = {s: next(it) for i, s in enumerate(('p', 'mf', 'cl')) if k >> i & 1}
            scen.append({'o': 'prefix', 'prefix': pd, 'explicit': {}})
            scen.append({'o': 'prefix', 'prefix': pd, 'explicit': {'sysconfdir': (rng.choice(['p', 'mf', 'cl']), '/my/etc')}})
    # neighbourhood of every disagreeing precedence case
    res = []
    och = [scen[i:i + 6000] for i in range(0, len(scen), 6000)]
    with ThreadPoolExecutor(max_workers=min(NPROC, 8)) as ex:
        for r in ex.map(lambda c: run_impl('c07.py', {'oracle': c, 'scratch': ctx.mkscratch()}), och):
            res += r['oracle']
    ctx.extra['oracle_scenarios'] = len(scen)
    for f in res:
        sc = f.get('scenario', {})
        ident = 'C07:%s:%s' % (f['kind'], json.dumps(sc, sort_keys=True))
        if f['kind'] == 'effective_value_valid' and f.get('same_type') and f.get('yielding'):
            # documented behaviour (the subproject sees the superproject's value) collides with the
            # option's own choices/range: one finding for the whole class of inputs
            ident = 'C07:yielding-value-outside-own-choices'
        ctx.violation(ident, 'property clause %s fails on the implementation: %s'
                      % (f['kind'], json.dumps({k: v for k, v in f.items() if k != 'scenario'})), {'oracle': sc, 'failure': f})

    # ---------------- CLI sample: values printed by get_option() in both projects and introspect --buildoptions
    ncli = 256 if thorough else 40
    cli_cases = []
    names = list(CLI_OPTS)
    for i in range(ncli):
        name = names[i % len(names)]
        is_proj = CLI_OPTS[name][0] is not None
        vals = CLI_OPTS[name][1]
        mask = rng.randrange(256) if not thorough else (i * 37 + 11) % 256
        srcs = {}
        for j, s in enumerate(SOURCES):
            if mask >> j & 1:
                if is_proj and s in ('p_opt', 'mf_opt', 'cl_opt'):
                    continue
                srcs[s] = vals[j % len(vals)] if name != 'popt' else LETTERS[j]
        if is_proj and rng.random() < 0.5:
            for j, s in enumerate(('p_opt', 'mf_opt', 'cl_opt')):
                if rng.random() < 0.4:
                    srcs[s] = LETTERS[j + 1]     # sets the TOP project's popt
        cli_cases.append({'id': i, 'name': name, 'srcs': srcs, 'yield': is_proj and i % 2 == 0})
    cli_res = pmap(lambda c: cli_run(ctx, c), cli_cases)
    ncli_ok = 0
    for c, r in zip(cli_cases, cli_res):
        ctx.count(('cli', json.dumps(c, sort_keys=True)))
        # for a project option the top-level sources name the TOP project's option: the subproject order is 2,5..8
        bad = []
        if r['rc'] != 0:
            bad.append('setup failed')
        else:
            ncli_ok += 1
            if r['top'] != r['want_top'] or r.get('intro_top') != r['want_top']:
                bad.append('top')
            if r['sub'] != r['want_sub'] or (r.get('intro_sub') is not None and r.get('intro_sub') != r['want_sub']):
                bad.append('sub')
        if bad:
            ctx.violation('C07:cli:' + json.dumps(c, sort_keys=True), 'CLI-level option value differs from the documented precedence (%s): %s'
                          % (','.join(bad), json.dumps(r)), {'cli': c, 'result': r})
    xcases = cli_extra_cases()
    xres = pmap(lambda ic: cli_extra_run(ctx, ic[0], ic[1]), list(enumerate(xcases)))
    for c, r in zip(xcases, xres):
        ctx.count(('clix', c['name']))
        if r['bad']:
            ctx.violation('C07:cli-project:' + c['name'], 'end-to-end project %s: %s' % (c['name'], '; '.join(r['bad'])),
                          {'clix': c, 'result': r})
    ctx.extra['cli_projects'] = len(xcases)
    ctx.extra['cli_projects_ok'] = sum(1 for r in xres if not r['bad'])
    ctx.cov['traces_validated_against_impl'] += len(xcases)
    ctx.extra['cli_configs'] = len(cli_cases)
    ctx.extra['cli_configs_ok'] = ncli_ok
    ctx.cov['traces_validated_against_impl'] += len(cli_cases)

    if os.environ.get('C07_DEBUG'):
        json.dump({'disagreements': ctx.disagreements, 'violations': ctx.violations, 'oracle': res[:300], 'cli': [(c, r) for c, r in zip(cli_cases, cli_res)]}, open(os.environ['C07_DEBUG'], 'w'), indent=1, default=str)
    return ctx.finish(
        level='proof',
        trusted=['Coq 8.16.1 kernel (coqc, vm_compute; no native_compute)',
                 'extraction with ExtrOcamlBasic directives only + OCaml + extract/driver.ml (cross-checked in-kernel on a sample each run)',
                 'harness/check_C07.py generators and harness/impl/c07.py adapter/canonicaliser/oracle',
                 'hand-transcribed tables (BUILTIN options, DEFAULT_DEPENDENTS, BUILTIN_DIR_NOPREFIX_OPTIONS, _BUILTIN_NAMES, all_languages, '
                 'base option names) compared with the live values on every run (corpus cases "tables" and "dump")',
                 'not modelled: UserUmaskOption (install_umask), UserStdOption, shlex-split arrays, "[...]" array literals (ast.literal_eval), '
                 'non-ASCII digits in int(), "~" prefixes, Windows path classes, optinterpreter/machine-file parsing (CLI sample only)'],
        assumptions=['Print Assumptions: all property theorems closed under the global context (no axioms)',
                     'POSIX host path semantics (PurePosixPath, Python 3.12 relative_to)'],
        rule='(1) exhaustive: every subset of the 8 documented value sources x %d option configurations (string, boolean, integer with range, '
             'combo, array with choices, feature, builtin, per-machine host/build, module-prefixed, project options yielding or not, pending '
             'compiler option) x native/cross, played through OptionStore.initialize_from_top_level_project_call / '
             'initialize_from_subproject_call and through the extracted Coq model; (2) the same grid with random value classes '
             '(typed / string / invalid); (3) seeded random sequences of store operations (add_*_option, set_option, set_user_option, both '
             'initialisers, reads, full state dumps); (4) validate_value cells, prefix/dir sanitising, cmdline buildtype reordering, table dump; '
             '(5) oracle: documented priority order, buildtype table, prefix-dependent directories and validity evaluated on the '
             'implementation alone; (6) CLI sample (meson setup + introspect --buildoptions).  distinct = distinct (function, arguments) tuples'
             % len(CONFIGS))
