"""C04 — the generated Ninja manifest is well-formed and closed.
Theorems: coq/Props/C04.v.  Judge: coq/Graph/{Manifest,Check}.v (extracted).  Mechanism model:
coq/Graph/Mech.v.  Implementation: mesonbuild/backend/ninjabackend.py (NinjaBuild, NinjaBuildElement,
generate_*), mesonbuild/interpreter/interpreter.py (validate_forbidden_targets), observed in process
and through `meson setup` with the Ninja backend.

Streams
  A  mechanism     random / exhaustive NinjaBuild op sequences: implementation (text written, read back by
                   the extracted parser) vs the mechanism model; oracle: no path produced twice, rules defined
  B  names         validate_forbidden_targets vs name_rejected; FORBIDDEN_TARGET_NAMES vs the model's table
  C  reader        reference readings of the Ninja grammar: extracted Coq parser vs the independent Python
                   reader of harness/impl/c04.py on generated manifest texts (valid + malformed)
  D  CLI           generated projects (target graphs) and repository test projects -> meson setup ->
                   build.ninja -> extracted parser + `check` (files that exist supplied by the harness)
"""
import itertools, json, os, shutil, hashlib
from common import *

S1, S2, S3, S4 = '\x01', '\x02', '\x03', '\x04'


# ====================================================================== stream A: mechanism
MNAMES = ['a', 'b', 'c', 'out/x', 'd e', 'f$g', 'h:i', 'ü', 'k#', 'l.o', "m'n", 'p"q', 'r;s', '$t', 'u v w', '../z', '/abs/y']
MRULES = ['R', 'S', 'phony', 'c_COMPILER', 'T.x-y_z']


def op_wire(o):
    if o[0] == 'R':
        return 'R' + S1 + o[1]
    return S1.join(['B'] + [S2.join(f) if isinstance(f, list) else f for f in o[1:]])


def gen_mech(rng):
    k = rng.choice([1, 2, 2, 3, 3, 4, 5, 6, 8])
    wild = rng.random() < 0.25
    pool = MNAMES + (['p|q', '|'] if rng.random() < 0.04 else [])
    names = rng.sample(pool, rng.choice([2, 3, 3, 4, 6]) if wild else min(len(pool), 3 * k + 4))
    rules = rng.sample(MRULES, rng.choice([1, 2, 2, 3]))
    ops = []
    # mostly: rules first (as the backend does), sometimes interleaved / missing / duplicated
    style = rng.random() if wild else 0.0
    if style < 0.75:
        for r in rules:
            if r != 'phony' or rng.random() < 0.1:
                ops.append(['R', r])
    fresh = list(names)
    rng.shuffle(fresh)

    def out_name():
        if not wild and fresh and rng.random() < 0.93:
            return fresh.pop()
        return rng.choice(names)
    for _ in range(k):
        if style >= 0.75 and rng.random() < 0.3:
            ops.append(['R', rng.choice(rules)])
            continue
        outs = [out_name() for _ in range(rng.choice([1, 1, 1, 2, 3]))]
        iouts = [out_name() for _ in range(rng.choice([0, 0, 0, 1, 2]))]
        ins = [rng.choice(names) for _ in range(rng.choice([0, 1, 1, 2]))]
        deps = [rng.choice(names) for _ in range(rng.choice([0, 0, 1, 3]))]
        oos = [rng.choice(names) for _ in range(rng.choice([0, 0, 1, 2]))]
        rule = rng.choice(rules) if (not wild or rng.random() < 0.9) else rng.choice(MRULES)
        ops.append(['B', outs, iouts, rule, ins, deps, oos])
    if rng.random() < 0.03:
        ops.append(['R', rng.choice(rules)])
    return ops


def exhaustive_mech(maxlen):
    """every op sequence of length <= maxlen over a small alphabet of operations"""
    alpha = [['R', 'R'], ['R', 'S']]
    for outs, iouts in ((['a'], []), (['b'], []), (['a', 'b'], []), (['a'], ['b']), (['b'], ['a']), (['c'], ['a', 'a'])):
        for rule in ('R', 'phony'):
            alpha.append(['B', outs, iouts, rule, ['i'], [], []])
    seqs = []
    for n in range(0, maxlen + 1):
        for t in itertools.product(alpha, repeat=n):
            seqs.append([list(o) for o in t])
    return seqs


MECH_CORPUS = [
    [['R', 'R'], ['B', ['a'], ['i'], 'R', ['x'], [], []], ['B', ['b'], ['i'], 'R', ['x'], [], []]],     # DESIGN 4 (j)
    [['R', 'R'], ['B', ['a'], [], 'R', ['x'], [], []], ['B', ['b'], ['a'], 'R', ['x'], [], []]],
    [['R', 'R'], ['B', ['a'], ['b', 'b'], 'R', [], [], []]],
    [['R', 'R'], ['B', ['a'], [], 'R', ['x'], [], []], ['B', ['a'], [], 'phony', [], [], []]],
    [['R', 'R'], ['B', ['a', 'a'], [], 'R', [], [], []]],
    [['B', ['a'], [], 'R', ['x'], [], []], ['R', 'R']],
    [['R', 'R'], ['R', 'R']],
    [['R', 'R'], ['B', ['d e', 'f$g', 'h:i'], ['k#'], 'R', ['#x', 'ü'], ['z', 'y', 'z'], ['o2', 'o1']]],
    [['R', 'phony'], ['B', ['a'], [], 'phony', [], [], []]],
    [],
]


def mech_oracle_idents(ops, orc):
    kinds = sorted(set(e[0] for e in orc))
    return 'C04:mech:%s:%s' % ('+'.join(kinds), json.dumps(ops, ensure_ascii=True))


# ====================================================================== stream E: aggregates
TOBJS = ['T:e1', 'T:e2', 'T:c1', 'I:c2', 'I:c1', 'L:T:e3', 'L:T:e1', 'L:I:c3', 'L:T:c4', 'L:O', 'O']


def gen_tests(rng):
    ts = []
    for _ in range(rng.choice([0, 1, 1, 2, 3])):
        ts.append([rng.choice(TOBJS), [rng.choice(TOBJS) for _ in range(rng.choice([0, 0, 1, 2]))],
                   [rng.choice(['T:e1', 'T:e4', 'T:c1', 'I:c5']) for _ in range(rng.choice([0, 0, 1, 2]))]])
    return ts


def test_wire(t):
    return S1.join([t[0], S2.join(t[1]), S2.join(t[2])])


def runs_or_depends_on(t):
    """the targets a test runs or depends on, straight from the test's objects"""
    def ids(o):
        while o.startswith('L:'):
            o = o[2:]
        return [o[2:]] if o[:2] in ('T:', 'I:') else []
    return [i for o in [t[0]] + t[1] + t[2] for i in ids(o)]


# ====================================================================== stream C: manifest texts
def q(p):
    return p.replace('$', '$$').replace(' ', '$ ').replace(':', '$:')


def gen_text(rng, malformed):
    names = rng.sample(['a', 'b', 'c', 'd e', 'x/../y', './z', 'o//p', 'q$r', 's:t', 'ü', '/abs/w', '../up', 'v#', 'in.c', 'g.h'],
                       rng.choice([3, 4, 6]))
    lines = ['# comment $', 'ninja_required_version = 1.8.2', '']
    vars_ = {}
    if rng.random() < 0.4:
        vars_['top'] = rng.choice(['T', 'dir/t', 'a b'])
        lines.append('top = ' + vars_['top'].replace('$', '$$'))
    if rng.random() < 0.3:
        lines.append('top2 = x$top${top}y')
    if rng.random() < 0.2:
        lines += ['pool link_pool', '  depth = 2', '']
    rules = rng.sample(['R', 'S', 'CUSTOM_COMMAND', 'c.x-y'], rng.choice([1, 2]))
    for r in rules:
        lines += ['rule ' + r, ' command = tool $in $out $ARGS', ' description = doing $out']
        if rng.random() < 0.3:
            lines.append(' depfile = $DEPFILE')
        lines.append('')

    def path():
        k = rng.random()
        n = rng.choice(names)
        if k < 0.1:
            return '$top/' + q(n)
        if k < 0.15:
            return '${top}' + q(n)
        if k < 0.2:
            return '$bv'
        return q(n)
    for _ in range(rng.choice([1, 2, 3, 5])):
        l = 'build ' + ' '.join(path() for _ in range(rng.choice([1, 1, 2])))
        if rng.random() < 0.25:
            l += ' | ' + path()
        l += ': ' + (rng.choice(rules) if rng.random() < 0.8 else rng.choice(['phony', 'undefined']))
        if rng.random() < 0.85:
            l += ' ' + ' '.join(path() for _ in range(rng.choice([0, 1, 2])))
        if rng.random() < 0.3:
            l += ' | ' + ' '.join(path() for _ in range(rng.choice([1, 2])))
        if rng.random() < 0.3:
            l += ' || ' + path()
        if rng.random() < 0.05:
            l += ' |@ ' + path()
        if rng.random() < 0.1:
            l = l.replace(' | ', ' $\n    | ', 1)
        lines.append(l)
        if rng.random() < 0.5:
            lines.append(' ARGS = -I' + q(rng.choice(names)) + ' $top')
        if rng.random() < 0.3:
            lines.append(' bv = ' + rng.choice(['B', 'b v', 'x/$top']))
        if rng.random() < 0.15:
            lines.append('  # indented comment')
        lines.append('')
    if rng.random() < 0.7:
        lines.append('default ' + path())
    text = '\n'.join(lines) + '\n'
    if malformed:
        k = rng.random()
        pos = rng.randrange(len(text))
        if k < 0.3:
            text = text[:pos] + rng.choice(['$', '|', ':', '\t', '${', '}', '=', '$\n', ' ', '\n ', '#']) + text[pos:]
        elif k < 0.5:
            text = text[:pos] + text[pos + 1:]
        elif k < 0.6:
            text = text.replace(': ', ' ', 1)
        elif k < 0.7:
            text = 'include other.ninja\n' + text
        elif k < 0.8:
            text = text.replace(' command =', ' commandx =', 1)
        elif k < 0.9:
            text = text.replace('build ', 'build : ', 1)
        else:
            text = text[:pos]
    return text


def norm_parse(s):
    return 'ERR' if s.startswith('ERR:') else s


# ====================================================================== stream D: projects
BASE = ['foo', 'bar', 'baz', 'qux', 'app', 'util', 'core', 'gen', 'data']
ODD = ['a b', 'x+y', 'ünï', 'a.b', 'lib', 'foo.so', 'n-1', 'A', '1st', 'a@b', 'a,b', 'a=b', 'a~b', 'a%b', 'libfoo.a', 'foo.p']
HOSTILE = ['a$b', 'a:b', 'a|b', 'a#b', 'a;b', 'a&b', "a'b", 'a(b', 'a*b', 'a?b', 'a[b', 'a"b', 'a b ', '$x', 'a\\b', 'a{b}', '#a', '|', 'a||b']
RESERVED = ['all', 'clean', 'test', 'install', 'PHONY', 'phony', 'build.ninja', 'meson-internal__x', 'meson-foo', 'meson-foo.x',
            'reconfigure', 'dist', 'uninstall', 'benchmark', 'meson-test-prereq', 'clean-ctlist', 'meson-implicit-outs', 'ctags', 'TAGS',
            'scan-build', 'coverage', 'meson-out', 'meson-private', 'meson-info', 'meson-logs']


def ms(s):
    """meson string literal"""
    return "'" + s.replace('\\', '\\\\').replace("'", "\\'") + "'"


class Proj:
    """A generated project: file tree + setup arguments + what the generator knows about it."""

    def __init__(self, rng, idx, flavour):
        self.rng, self.idx, self.flavour = rng, idx, flavour
        self.files = {}
        self.blocks = {}          # dir -> list of lines
        self.targets = []         # dicts: var, name, dir, kind, bbd, outs(list for ct)
        self.tests = []           # dicts: name, uses (vars)
        self.nsrc = 0
        self.cpp = rng.random() < 0.2
        self.notes = []

    def src(self, d, ext='c', body=None):
        self.nsrc += 1
        n = 's%d.%s' % (self.nsrc, ext)
        self.files[os.path.join(d, n)] = body if body is not None else 'int f%d(void) { return %d; }\n' % (self.nsrc, self.nsrc)
        return n

    def dup_counts(self, d, exprs):
        """how many entries of a target's source list repeat an earlier one, per source suffix
        (generate_target keeps sources keyed by path, extract_all_objects counts every entry)"""
        import re
        ctouts = {t['var']: (t['dir'], t['outs']) for t in self.targets if t['kind'] == 'ct' and 'outs' in t}
        keys = []
        for e in exprs:
            m = re.match(r'^(t\d+)(?:\[(\d+)\])?$', e)
            if m and m.group(1) in ctouts:
                cd, outs = ctouts[m.group(1)]
                for o in (outs if m.group(2) is None else [outs[int(m.group(2))]]):
                    keys.append((cd, o))
            elif e.startswith("'"):
                keys.append((d, e[1:-1]))
        res = {}
        seen = set()
        for k in keys:
            suf = k[1].rsplit('.', 1)[-1]
            if suf not in ('c', 'cpp'):
                continue
            if k in seen:
                res[suf] = res.get(suf, 0) + 1
            seen.add(k)
        return res

    def pick_name(self, used):
        r = self.rng
        k = r.random()
        fl = self.flavour
        if fl == 'hostile' and k < 0.35:
            n = r.choice(HOSTILE)
        elif fl == 'reserved' and k < 0.3:
            n = r.choice(RESERVED)
        elif fl == 'collide' and used and k < 0.45:
            n = r.choice(used)
        elif k < 0.25 or (fl == 'odd' and k < 0.6):
            n = r.choice(ODD)
        else:
            n = r.choice(BASE) + (str(r.randrange(4)) if r.random() < 0.6 else '')
        return n

    def build(self):
        r = self.rng
        dirs = ['']
        if r.random() < 0.75:
            dirs.append('sub1')
            if r.random() < 0.35:
                dirs.append('sub1/deep')
            if r.random() < 0.5:
                dirs.append('sub2')
        use_sp = r.random() < 0.25
        order = []            # sequence of (dir) blocks; root appears between subdirs
        order.append('')
        for d in dirs[1:]:
            if d == 'sub1/deep':
                continue
            order.append(d)
            order.append('')
        lines = {d: [] for d in dirs}
        root = lines['']
        langs = "'c', 'cpp'" if self.cpp else "'c'"
        opts = []
        if r.random() < 0.3:
            opts.append('default_library=' + r.choice(['shared', 'static', 'both']))
        root.append("project(%s, %s, version: '1.0'%s)" % (ms('p%d' % self.idx), langs,
                    (', default_options: [%s]' % ', '.join(ms(o) for o in opts)) if opts else ''))
        root.append("prog = find_program('true')")
        root.append("cc = meson.get_compiler('c')")
        used_names = []
        libs, cts, hdrs, exes, gens, cfgs = [], [], [], [], [], []
        locals_ = []          # (variable holding find_program() of an overridden program, the executable's variable)
        pps, runs = [], []    # cc.preprocess() results (lists of sources), run/alias targets
        txts = []             # single-output custom targets producing a .txt (usable as generator input)
        ntargets = r.choice([2, 3, 4, 5, 6, 8]) if self.flavour != 'big' else r.choice([10, 14, 18])
        per_block = max(1, ntargets // max(1, len(order)))
        tcount = 0
        sp_lib = None
        if use_sp:
            sd = 'subprojects/sp1'
            sl = ["project('sp1', 'c', version: '0.1')"]
            sn = r.choice(['foo', 'splib', 'core', 'bar0'])
            self.files[os.path.join(sd, 'spsrc.c')] = 'int sp(void) { return 1; }\n'
            sl.append("splib = library(%s, 'spsrc.c')" % ms(sn))
            self.targets.append({'var': 'splib', 'name': sn, 'dir': sd, 'kind': 'lib', 'bbd': True})
            if r.random() < 0.5:
                self.files[os.path.join(sd, 'spmain.c')] = 'int main(void) { return 0; }\n'
                en = r.choice(['spexe', 'app', 'foo'])
                sl.append("spexe = executable(%s, 'spmain.c', link_with: splib)" % ms(en))
                self.targets.append({'var': 'spexe', 'name': en, 'dir': sd, 'kind': 'exe', 'bbd': True})
                if r.random() < 0.5:
                    sl.append("test('sptest', spexe)")
                    self.tests.append({'name': 'sptest', 'uses': ['spexe']})
            if r.random() < 0.5:
                self.files[os.path.join(sd, 'spin.txt')] = 'x\n'
                sl.append("spct = custom_target('spgen', input: 'spin.txt', output: 'spgen.h', command: [find_program('true'), '@INPUT@', '@OUTPUT@'], build_by_default: true)")
                self.targets.append({'var': 'spct', 'name': 'spgen', 'dir': sd, 'kind': 'ct', 'bbd': True})
            if r.random() < 0.5:
                sl.append("sprt = run_target('sprt', command: [find_program('true')])")
                sl.append("spal = alias_target('spal', sprt%s)" % r.choice(['', ', splib']))
                if r.random() < 0.4:
                    sl.append("spal2 = alias_target('spal2', spal)")
            sl.append("sp_dep = declare_dependency(link_with: splib)")
            self.files[os.path.join(sd, 'meson.build')] = '\n'.join(sl) + '\n'
            root.append("sp = subproject('sp1')")
            root.append("sp_dep = sp.get_variable('sp_dep')")
            sp_lib = 'sp_dep'

        def emit_target(d, L):
            nonlocal tcount
            tcount += 1
            v = 't%d' % tcount
            kind = r.choice(['exe', 'exe', 'exe', 'slib', 'shlib', 'lib', 'both', 'ct', 'ct', 'ct', 'gen', 'cfg', 'alias', 'run', 'mod', 'pp'])
            name = self.pick_name(used_names)
            used_names.append(name)
            kw = []
            bbd = None
            if r.random() < 0.25:
                bbd = r.random() < 0.5
                kw.append('build_by_default: ' + ('true' if bbd else 'false'))
            if kind in ('exe', 'slib', 'shlib', 'lib', 'both', 'mod'):
                ext = 'cpp' if (self.cpp and r.random() < 0.4) else 'c'
                srcs = [ms(self.src(d, ext, 'int main(void) { return 0; }\n' if kind == 'exe' else None))]
                for _ in range(r.choice([0, 0, 1, 2])):
                    srcs.append(ms(self.src(d, ext)))
                if r.random() < 0.04:
                    srcs.append(srcs[-1])                      # a source listed twice
                if r.random() < 0.04:
                    srcs.append(ms(self.src(d, 'S', '')))      # an assembly source
                # generated sources / headers from custom targets, generators, configure_file
                if cts and r.random() < 0.4:
                    srcs.append(r.choice(cts))
                if hdrs and r.random() < 0.3:
                    srcs.append(r.choice(hdrs))
                if gens and r.random() < 0.3:
                    gi = self.src(d, 'in', 'x\n')
                    extra = (', ' + r.choice(txts)) if txts and r.random() < 0.3 else ''
                    srcs.append('%s.process(%s%s)' % (r.choice(gens), ms(gi), extra))
                if cfgs and r.random() < 0.3:
                    srcs.append(r.choice(cfgs))
                if pps and r.random() < 0.35:
                    srcs.append(r.choice(pps))                 # preprocessed sources (cc.preprocess)
                if ext == 'cpp' and r.random() < 0.35:
                    kw.append("cpp_args: ['-fmodules-ts']")    # C++ modules: dyndep statements
                if libs and r.random() < 0.5:
                    kw.append('%s: [%s]' % (r.choice(['link_with', 'link_with', 'link_whole']) if kind != 'slibx' else 'link_with',
                                            ', '.join(r.sample(libs, min(len(libs), r.choice([1, 1, 2]))))))
                deps = []
                if sp_lib and r.random() < 0.3:
                    deps.append(sp_lib)
                dep_src = []
                if hdrs and r.random() < 0.2:
                    dep_src.append(r.choice(hdrs))
                    deps.append('declare_dependency(sources: %s)' % dep_src[-1])
                if deps:
                    kw.append('dependencies: [%s]' % ', '.join(deps))
                if exes and kind == 'exe' and libs and r.random() < 0.1:
                    kw.append('objects: %s.extract_all_objects(recursive: false)' % r.choice(libs))
                if r.random() < 0.1:
                    mp = self.src(d, 'map', '{ global: *; };\n')
                    kw.append('link_depends: %s' % ms(mp))
                if kind in ('shlib', 'lib', 'both') and r.random() < 0.3:
                    kw.append("version: '1.2.3'")
                    if r.random() < 0.5:
                        kw.append("soversion: '1'")
                if r.random() < 0.1:
                    kw.append('install: true')
                if kind == 'exe' and r.random() < 0.1:
                    kw.append("name_suffix: 'bin'")
                fn = {'exe': 'executable', 'slib': 'static_library', 'shlib': 'shared_library', 'lib': 'library',
                      'both': 'both_libraries', 'mod': 'shared_module'}[kind]
                wrong_link_whole = False
                L.append('%s = %s(%s, %s%s)' % (v, fn, ms(name), ', '.join(srcs), ''.join(', ' + k for k in kw)))
                self.targets.append({'var': v, 'name': name, 'dir': d, 'kind': kind, 'bbd': True if bbd is None else bbd,
                                     'dups': self.dup_counts(d, srcs + dep_src)})
                if kind == 'exe':
                    exes.append(v)
                    if r.random() < 0.2:
                        pn = 'tool%d' % tcount
                        L.append('meson.override_find_program(%s, %s)' % (ms(pn), v))
                        L.append('lp%d = find_program(%s)' % (tcount, ms(pn)))
                        locals_.append(('lp%d' % tcount, v))
                elif kind in ('slib', 'lib', 'both'):
                    libs.append(v)
                elif kind == 'shlib':
                    if r.random() < 0.7:
                        libs.append(v)
            elif kind == 'ct':
                nout = r.choice([1, 1, 2, 3])
                style = r.random()
                if self.flavour == 'collide' and style < 0.5:
                    outs = [r.choice(['libfoo.a', 'foo', 'bar', 'libbar.so', 'foo0', 'app', 'gen.h', 'all', 'clean', 'foo.p', 'build.ninja'])]
                elif self.flavour == 'hostile' and style < 0.4:
                    outs = [r.choice(HOSTILE) + '.h']
                else:
                    stem = 'g%d' % tcount
                    outs = [stem + e for e in r.sample(['.h', '.c', '.txt', '.inc'], nout)]
                ins = []
                if r.random() < 0.7:
                    ins.append(ms(self.src(d, 'in', 'x\n')))
                if cts and r.random() < 0.3:
                    ins.append(r.choice(cts))
                if cfgs and r.random() < 0.2:
                    ins.append(r.choice(cfgs))
                if exes and r.random() < 0.2:
                    cmd = [r.choice(exes)]
                else:
                    cmd = ['prog']
                cmd += ["'@INPUT@'", "'@OUTPUT@'"] if ins else ["'@OUTPUT@'"]
                if r.random() < 0.15 and len(outs) == 1:
                    kw.append('capture: true')
                    cmd = [c for c in cmd if c != "'@OUTPUT@'"]
                if (libs or exes) and r.random() < 0.25:
                    kw.append('depends: [%s]' % r.choice(libs + exes))
                if r.random() < 0.15:
                    kw.append('depend_files: %s' % ms(self.src(d, 'dat', 'x\n')))
                if r.random() < 0.1:
                    kw.append('build_always_stale: true')
                if r.random() < 0.1:
                    kw.append("depfile: '@BASENAME@.d'" if ins else "depfile: 'x.d'")
                if r.random() < 0.1:
                    kw.append("install: true, install_dir: 'share'")
                    if bbd is None:
                        bbd = True
                if r.random() < 0.1:
                    kw.append("env: {'A': 'b c'}")
                L.append('%s = custom_target(%s, %soutput: [%s], command: [%s]%s)' % (
                    v, ms(name), ('input: [%s], ' % ', '.join(ins)) if ins else '',
                    ', '.join(ms(o) for o in outs), ', '.join(cmd), ''.join(', ' + k for k in kw)))
                self.targets.append({'var': v, 'name': name, 'dir': d, 'kind': 'ct', 'bbd': bool(bbd), 'outs': outs})
                if len(outs) == 1 and outs[0].endswith('.txt'):
                    txts.append(v)
                if any(o.endswith(('.c', '.h', '.inc')) for o in outs):
                    cts.append(v)
                    if len(outs) > 1 and r.random() < 0.5:
                        hdrs.append('%s[%d]' % (v, r.randrange(len(outs))))
                    if all(o.endswith(('.h', '.inc')) for o in outs):
                        hdrs.append(v)
            elif kind == 'gen':
                L.append("%s = generator(prog, output: %s, arguments: ['@INPUT@', '@OUTPUT@']%s)" % (
                    v, r.choice(["'@BASENAME@.c'", "'@BASENAME@.c'", "['@BASENAME@.c', '@BASENAME@.h']", "'@PLAINNAME@.c'"]),
                    ", depends: [%s]" % r.choice(exes) if exes and r.random() < 0.3 else ''))
                gens.append(v)
            elif kind == 'cfg':
                k = r.random()
                out = r.choice(['cfg%d.h' % tcount, 'config.h', 'cfg%d.h' % tcount])
                if k < 0.5:
                    L.append("%s = configure_file(output: %s, configuration: {'A': 1})" % (v, ms(out)))
                elif k < 0.8:
                    i = self.src(d, 'h.in', '#define X @A@\n')
                    L.append("%s = configure_file(input: %s, output: %s, configuration: {'A': 1})" % (v, ms(i), ms(out)))
                else:
                    i = self.src(d, 'h.in', 'x\n')
                    L.append("%s = configure_file(input: %s, output: %s, copy: true)" % (v, ms(i), ms(out)))
                cfgs.append(v)
            elif kind == 'pp':
                psrc = [ms(self.src(d, 'c')) for _ in range(r.choice([1, 2]))]
                if cts and r.random() < 0.3:
                    psrc.append(r.choice(cts))
                L.append("%s = cc.preprocess(%s, output: '@PLAINNAME@.i.c'%s)" % (
                    v, ', '.join(psrc), (', depends: [%s]' % r.choice(cts)) if cts and r.random() < 0.4 else ''))
                pps.append(v)
            elif kind == 'alias':
                pool = libs + exes + cts + runs
                if pool:
                    L.append('%s = alias_target(%s, %s)' % (v, ms(name), ', '.join(r.sample(pool, min(len(pool), 2)))))
                    runs.append(v)
            elif kind == 'run':
                runs.append(v)
                pool = libs + exes + cts
                L.append('%s = run_target(%s, command: [prog%s]%s)' % (
                    v, ms(name), (', ' + r.choice(pool)) if pool and r.random() < 0.4 else '',
                    (', depends: [%s]' % r.choice(pool)) if pool and r.random() < 0.4 else ''))

        def emit_test(L):
            if not (exes or cts):
                return
            uses = []
            k = r.random()
            if locals_ and k < 0.3:
                head, e = r.choice(locals_)
                uses.append(e)
            elif exes and k < 0.7:
                e = r.choice(exes)
                uses.append(e)
                head = e
            else:
                head = 'prog'
            args = []
            if cts and r.random() < 0.4:
                c = r.choice(cts + hdrs) if hdrs else r.choice(cts)
                args.append(c)
                uses.append(c.split('[')[0])
            if libs and r.random() < 0.2:
                c = r.choice(libs)
                args.append(c)
                uses.append(c)
            if locals_ and r.random() < 0.2:
                lv, e = r.choice(locals_)
                args.append(lv)
                uses.append(e)
            kw = ''
            if args:
                kw += ', args: [%s]' % ', '.join(args)
            pool = libs + exes + cts
            if pool and r.random() < 0.4:
                dsel = r.sample(pool, min(len(pool), r.choice([1, 2])))
                kw += ', depends: [%s]' % ', '.join(dsel)
                uses += dsel
            fn = 'test' if r.random() < 0.85 else 'benchmark'
            tn = 'T%d' % (len(self.tests) + 1)
            L.append('%s(%s, %s%s)' % (fn, ms(tn), head, kw))
            if fn == 'test':
                self.tests.append({'name': tn, 'uses': uses})

        seen_root_parts = 0
        for bi, d in enumerate(order):
            L = lines[d]
            if d != '':
                root.append("subdir('%s')" % d)
            n = per_block if bi + 1 < len(order) else max(1, ntargets - tcount)
            for _ in range(n):
                emit_target(d, L)
                if r.random() < 0.25:
                    emit_test(L)
            if d == 'sub1' and 'sub1/deep' in dirs:
                L.append("subdir('deep')")
                for _ in range(r.choice([1, 2])):
                    emit_target('sub1/deep', lines['sub1/deep'])
        if r.random() < 0.6:
            emit_test(root)
        for d in dirs:
            self.files[os.path.join(d, 'meson.build')] = '\n'.join(lines[d]) + '\n'
        args = []
        lay = r.random()
        if lay < 0.3 or (self.flavour == 'collide' and lay < 0.6):
            args.append('--layout=flat')
        if r.random() < 0.3:
            args.append('-Ddefault_library=' + r.choice(['shared', 'static', 'both']))
        u = r.random()
        if u < 0.25:
            args.append('--unity=on')
            if r.random() < 0.5:
                args.append('-Dunity_size=%d' % r.choice([2, 3, 4]))
        elif u < 0.35:
            args.append('--unity=subprojects')
        if r.random() < 0.15:
            args.append('-Dbuildtype=' + r.choice(['release', 'plain', 'debugoptimized']))
        if r.random() < 0.1:
            args.append('-Db_lto=true')
        if r.random() < 0.1:
            args.append('-Db_pch=false')
        if r.random() < 0.1:
            args.append('-Db_coverage=true')
        self.args = args
        return self

    def record(self):
        return {'files': self.files, 'args': self.args, 'targets': self.targets, 'tests': self.tests,
                'flavour': self.flavour, 'idx': self.idx}


def gen_unity_project(rng, idx):
    """unity build + targets whose objects are extracted (both_libraries / library with default_library=both,
    extract_all_objects, link_whole static->static); duplicate-free C sources; source counts both equal to
    k*unity_size and not, with the default unity_size (4) and small ones."""
    size_arg = rng.choice([None, None, 2, 3])
    size = size_arg or 4
    files, L, targets = {}, ["project(%s, 'c', version: '1.0')" % ms('u%s' % idx)], []
    args = ['--unity=on'] + (['-Dunity_size=%d' % size_arg] if size_arg else [])
    if rng.random() < 0.25:
        args.append('--layout=flat')
    counts = [size * rng.choice([1, 1, 2]),
              rng.choice([c for c in (1, size - 1, size + 1, 2 * size - 1, 2 * size + 1) if c >= 1 and c % size])]
    if rng.random() < 0.5:
        counts.append(rng.randint(1, 2 * size + 1))
    rng.shuffle(counts)
    uspecs = []
    use_ct = rng.random() < 0.35
    if use_ct:
        L.append("ugen = custom_target('ugen', output: ['ugen.c', 'ugen.h'], command: [find_program('true'), '@OUTPUT@'])")
        targets.append({'var': 'ugen', 'name': 'ugen', 'dir': '', 'kind': 'ct', 'bbd': False, 'outs': ['ugen.c', 'ugen.h']})
    for k, n in enumerate(counts):
        names = []
        for j in range(n - (1 if use_ct and k == 0 else 0)):
            fn = 'u%d_%d.c' % (k, j)
            files[fn] = 'int u%d_%d(void) { return %d; }\n' % (k, j, j)
            names.append(ms(fn))
        if use_ct and k == 0:
            names.append('ugen')                  # the generated ugen.c counts as a source
        srcs = ', '.join(names) if names else "'u_empty.c'"
        shape = rng.choice(['both', 'both', 'extract', 'link_whole', 'lib_both'])
        slist = [[x[1:-1], True] for x in names if x.startswith("'")] + ([['ugen.c', True]] if 'ugen' in names else [])
        tn, user = {'both': ('ub%d' % k, 'libub%d.a' % k), 'lib_both': ('ul%d' % k, 'libul%d.a' % k),
                    'extract': ('us%d' % k, 'ux%d' % k), 'link_whole': ('ua%d' % k, 'libuw%d.a' % k)}[shape]
        uspecs.append({'target': tn, 'user': user, 'size': size, 'srcs': slist})
        if shape == 'both':
            L.append("ub%d = both_libraries('ub%d', %s)" % (k, k, srcs))
            targets.append({'var': 'ub%d' % k, 'name': 'ub%d' % k, 'dir': '', 'kind': 'both', 'bbd': True, 'dups': {}})
        elif shape == 'lib_both':
            if not any(a.startswith('-Ddefault_library') for a in args):
                args.append('-Ddefault_library=both')
            L.append("ul%d = library('ul%d', %s)" % (k, k, srcs))
            targets.append({'var': 'ul%d' % k, 'name': 'ul%d' % k, 'dir': '', 'kind': 'lib', 'bbd': True, 'dups': {}})
        elif shape == 'extract':
            files['um%d.c' % k] = 'int main(void) { return 0; }\n'
            L.append("us%d = static_library('us%d', %s)" % (k, k, srcs))
            L.append("ux%d = executable('ux%d', 'um%d.c', objects: us%d.extract_all_objects(recursive: false))" % (k, k, k, k))
            targets.append({'var': 'us%d' % k, 'name': 'us%d' % k, 'dir': '', 'kind': 'slib', 'bbd': True, 'dups': {}})
            targets.append({'var': 'ux%d' % k, 'name': 'ux%d' % k, 'dir': '', 'kind': 'exe', 'bbd': True, 'dups': {}})
        else:
            files['uw%d.c' % k] = 'int uw%d(void) { return 0; }\n' % k
            L.append("ua%d = static_library('ua%d', %s)" % (k, k, srcs))
            L.append("uw%d = static_library('uw%d', 'uw%d.c', link_whole: ua%d)" % (k, k, k, k))
            targets.append({'var': 'ua%d' % k, 'name': 'ua%d' % k, 'dir': '', 'kind': 'slib', 'bbd': True, 'dups': {}})
            targets.append({'var': 'uw%d' % k, 'name': 'uw%d' % k, 'dir': '', 'kind': 'slib', 'bbd': True, 'dups': {}})
    files['meson.build'] = '\n'.join(L) + '\n'
    return {'files': files, 'args': args, 'targets': targets, 'tests': [], 'flavour': 'unityx', 'idx': idx,
            'unity': {'unity_size': size, 'source_counts': counts}, 'unity_spec': uspecs}


def _usrc(prefix, n):
    return {('%s%d.c' % (prefix, j)): 'int %s%d(void) { return %d; }\n' % (prefix, j, j) for j in range(n)}


def _ulist(prefix, n):
    return ', '.join("'%s%d.c'" % (prefix, j) for j in range(n))


CORPUS_PROJECTS = [
    # C++ modules (dyndep statements) next to plain C++ targets whose objects are extracted
    {'idx': 'cpp-modules-dyndep-takes-objects-of-plain-cpp-target', 'args': [], 'flavour': 'corpus',
     'files': {'meson.build': "project('cm', 'c', 'cpp')\nh = static_library('helper', 'h.cpp')\n"
                              "m = executable('m', 'm.cpp', cpp_args: ['-fmodules-ts'], objects: h.extract_all_objects(recursive: false))\n"
                              "w = static_library('w', 'w.cpp', cpp_args: ['-fmodules-ts'], link_whole: h)\n"
                              "x = executable('x', 'x.cpp', cpp_args: ['-fmodules-ts'], link_with: w)\ntest('t', x)\n",
               'h.cpp': 'int h() { return 0; }\n', 'm.cpp': 'int main() { return 0; }\n', 'w.cpp': 'int w() { return 0; }\n',
               'x.cpp': 'int main() { return 0; }\n'},
     'targets': [{'var': 'm', 'name': 'm', 'dir': '', 'kind': 'exe', 'bbd': True}, {'var': 'w', 'name': 'w', 'dir': '', 'kind': 'slib', 'bbd': True},
                 {'var': 'x', 'name': 'x', 'dir': '', 'kind': 'exe', 'bbd': True}], 'tests': [{'name': 't', 'uses': ['x']}]},
    {'idx': 'fortran-dyndep-takes-objects-of-fortran-and-c-targets', 'args': [], 'flavour': 'corpus',
     'files': {'meson.build': "project('cf', 'c', 'fortran')\nh = static_library('fh', 'h.f90')\nc = static_library('ch', 'c.c')\n"
                              "e = executable('fe', 'm.f90', objects: [h.extract_all_objects(recursive: false), c.extract_all_objects(recursive: false)])\n"
                              "w = static_library('fw', 'w.f90', link_whole: [h, c])\n",
               'h.f90': 'subroutine h()\nend subroutine h\n', 'm.f90': 'program m\nend program m\n', 'w.f90': 'subroutine w()\nend subroutine w\n',
               'c.c': 'int c(void) { return 0; }\n'},
     'targets': [{'var': 'e', 'name': 'fe', 'dir': '', 'kind': 'exe', 'bbd': True}, {'var': 'w', 'name': 'fw', 'dir': '', 'kind': 'slib', 'bbd': True}],
     'tests': []},
    # generator.process() fed with a custom target output, both layouts
    {'idx': 'generator-input-from-custom-target-flat-layout', 'args': ['--layout=flat'], 'flavour': 'corpus',
     'files': {'meson.build': "project('cg', 'c')\np = find_program('true')\ng = generator(p, output: '@BASENAME@.c', arguments: ['@INPUT@', '@OUTPUT@'])\n"
                              "r = custom_target('r', output: 'r.txt', command: [p, '@OUTPUT@'])\ne = executable('e', 'm.c', g.process(r, 'x.in'))\n",
               'm.c': 'int main(void){return 0;}\n', 'x.in': 'x\n'},
     'targets': [{'var': 'e', 'name': 'e', 'dir': '', 'kind': 'exe', 'bbd': True}], 'tests': []},
    {'idx': 'generator-input-from-custom-target-mirror-layout', 'args': [], 'flavour': 'corpus',
     'files': {'meson.build': "project('ch', 'c')\np = find_program('true')\ng = generator(p, output: '@BASENAME@.c', arguments: ['@INPUT@', '@OUTPUT@'])\nsubdir('s')\n"
                              "e = executable('e', 'm.c', g.process(r, 'x.in'))\n",
               's/meson.build': "r = custom_target('r', output: 'r.txt', command: [p, '@OUTPUT@'])\n",
               'm.c': 'int main(void){return 0;}\n', 'x.in': 'x\n'},
     'targets': [{'var': 'e', 'name': 'e', 'dir': '', 'kind': 'exe', 'bbd': True}], 'tests': []},
    # alias_target / run_target inside a subproject
    {'idx': 'alias-of-run-target-in-subproject', 'args': [], 'flavour': 'corpus',
     'files': {'meson.build': "project('ca', 'c')\nsubproject('sub')\nr = run_target('rrt', command: [find_program('true')])\na = alias_target('ral', r)\n",
               'subprojects/sub/meson.build': "project('sub', 'c')\nsrt = run_target('srt', command: [find_program('true')])\n"
                                              "sal = alias_target('sal', srt)\nsal2 = alias_target('sal2', sal)\n"},
     'targets': [], 'tests': []},
    # cc.preprocess with --layout=flat, in the root and two levels down, with depends:
    {'idx': 'preprocess-flat-layout', 'args': ['--layout=flat'], 'flavour': 'corpus',
     'files': {'meson.build': "project('cp', 'c')\ncc = meson.get_compiler('c')\nhd = custom_target('hd', output: 'hd.h', command: [find_program('true'), '@OUTPUT@'])\n"
                              "pp = cc.preprocess('foo.c', 'bar.c', output: '@PLAINNAME@.c', depends: hd)\ne = executable('e', pp)\nsubdir('a')\n",
               'a/meson.build': "subdir('b')\n", 'a/b/meson.build': "pq = cc.preprocess('baz.c', output: '@PLAINNAME@.c', depends: hd)\nf = executable('f', pq)\n",
               'foo.c': 'int main(void){return 0;}\n', 'bar.c': 'int b(void){return 0;}\n', 'a/b/baz.c': 'int main(void){return 0;}\n'},
     'targets': [{'var': 'e', 'name': 'e', 'dir': '', 'kind': 'exe', 'bbd': True}, {'var': 'f', 'name': 'f', 'dir': 'a/b', 'kind': 'exe', 'bbd': True}],
     'tests': []},
    {'idx': 'preprocess-mirror-layout-subdirs', 'args': [], 'flavour': 'corpus',
     'files': {'meson.build': "project('cq', 'c')\ncc = meson.get_compiler('c')\nhd = custom_target('hd', output: 'hd.h', command: [find_program('true'), '@OUTPUT@'])\n"
                              "subdir('a')\ne = executable('e', pq, 'm.c')\n",
               'a/meson.build': "pq = cc.preprocess('baz.c', output: '@BASENAME@.i.c', depends: hd)\n",
               'm.c': 'int main(void){return 0;}\n', 'a/baz.c': 'int b(void){return 0;}\n'},
     'targets': [{'var': 'e', 'name': 'e', 'dir': '', 'kind': 'exe', 'bbd': True}], 'tests': []},
    # unity + extracted objects, duplicate-free C sources: counts that are / are not a multiple of unity_size
    {'idx': 'unity-extracted-objects-default-size-4-8-3-5', 'unity_spec': [{'target': 'la', 'user': 'libla.a', 'size': 4, 'srcs': [['a0.c', True], ['a1.c', True], ['a2.c', True], ['a3.c', True]]}, {'target': 'lb', 'user': 'e', 'size': 4, 'srcs': [['b0.c', True], ['b1.c', True], ['b2.c', True], ['b3.c', True], ['b4.c', True], ['b5.c', True], ['b6.c', True], ['b7.c', True]]}, {'target': 'lc', 'user': 'liblw.a', 'size': 4, 'srcs': [['c0.c', True], ['c1.c', True], ['c2.c', True]]}, {'target': 'ld', 'user': 'libld.a', 'size': 4, 'srcs': [['d0.c', True], ['d1.c', True], ['d2.c', True], ['d3.c', True], ['d4.c', True]]}], 'args': ['--unity=on'], 'flavour': 'corpus',
     'files': dict(list(_usrc('a', 4).items()) + list(_usrc('b', 8).items()) + list(_usrc('c', 3).items()) + list(_usrc('d', 5).items()) +
                   [('m.c', 'int main(void){return 0;}\n'), ('w.c', 'int w(void){return 0;}\n'),
                    ('meson.build', "project('cu1', 'c')\nla = both_libraries('la', %s)\nlb = static_library('lb', %s)\n"
                                    "e = executable('e', 'm.c', objects: lb.extract_all_objects(recursive: false))\n"
                                    "lc = static_library('lc', %s)\nlw = static_library('lw', 'w.c', link_whole: lc)\nld = both_libraries('ld', %s)\n"
                                    % (_ulist('a', 4), _ulist('b', 8), _ulist('c', 3), _ulist('d', 5)))]),
     'targets': [{'var': 'la', 'name': 'la', 'dir': '', 'kind': 'both', 'bbd': True}, {'var': 'e', 'name': 'e', 'dir': '', 'kind': 'exe', 'bbd': True},
                 {'var': 'lw', 'name': 'lw', 'dir': '', 'kind': 'slib', 'bbd': True}, {'var': 'ld', 'name': 'ld', 'dir': '', 'kind': 'both', 'bbd': True}],
     'tests': []},
    {'idx': 'unity-extracted-objects-size-2-counts-4-2-3-1', 'unity_spec': [{'target': 'la', 'user': 'libla.a', 'size': 2, 'srcs': [['a0.c', True], ['a1.c', True], ['a2.c', True], ['a3.c', True]]}, {'target': 'lb', 'user': 'liblb.a', 'size': 2, 'srcs': [['b0.c', True], ['b1.c', True]]}, {'target': 'lc', 'user': 'liblc.a', 'size': 2, 'srcs': [['c0.c', True], ['c1.c', True], ['c2.c', True]]}, {'target': 'ld', 'user': 'e', 'size': 2, 'srcs': [['d0.c', True]]}], 'args': ['--unity=on', '-Dunity_size=2', '-Ddefault_library=both'], 'flavour': 'corpus',
     'files': dict(list(_usrc('a', 4).items()) + list(_usrc('b', 2).items()) + list(_usrc('c', 3).items()) + list(_usrc('d', 1).items()) +
                   [('m.c', 'int main(void){return 0;}\n'),
                    ('meson.build', "project('cu2', 'c')\nla = library('la', %s)\nlb = both_libraries('lb', %s)\nlc = both_libraries('lc', %s)\n"
                                    "ld = static_library('ld', %s)\ne = executable('e', 'm.c', objects: ld.extract_all_objects(recursive: false))\n"
                                    % (_ulist('a', 4), _ulist('b', 2), _ulist('c', 3), _ulist('d', 1)))]),
     'targets': [{'var': 'la', 'name': 'la', 'dir': '', 'kind': 'lib', 'bbd': True}, {'var': 'lb', 'name': 'lb', 'dir': '', 'kind': 'both', 'bbd': True},
                 {'var': 'lc', 'name': 'lc', 'dir': '', 'kind': 'both', 'bbd': True}, {'var': 'e', 'name': 'e', 'dir': '', 'kind': 'exe', 'bbd': True}],
     'tests': []},
    # hand-picked corner cases (run first).  name, files, args, targets(var,name,dir,kind,bbd), tests
    {'idx': 'same-basename-two-subdirs-mirror', 'args': [], 'flavour': 'corpus',
     'files': {'meson.build': "project('c1', 'c')\nsubdir('a')\nsubdir('b')\n",
               'a/meson.build': "ta = executable('tool', 'm.c')\n", 'a/m.c': 'int main(void){return 0;}\n',
               'b/meson.build': "tb = executable('tool', 'm.c')\ntest('t', tb, depends: ta)\n", 'b/m.c': 'int main(void){return 0;}\n'},
     'targets': [{'var': 'ta', 'name': 'tool', 'dir': 'a', 'kind': 'exe', 'bbd': True}, {'var': 'tb', 'name': 'tool', 'dir': 'b', 'kind': 'exe', 'bbd': True}],
     'tests': [{'name': 't', 'uses': ['ta', 'tb']}]},
    {'idx': 'same-basename-two-subdirs-flat', 'args': ['--layout=flat'], 'flavour': 'corpus',
     'files': {'meson.build': "project('c2', 'c')\nsubdir('a')\nsubdir('b')\n",
               'a/meson.build': "ta = executable('tool', 'm.c')\n", 'a/m.c': 'int main(void){return 0;}\n',
               'b/meson.build': "tb = executable('tool', 'm.c')\n", 'b/m.c': 'int main(void){return 0;}\n'},
     'targets': [], 'tests': []},
    {'idx': 'custom-output-named-like-library', 'args': [], 'flavour': 'corpus',
     'files': {'meson.build': "project('c3', 'c')\nl = static_library('foo', 'f.c')\n"
                              "c = custom_target('x', output: 'libfoo.a', command: [find_program('true'), '@OUTPUT@'])\n", 'f.c': 'int f(void){return 0;}\n'},
     'targets': [], 'tests': []},
    {'idx': 'generated-source-used-by-two-targets', 'args': [], 'flavour': 'corpus',
     'files': {'meson.build': "project('c4', 'c')\ng = custom_target('g', output: ['g.c', 'g.h'], command: [find_program('true'), '@OUTPUT@'])\n"
                              "e1 = executable('e1', 'm.c', g)\ne2 = executable('e2', 'm.c', g, build_by_default: false)\ntest('t', e2, args: [g[1]])\n",
               'm.c': 'int main(void){return 0;}\n'},
     'targets': [{'var': 'e1', 'name': 'e1', 'dir': '', 'kind': 'exe', 'bbd': True}, {'var': 'e2', 'name': 'e2', 'dir': '', 'kind': 'exe', 'bbd': False},
                 {'var': 'g', 'name': 'g', 'dir': '', 'kind': 'ct', 'bbd': False}],
     'tests': [{'name': 't', 'uses': ['e2', 'g']}]},
    {'idx': 'custom-output-named-all', 'args': [], 'flavour': 'corpus',
     'files': {'meson.build': "project('c5', 'c')\nc = custom_target('x', output: 'all', command: [find_program('true'), '@OUTPUT@'])\n"},
     'targets': [], 'tests': []},
    {'idx': 'executable-named-test-in-subdir', 'args': [], 'flavour': 'corpus',
     'files': {'meson.build': "project('c6', 'c')\nsubdir('s')\n", 's/meson.build': "e = executable('test', 'm.c')\ntest('t', e)\n",
               's/m.c': 'int main(void){return 0;}\n'},
     'targets': [{'var': 'e', 'name': 'test', 'dir': 's', 'kind': 'exe', 'bbd': True}], 'tests': [{'name': 't', 'uses': ['e']}]},
    {'idx': 'test-depends-on-custom-target-not-built-by-default', 'args': [], 'flavour': 'corpus',
     'files': {'meson.build': "project('c7', 'c')\np = find_program('true')\nc = custom_target('c', output: ['o1.txt', 'o2.txt'], command: [p, '@OUTPUT@'])\n"
                              "d = custom_target('d', input: c[1], output: 'd.txt', command: [p, '@INPUT@', '@OUTPUT@'])\ntest('t', p, args: [d], depends: c)\n"},
     'targets': [{'var': 'c', 'name': 'c', 'dir': '', 'kind': 'ct', 'bbd': False}, {'var': 'd', 'name': 'd', 'dir': '', 'kind': 'ct', 'bbd': False}],
     'tests': [{'name': 't', 'uses': ['c', 'd']}]},
    {'idx': 'pipe-in-target-name', 'args': [], 'flavour': 'corpus',
     'files': {'meson.build': "project('c8', 'c')\ne = executable('a|b', 'm.c')\n", 'm.c': 'int main(void){return 0;}\n'},
     'targets': [{'var': 'e', 'name': 'a|b', 'dir': '', 'kind': 'exe', 'bbd': True}], 'tests': []},
    {'idx': 'exe-and-custom-output-collide-flat', 'args': ['--layout=flat'], 'flavour': 'corpus',
     'files': {'meson.build': "project('c9', 'c')\ne = executable('foo', 'm.c')\nsubdir('s')\n", 'm.c': 'int main(void){return 0;}\n',
               's/meson.build': "c = custom_target('x', output: 'foo', command: [find_program('true'), '@OUTPUT@'], build_by_default: true)\n"},
     'targets': [], 'tests': []},
    {'idx': 'test-runs-overridden-program-not-built-by-default', 'args': [], 'flavour': 'corpus',
     'files': {'meson.build': "project('c11', 'c')\ne = executable('tool', 'm.c', build_by_default: false)\nmeson.override_find_program('mytool', e)\n"
                              "p = find_program('mytool')\ntest('t', p)\n", 'm.c': 'int main(void){return 0;}\n'},
     'targets': [{'var': 'e', 'name': 'tool', 'dir': '', 'kind': 'exe', 'bbd': False}], 'tests': [{'name': 't', 'uses': ['e']}]},
    {'idx': 'unity-both-libraries-duplicate-source', 'unity_spec': [{'target': 'foo1', 'user': 'libfoo1.a', 'size': 2, 'srcs': [['a.c', True], ['a.c', True], ['b.c', True]]}], 'args': ['--unity=on', '-Dunity_size=2'], 'flavour': 'corpus',
     'files': {'meson.build': "project('c12', 'c')\nb = both_libraries('foo1', 'a.c', 'a.c', 'b.c')\n", 'a.c': 'int a(void){return 0;}\n', 'b.c': 'int b(void){return 0;}\n'},
     'targets': [{'var': 'b', 'name': 'foo1', 'dir': '', 'kind': 'both', 'bbd': True, 'dups': {'c': 1}}], 'tests': []},
    {'idx': 'unity-both-libraries-assembly-source', 'unity_spec': [{'target': 'foo1', 'user': 'libfoo1.a', 'size': 2, 'srcs': [['a.c', True], ['b.c', True], ['c.S', False]]}], 'args': ['--unity=on', '-Dunity_size=2'], 'flavour': 'corpus',
     'files': {'meson.build': "project('c13', 'c')\nb = both_libraries('foo1', 'a.c', 'b.c', 'c.S')\n", 'a.c': 'int a(void){return 0;}\n', 'b.c': 'int b(void){return 0;}\n', 'c.S': ''},
     'targets': [{'var': 'b', 'name': 'foo1', 'dir': '', 'kind': 'both', 'bbd': True}], 'tests': []},
    {'idx': 'both-libraries-and-versioned-aliases', 'args': ['-Ddefault_library=both'], 'flavour': 'corpus',
     'files': {'meson.build': "project('c10', 'c')\nl = library('foo', 'f.c', version: '1.2.3', soversion: '1')\nb = both_libraries('bar', 'f.c')\n"
                              "e = executable('e', 'm.c', link_with: [l, b])\ntest('t', e)\n", 'f.c': 'int f(void){return 0;}\n', 'm.c': 'int main(void){return 0;}\n'},
     'targets': [{'var': 'l', 'name': 'foo', 'dir': '', 'kind': 'lib', 'bbd': True}, {'var': 'b', 'name': 'bar', 'dir': '', 'kind': 'both', 'bbd': True},
                 {'var': 'e', 'name': 'e', 'dir': '', 'kind': 'exe', 'bbd': True}], 'tests': [{'name': 't', 'uses': ['e']}]},
]


# the same corner cases under other layouts / unity (flat layout x every feature)
for _idx, _args in (('cpp-modules-dyndep-takes-objects-of-plain-cpp-target', ['--layout=flat']),
                    ('cpp-modules-dyndep-takes-objects-of-plain-cpp-target', ['--unity=on']),
                    ('fortran-dyndep-takes-objects-of-fortran-and-c-targets', ['--layout=flat']),
                    ('alias-of-run-target-in-subproject', ['--layout=flat']),
                    ('generated-source-used-by-two-targets', ['--layout=flat', '--unity=on']),
                    ('test-runs-overridden-program-not-built-by-default', ['--layout=flat']),
                    ('test-depends-on-custom-target-not-built-by-default', ['--layout=flat']),
                    ('both-libraries-and-versioned-aliases', ['--layout=flat', '--unity=on'])):
    _b = next(p for p in CORPUS_PROJECTS if p['idx'] == _idx)
    CORPUS_PROJECTS.append(dict(_b, idx=_idx + ' ' + ' '.join(_args), args=list(_b['args']) + _args))


def write_tree(root, files):
    for p, body in files.items():
        fp = os.path.join(root, p)
        os.makedirs(os.path.dirname(fp), exist_ok=True)
        with open(fp, 'w', encoding='utf-8') as f:
            f.write(body)


def setup_project(rec, base):
    """write the tree, run meson setup; returns dict(rc, out, builddir, srcdir)"""
    tag = hashlib.sha1(json.dumps(rec['files'], sort_keys=True).encode() + json.dumps(rec['args']).encode()).hexdigest()[:10]
    src = os.path.join(base, 'p-' + tag)
    bld = os.path.join(src, 'bld')
    if os.path.exists(src):
        shutil.rmtree(src)
    write_tree(src, rec['files'])
    try:
        r = meson_cli(['setup'] + rec['args'] + [bld, src], timeout=240)
        rc, out = r.returncode, (r.stdout + r.stderr)
    except subprocess.TimeoutExpired:
        rc, out = 124, 'timeout'
    return {'rc': rc, 'out': out[-3000:], 'builddir': bld, 'srcdir': src, 'tag': tag}


def expected_paths(rec, bld):
    """need_all / need_test (build-dir relative output paths) from what the generator knows,
    resolved to file names through intro-targets.json."""
    try:
        intro = json.load(open(os.path.join(bld, 'meson-info', 'intro-targets.json')))
    except Exception:
        return [], [], 'no-intro'
    src = os.path.dirname(bld)
    by = {}
    for t in intro:
        d = os.path.relpath(os.path.dirname(t['defined_in']), src)
        d = '' if d == '.' else d
        by.setdefault((t['name'], d), []).append(t)

    def outs(spec, as_dependency=False):
        res = []
        cands = by.get((spec['name'], spec['dir']), [])
        # a both_libraries object used as an argument / dependency stands for its shared library
        # (default_both_libraries=shared); both halves are built by default
        if as_dependency and spec['kind'] in ('lib', 'both') and any(t['type'] == 'shared library' for t in cands):
            cands = [t for t in cands if t['type'] != 'static library']
        for t in cands:
            kind_ok = (spec['kind'] == 'ct') == (t['type'] == 'custom')
            if not kind_ok:
                continue
            if spec['kind'] == 'exe' and t['type'] != 'executable':
                continue
            if spec['kind'] in ('slib', 'shlib', 'lib', 'both', 'mod') and 'library' not in t['type'] and 'module' not in t['type']:
                continue
            res += [os.path.relpath(f, bld) for f in t['filename']]
        return res
    var = {t['var']: t for t in rec['targets']}
    # two targets with the same (name, dir, class) cannot be told apart: skip them
    keys = {}
    for t in rec['targets']:
        k = (t['name'], t['dir'], 'ct' if t['kind'] == 'ct' else ('exe' if t['kind'] == 'exe' else 'lib'))
        keys[k] = keys.get(k, 0) + 1

    def unique(t):
        return keys[(t['name'], t['dir'], 'ct' if t['kind'] == 'ct' else ('exe' if t['kind'] == 'exe' else 'lib'))] == 1
    need_all, need_test = [], []
    for t in rec['targets']:
        if t['bbd'] and unique(t):
            need_all += outs(t)
    for te in rec['tests']:
        for u in te['uses']:
            if u in var and unique(var[u]):
                need_test += outs(var[u], True)
    return sorted(set(need_all)), sorted(set(need_test)), ''


def intro_expected(bld):
    """for repository projects: need_all / need_test from the introspection files"""
    try:
        targets = json.load(open(os.path.join(bld, 'meson-info', 'intro-targets.json')))
        tests = json.load(open(os.path.join(bld, 'meson-info', 'intro-tests.json')))
    except Exception:
        return [], []
    byid = {t['id']: t for t in targets}
    need_all = [os.path.relpath(f, bld) for t in targets if t.get('build_by_default') for f in t['filename']]
    need_test = []
    for te in tests:
        for i in te.get('depends', []):
            if i in byid:
                need_test += [os.path.relpath(f, bld) for f in byid[i]['filename']]
    return sorted(set(need_all)), sorted(set(need_test))


def repo_projects(limit, rng):
    base = os.path.join(REPO, 'test cases', 'common')
    res = []
    try:
        names = sorted(os.listdir(base))
    except OSError:
        return res
    skip = ('fortran', 'java', 'rust', 'vala', 'objc', 'swift', 'cuda', 'd ', 'cython', 'wasm', 'nasm', 'qt', 'gnome', 'python', 'boost',
            'llvm', 'gtest', 'protobuf', 'frameworks')
    for n in names:
        d = os.path.join(base, n)
        if not os.path.isfile(os.path.join(d, 'meson.build')):
            continue
        if any(s in n.lower() for s in skip):
            continue
        res.append(d)
    variants = [[], ['--layout=flat'], ['--unity=on'], ['--layout=flat', '--unity=on'], ['-Ddefault_library=both'],
                ['--layout=flat', '-Ddefault_library=both', '--unity=on', '-Dunity_size=2']]
    if not limit:
        # thorough: every project as it is, and once more under an option combination
        return [(d, []) for d in res] + [(d, variants[1 + k % (len(variants) - 1)]) for k, d in enumerate(res)]
    # quick: a fixed sample of feature-rich projects, each under a fixed option combination, plus a seeded sample
    fixed = [d for d in res if os.path.basename(d).split(' ')[0] in QUICK_REPO_SAMPLE]
    rest = [d for d in res if d not in fixed]
    return [(d, variants[k % len(variants)]) for k, d in enumerate(fixed)] + [(d, []) for d in rng.sample(rest, min(len(rest), max(0, limit - len(fixed))))]


# test cases/common numbers: object extraction, generators, custom targets (multi-output, index, link custom), subprojects (flat layout),
# both libraries, test depends, find override, preprocess, unity, generated headers, link depends
QUICK_REPO_SAMPLE = ('22', '105', '120', '140', '144', '170', '172', '178', '182', '186', '195', '208', '216', '226', '245', '256', '257', '259',
                     '262', '272', '273', '277', '296')


def setup_repo_project(da, base):
    d, args = da
    tag = hashlib.sha1((d + ' '.join(args)).encode()).hexdigest()[:10]
    src = os.path.join(base, 'r-' + tag)
    shutil.copytree(d, src, symlinks=True)
    bld = os.path.join(src, 'bld-verif')
    try:
        r = meson_cli(['setup'] + args + [bld, src], timeout=300)
        rc, out = r.returncode, (r.stdout + r.stderr)
    except subprocess.TimeoutExpired:
        rc, out = 124, 'timeout'
    return {'rc': rc, 'out': out[-2000:], 'builddir': bld, 'srcdir': src, 'tag': tag, 'origin': d, 'args': args}


ASM_SUFFIXES = ('.s', '.S', '.sx', '.asm', '.masm', '.ll')


def parse_statements(rendering):
    """(outs, iouts, rule, ins) of every statement of a manifest rendering (Entry.v `parse`)"""
    if rendering.startswith('ERR'):
        return []
    body = rendering.split(S4)[1]
    res = []
    for st in (body.split(S3) if body else []):
        f = st.split(S1)
        sp = lambda x: x.split(S2) if x else []
        res.append((sp(f[0]), sp(f[1]), f[2], sp(f[3])))
    return res


def unity_known_finding(verdict, rc, bld, rendering):
    """True iff every offender is a unity object that no statement produces AND the recorded mechanism of
    known finding C04-unity-extracted-objects explains exactly these objects: the target's source list
    repeats a source or holds sources that cannot join a unity file (assembly, LLVM IR), and the missing
    indices are  [compiled unity files, ceil((sources as listed) / unity_size)).  A missing unity object of
    a duplicate-free all-C/C++ source list, or a different count, is NOT the known finding."""
    import re
    args = rc.get('args', [])
    if not verdict or not any(a in ('--unity=on', '--unity=subprojects') for a in args):
        return False
    size = 4
    for a in args:
        if a.startswith('-Dunity_size='):
            size = int(a.split('=')[1])
    groups = {}
    for e in verdict:
        m = re.match(r'^(.*\.p)/meson-generated_(.*)-unity(\d+)\.([A-Za-z+]+)\.o$', e[2]) if e[0] == 'missing-input' else None
        if not m:
            return False
        groups.setdefault((m.group(1), m.group(2), m.group(4)), set()).add(int(m.group(3)))
    stmts = parse_statements(rendering)
    if not stmts:
        return False
    try:
        intro = json.load(open(os.path.join(bld, 'meson-info', 'intro-targets.json')))
    except Exception:
        intro = []
    src = os.path.dirname(bld)
    for (pdir, name, suf), miss in groups.items():
        pat = re.compile(re.escape(pdir + '/meson-generated_' + name) + r'-unity\d+\.' + re.escape(suf) + r'\.o$')
        compiled = sum(1 for outs, _, _, _ in stmts for o in outs if pat.match(o))
        n_u = 0
        for k in range(compiled):
            try:
                n_u += sum(1 for l in open(os.path.join(bld, pdir, '%s-unity%d.%s' % (name, k, suf))) if l.startswith('#include<'))
            except OSError:
                return False
        n_sep = sum(1 for outs, _, _, ins in stmts
                    if ins and ins[0].endswith(ASM_SUFFIXES) and any(o.startswith(pdir + '/') for o in outs))
        # the repeats the generator put into this target's source list (0 when the project is not ours)
        owners = []
        for t in intro:
            if any(os.path.relpath(f, bld) + '.p' == pdir for f in t['filename']):
                dd = os.path.relpath(os.path.dirname(t['defined_in']), src)
                owners += [x for x in rc.get('targets', []) if x['name'] == t['name'] and x['dir'] == ('' if dd == '.' else dd) and x['kind'] != 'ct']
        dups = owners[0].get('dups', {}).get(suf, 0) if len(owners) == 1 else 0
        if n_sep == 0 and dups == 0:
            return False                      # the recorded mechanism does not apply to this target
        listed = n_u + dups + n_sep
        if miss != set(range(compiled, (listed + size - 1) // size)):
            return False                      # not the objects the recorded mechanism would name
    return True


def flat_generator_known(verdict, args, rendering, texts):
    """known finding C04-generator-input-flat-layout: with --layout=flat a generator.process() input that is the
    output of a custom target / executable is looked up in the source subdir (Generator.process_files:
    File.from_built_file(e.get_builddir(), f)) although it is produced in meson-out.  Only when every offender
    is such an input: the statement is a generator statement (output inside a private directory, rule
    CUSTOM_COMMAND*) and meson-out/<basename> is what another statement produces."""
    if '--layout=flat' not in args or not verdict or not any('.process(' in t for t in texts):
        return False
    stmts = parse_statements(rendering)
    produced = set(o for outs, iouts, _, _ in stmts for o in outs + iouts)
    rule_of = {o: rule for outs, _, rule, _ in stmts for o in outs}
    for e in verdict:
        if e[0] != 'missing-input' or e[2] in produced:
            return False
        if not rule_of.get(e[1], '').startswith('CUSTOM_COMMAND') or '.p/' not in e[1]:
            return False
        if 'meson-out/' + os.path.basename(e[2]) not in produced:
            return False
    return True


def project_texts(srcdir):
    res = []
    for root, _, files in os.walk(srcdir):
        for f in files:
            if f == 'meson.build':
                try:
                    res.append(open(os.path.join(root, f), encoding='utf-8').read())
                except Exception:
                    pass
    return res


FEATURES = [('executable', 'executable('), ('static_library', 'static_library('), ('shared_library', 'shared_library('),
            ('library', ' library('), ('both_libraries', 'both_libraries('), ('shared_module', 'shared_module('),
            ('custom_target', 'custom_target('), ('custom_target multi-output', "output: ['"), ('capture', 'capture: true'),
            ('depfile', 'depfile:'), ('depend_files', 'depend_files:'), ('build_always_stale', 'build_always_stale'),
            ('generator', 'generator('), ('generator.process', '.process('), ('configure_file', 'configure_file('),
            ('compiler.preprocess', '.preprocess('), ('alias_target', 'alias_target('), ('run_target', 'run_target('),
            ('test', 'test('), ('benchmark', 'benchmark('), ('test depends', 'depends: ['), ('subdir', 'subdir('),
            ('subproject', 'subproject('), ('declare_dependency', 'declare_dependency('), ('link_with', 'link_with:'),
            ('link_whole', 'link_whole:'), ('extract_all_objects', 'extract_all_objects('), ('link_depends', 'link_depends:'),
            ('override_find_program', 'override_find_program('), ('C++ modules (dyndep)', '-fmodules-ts'), ('fortran', "'fortran'"),
            ('cpp', "'cpp'"), ('install', 'install: true'), ('version/soversion', "version: '"), ('build_by_default', 'build_by_default:'),
            ('env', 'env: {'), ('name with blank', "('a b"), ('name with $', "('a$b"), ('name with |', "'a|b")]


def unity_model_cases(rc, rendering):
    """for every unity target of the project whose objects are extracted: the objects the manifest compiles
    and the objects the user statement takes from it, next to the model's prediction (coq/Graph/Unity.v)"""
    import re
    out = []
    stmts = parse_statements(rendering)
    for sp in rc.get('unity_spec', []):
        t = sp['target']
        pdirs = sorted(set(os.path.dirname(o) for outs, _, _, _ in stmts for o in outs
                           if os.path.basename(os.path.dirname(o)) in ('lib%s.so.p' % t, 'lib%s.a.p' % t)))
        if len(pdirs) != 1:
            continue
        pd = pdirs[0] + '/'

        def obj(path):
            b = path[len(pd):]
            m = re.match(r'^meson-generated_' + re.escape(t) + r'-unity(\d+)\.c\.o$', b)
            return ('U' + m.group(1)) if m else ('S' + (b[:-2] if not b.startswith('meson-generated_') else b[len('meson-generated_'):-2]))
        compiled = sorted(set(obj(o) for outs, _, _, _ in stmts for o in outs if o.startswith(pd) and o.endswith('.o')))
        users = [ins for outs, _, _, ins in stmts if any(os.path.basename(o) == sp['user'] for o in outs)]
        if len(users) != 1:
            continue
        extracted = sorted(set(obj(i) for i in users[0] if i.startswith(pd) and i.endswith('.o')))
        case = ('unity', [str(sp['size'])] + [n + S1 + ('T' if c else 'F') for n, c in sp['srcs']])
        out.append((case, S2.join(compiled), S2.join(extracted), sp))
    return out


def show(s):
    return s.replace(S1, ' ¦ ').replace(S2, ' , ').replace(S3, '\n').replace(S4, '\n====\n')


def parse_errs(s):
    if s == 'OK':
        return []
    return [e.split(S1) for e in s.split(S3)]


def errs_key(errs):
    """comparable summary of an offender list: exact offenders except for cycles (kind only)"""
    out = set()
    for e in errs:
        e = list(e) + ['', '']
        if e[0] == 'cycle':
            out.add(('cycle',))
        else:
            out.add((e[0], e[1], e[2]))
    return out


def judge_manifests(ctx, built, items):
    """items: list of dict(file, builddir, need_all, need_test, label, replay).  Runs the Python
    reference reader + oracle and the extracted parser + check on each; records disagreements and
    violations.  Returns the per-item results."""
    if not items:
        return []
    py = run_impl('c04.py', {'manifests': [{'file': i['file'], 'builddir': i['builddir'], 'need_all': i['need_all'],
                                           'need_test': i['need_test']} for i in items]})['manifests']
    texts = [open(i['file'], encoding='utf-8').read() for i in items]
    res = []
    if built:
        m1 = ctx.run_model([('parse', [t]) for t in texts] + [('inputs', [t]) for t in texts], shards=NPROC)
        parses, inputs = m1[:len(items)], m1[len(items):]
        exist = []
        for it, inp in zip(items, inputs):
            leaves = [] if (inp.startswith('ERR:') or inp == '') else inp.split(S2)
            exist.append([p for p in leaves if os.path.lexists(os.path.join(it['builddir'], p))])
        cases = [('check', [t, S2.join(ex), S2.join(it['need_all']), S2.join(it['need_test'])])
                 for t, ex, it in zip(texts, exist, items)]
        checks = ctx.run_model(cases, shards=NPROC)
        ctx._kc_cases += [(c, o) for c, o in zip(cases, checks) if len(c[1][0]) < 7000][:3]
    for k, it in enumerate(items):
        p = py[k]
        r = {'label': it['label'], 'py_parse_ok': not p['parse'].startswith('ERR'), 'oracle': p.get('oracle', []), 'parse': p['parse'],
             'statements': 0 if p['parse'].startswith('ERR') else p['parse'].split(S4)[1].count(S3) + 1}
        verdict = None
        if built:
            if norm_parse(parses[k]) != norm_parse(p['parse']):
                ctx.disagreements.append({'stream': 'reader', 'label': it['label'], 'coq': show(parses[k])[:1500], 'python': show(p['parse'])[:1500]})
            if parses[k].startswith('ERR:'):
                verdict = [['invalid-manifest', parses[k][4:], '']]
            else:
                verdict = parse_errs(checks[k])
                if not p['parse'].startswith('ERR') and errs_key(verdict) != errs_key(p['oracle']) and sorted(exist[k]) == sorted(p.get('exist', [])):
                    ctx.disagreements.append({'stream': 'judge', 'label': it['label'], 'coq_check': verdict[:20], 'python_oracle': p['oracle'][:20]})
        else:
            verdict = [['invalid-manifest', p['parse'][4:], '']] if p['parse'].startswith('ERR') else p['oracle']
        r['verdict'] = verdict
        res.append(r)
    return res


def replay(ctx):
    rec = json.load(open(ctx.replay))
    r = rec['replay']
    built = ctx.build('Props/C04.v', 'Graph/Extract.v', 'C04')
    ctx._kc_cases = []
    if 'ops' in r:
        print('op sequence:', json.dumps(r['ops']))
        res = run_impl('c04.py', {'mech': [r['ops']]})['mech'][0]
        print('implementation:', res if isinstance(res, str) else res['text'])
        if built:
            print('model (fixed)  :', show(ctx.run_model([('mech', [op_wire(o) for o in r['ops']])])[0]))
            print('model (as is)  :', show(ctx.run_model([('mech_asis', [op_wire(o) for o in r['ops']])])[0]))
        if not isinstance(res, str):
            o = run_impl('c04.py', {'texts': [res['text']]})['texts'][0]
            print('property clauses failing on the written manifest:', json.dumps(o.get('oracle')))
    if 'project' in r:
        base = ctx.mkscratch()
        s = setup_project(r['project'], base)
        print('meson setup', ' '.join(r['project']['args']), '-> rc', s['rc'])
        if s['rc'] != 0:
            print(s['out'][-1500:])
        else:
            na, nt, _ = expected_paths(r['project'], s['builddir'])
            out = judge_manifests(ctx, built, [{'file': os.path.join(s['builddir'], 'build.ninja'), 'builddir': s['builddir'],
                                                'need_all': na, 'need_test': nt, 'label': 'replay'}])
            print('offenders:', json.dumps(out[0]['verdict'], indent=1))
    if 'tests' in r:
        print('tests:', json.dumps(r['tests']))
        print('implementation get_testlike_targets:', run_impl('c04.py', {'testlike': [r['tests']]})['testlike'][0].split(S2))
        print('targets the tests run or depend on :', [i for t in r['tests'] for i in runs_or_depends_on(t)])
        if built:
            print('model (fixed):', ctx.run_model([('testlike', [test_wire(t) for t in r['tests']])])[0].split(S2))
    if 'name' in r:
        print('validate_forbidden_targets(%r, in_root=%s) rejects: %s' % (r['name'], r['in_root'],
              run_impl('c04.py', {'rejected': [[r['name'], r['in_root']]]})['rejected'][0]))
    if 'text' in r:
        o = run_impl('c04.py', {'texts': [r['text']]})['texts'][0]
        print('python reader:', show(o['parse']))
        if built:
            print('coq reader   :', show(ctx.run_model([('parse', [r['text']])])[0]))
    ctx.cleanup()
    return 0


def run(ctx):
    if ctx.replay:
        return replay(ctx)
    rng = ctx.rng
    thorough = ctx.tier == 'thorough'
    import glob
    for old in glob.glob(os.path.join(VERIF, 'replays', 'C04-%d-*.json' % ctx.seed)):
        os.remove(old)
    phases = {}
    t_ph = time.time()

    def phase(name):
        nonlocal t_ph
        phases[name] = round(time.time() - t_ph, 1)
        t_ph = time.time()
    built = ctx.build('Props/C04.v', 'Graph/Extract.v', 'C04')
    phase('build')
    ctx._kc_cases = []
    kc_cases, kc_outs = [], []

    # ------------------------------------------------------------------ A: mechanism
    seqs = [list(s) for s in MECH_CORPUS]
    seqs += exhaustive_mech(3 if thorough else 2)
    n_ex = len(seqs) - len(MECH_CORPUS)
    seqs += [gen_mech(rng) for _ in range(40000 if thorough else 4000)]
    impl = run_impl('c04.py', {'mech': seqs})['mech']
    texts = [r['text'] for r in impl if not isinstance(r, str)]
    orc = run_impl('c04.py', {'texts': texts})['texts']
    if built:
        cases_fixed = [('mech', [op_wire(o) for o in s]) for s in seqs]
        cases_asis = [('mech_asis', [op_wire(o) for o in s]) for s in seqs]
        out_fixed = ctx.run_model(cases_fixed)
        out_asis = ctx.run_model(cases_asis)
        parsed = ctx.run_model([('parse', [t]) for t in texts])
        kc_cases += cases_fixed[:40] + cases_asis[:20] + cases_fixed[-40:]
        kc_outs += out_fixed[:40] + out_asis[:20] + out_fixed[-40:]
        kc_cases += [('parse', [t]) for t in texts[:25]]
        kc_outs += parsed[:25]
    # the build lines themselves: what write put in the file vs the model's build_line_rest
    if built:
        blcases, blwant = [], []
        for s_, r_ in zip(seqs, impl):
            if isinstance(r_, str):
                continue
            lines = [l for l in r_['text'].split('\n') if l.startswith('build ')]
            bops = [o for o in s_ if o[0] == 'B']
            if len(lines) != len(bops):
                continue            # a name with a newline: never written (MesonException)
            for o, l in zip(bops, lines):
                blcases.append(('buildline', [op_wire(o)]))
                blwant.append(l)
        blgot = ctx.run_model(blcases)
        nbl = 0
        for c, w, g in zip(blcases, blwant, blgot):
            ctx.count(('buildline', c[1][0]))
            if w != g and nbl < 10:
                nbl += 1
                ctx.disagreements.append({'stream': 'build-line', 'op': c[1][0], 'implementation': w, 'model': g})
        kc_cases += blcases[:40]
        kc_outs += blgot[:40]
        qn = sorted(set(n for s_ in seqs for o in s_ if o[0] == 'B' for f in (o[1], o[2], o[4], o[5], o[6]) for n in f)) + ['', 'a\\b', 'x\ty']
        qi = run_impl('c04.py', {'quote': qn})['quote']
        qm = ctx.run_model([('quote', [n]) for n in qn])
        for n, a, b in zip(qn, qi, qm):
            ctx.count(('quote', n))
            if a != b and not (a.startswith('EXC:') and '|' in n):
                ctx.disagreements.append({'stream': 'quote', 'name': n, 'implementation': a, 'model': b})
        ctx.extra['build_lines_compared'] = len(blcases)
    ti = 0
    mech_stats = {'ok': 0, 'MesonException': 0, 'AttributeError': 0, 'other': 0, 'agrees_with_as_is_model_only': 0}
    for k, (s, r) in enumerate(zip(seqs, impl)):
        ctx.count(('mech', json.dumps(s)), nontrivial=True)
        if isinstance(r, str):
            obs = r
            mech_stats[r[4:] if r[4:] in mech_stats else 'other'] += 1
            o = None
        else:
            o = orc[ti]
            obs = parsed[ti] if built else o['parse']
            ti += 1
            mech_stats['ok'] += 1
            # the oracle: clauses of the property on what was written (no model involved)
            bad = [e for e in (o.get('oracle') or []) if e[0] in ('duplicate-output', 'undefined-rule', 'duplicate-rule')]
            if o['parse'].startswith('ERR'):
                bad = [['invalid-manifest', o['parse'], '']]
            if bad:
                kinds = sorted(set(e[0] for e in bad))
                impl_only = all(e[0] == 'duplicate-output' for e in bad) and any(b[0] == 'B' and b[2] for b in s)
                pipe = any('|' in n for b in s if b[0] == 'B' for f in (b[1], b[2], b[4], b[5], b[6]) for n in f)
                ident = ('C04:mech:pipe-in-path' if pipe else 'C04:mech:implicit-output-produced-twice' if impl_only
                         else 'C04:mech:%s:%s' % ('+'.join(kinds), json.dumps(s)))
                ctx.violation(ident, 'NinjaBuild.write succeeded but the manifest it wrote breaks the property: %s ; op sequence %s'
                              % (json.dumps(bad[:4]), json.dumps(s)), {'ops': s, 'offenders': bad[:10]})
        if built:
            if obs != out_fixed[k]:
                if obs == out_asis[k]:
                    mech_stats['agrees_with_as_is_model_only'] += 1
                if len([d for d in ctx.disagreements if d.get('stream') == 'mechanism']) < 30:
                    ctx.disagreements.append({'stream': 'mechanism', 'ops': s, 'implementation': show(obs)[:600],
                                              'model_fixed': show(out_fixed[k])[:600], 'model_as_is': show(out_asis[k])[:600]})
    ctx.extra['mechanism'] = {'sequences': len(seqs), 'exhaustive_small': n_ex, 'exhaustive': True,
                              'exhaustive_scope': 'all op sequences of length <= %d over 14 operations' % (3 if thorough else 2),
                              'outcomes': mech_stats}
    ctx.sample({'stream': 'mechanism', 'ops': seqs[0]})

    phase('A-mechanism')
    # ------------------------------------------------------------------ B: reserved names
    names = sorted(set(RESERVED + BASE + ODD + HOSTILE + ['meson-', 'meson-.', 'meson-internal__', 'meson', 'Meson-x', 'meson-a.b', 'x-meson-y',
                                                          'clean-gcno', 'clean-gcda', 'coverage-html', 'coverage-xml', 'coverage-text', 'distcheck']))
    rj = [[n, b] for n in names for b in (True, False)]
    res = run_impl('c04.py', {'rejected': rj, 'forbidden': True})
    if built:
        rcases = [('rejected', [n, 'T' if b else 'F']) for n, b in rj]
        rout = ctx.run_model(rcases)
        kc_cases += rcases[:60]
        kc_outs += rout[:60]
        for (n, b), ri, rm in zip(rj, res['rejected'], rout):
            ctx.count(('rejected', n, b))
            if ri != rm:
                ctx.disagreements.append({'stream': 'names', 'name': n, 'in_root': b, 'implementation': ri, 'model': rm})
        reserved = ctx.run_model([('reserved', [])])[0].split(S2)
        ctx.extra['backend_root_outputs_model'] = reserved
    else:
        reserved = []

    # oracle (no model): every output the backend itself produces in the root of the build directory of a
    # target-free project must be refused as a target name there
    edir = os.path.join(ctx.mkscratch(), 'empty')
    write_tree(edir, {'meson.build': "project('empty')\n"})
    er = meson_cli(['setup', os.path.join(edir, 'b'), edir], timeout=240)
    if er.returncode == 0:
        em = run_impl('c04.py', {'manifests': [{'file': os.path.join(edir, 'b', 'build.ninja'), 'builddir': os.path.join(edir, 'b')}]})['manifests'][0]
        own = sorted(set(o for outs, iouts, _, _ in parse_statements(em['parse']) for o in outs + iouts if '/' not in o))
        acc = run_impl('c04.py', {'rejected': [[n, True] for n in own]})['rejected']
        ctx.extra['backend_root_outputs_observed'] = own
        for n, a in zip(own, acc):
            ctx.count(('own-output', n))
            if a != 'T':
                ctx.violation('C04:names:backend-output-accepted:' + n,
                              'the ninja backend itself produces %r in the root of every build directory, but validate_forbidden_targets '
                              'accepts it as a target name there (%s)' % (n, a), {'name': n, 'in_root': True, 'implementation': a})
            if reserved and n not in reserved and not n.startswith('meson-internal__'):
                ctx.disagreements.append({'stream': 'names', 'backend_output_missing_from_model_table': n})
    shutil.rmtree(edir, ignore_errors=True)
    # glue: run-target statement names and the path algebra of the preprocess model
    rn = [[sp, n] for sp in ('', 'sub', 'sp1', 'a b', 'x@@y') for n in ('srt', 'sal', 'a b', 'u@@v', 'ünï')]
    comps = ['', 'a', 'a/b', 'a/b/c', 'meson-out', 'meson-out/x.p', 'sub1/deep', 'b', 'a/c', 'x/y/z/w']
    rp = [[t, st] for t in comps for st in comps]
    gi = run_impl('c04.py', {'runname': rn, 'relpath': rp})
    if built:
        gcases = [('runname', a) for a in rn] + [('relpath', a) for a in rp]
        gm = ctx.run_model(gcases)
        kc_cases += gcases[:20] + gcases[-40:]
        kc_outs += gm[:20] + gm[-40:]
        for c, a, b in zip(gcases, gi['runname'] + gi['relpath'], gm):
            ctx.count((c[0], tuple(c[1])))
            if a != b:
                ctx.disagreements.append({'stream': 'glue', 'case': c, 'implementation': a, 'model': b})
        pcases = [('ppsrc', [fl, sd, 'preprocessor_0', 'foo.c.c']) for fl in 'TF' for sd in ('', 'a', 'a/b', 'sub1/deep/x')]
        for c, o in zip(pcases, ctx.run_model(pcases)):
            got, want = o.split(S1)
            if got != want:
                ctx.disagreements.append({'stream': 'glue', 'case': c, 'consumed': got, 'produced': want})
    phase('B-names')
    # ------------------------------------------------------------------ E: which targets sit behind meson-test-prereq
    tl = [[[o, [], []]] for o in TOBJS] + [[['O', [o], []]] for o in TOBJS] + [gen_tests(rng) for _ in range(6000 if thorough else 600)]
    tres = run_impl('c04.py', {'testlike': tl})['testlike']
    if built:
        tcs = [('testlike', [test_wire(t) for t in ts]) for ts in tl]
        tca = [('testlike_asis', [test_wire(t) for t in ts]) for ts in tl]
        tmo, tma = ctx.run_model(tcs), ctx.run_model(tca)
        kc_cases += tcs[:60] + tca[:30]
        kc_outs += tmo[:60] + tma[:30]
    n_asis = 0
    for k, (ts, ri) in enumerate(zip(tl, tres)):
        ctx.count(('testlike', json.dumps(ts)))
        got = ri.split(S2) if ri and not ri.startswith('EXC:') else []
        missing = sorted(set(i for t in ts for i in runs_or_depends_on(t) if i not in got))
        if missing or ri.startswith('EXC:'):
            ctx.violation('C04:testlike:overridden-program-missing' if any(o.startswith('L:') for t in ts for o in [t[0]] + t[1])
                          else 'C04:testlike:%s' % json.dumps(ts),
                          'get_testlike_targets (the inputs of meson-test-prereq) misses %s, which the tests %s run or depend on'
                          % (missing, json.dumps(ts)), {'tests': ts, 'missing': missing, 'implementation': ri})
        if built and ri != tmo[k]:
            if ri == tma[k]:
                n_asis += 1
            if len([d for d in ctx.disagreements if d.get('stream') == 'aggregates']) < 20:
                ctx.disagreements.append({'stream': 'aggregates', 'tests': ts, 'implementation': ri, 'model_fixed': tmo[k], 'model_as_is': tma[k]})
    ctx.extra['aggregates'] = {'test_lists': len(tl), 'agrees_with_as_is_model_only': n_asis}

    phase('E-aggregates')
    # ------------------------------------------------------------------ C: readers on generated texts
    tcases = [gen_text(rng, False) for _ in range(6000 if thorough else 700)] + [gen_text(rng, True) for _ in range(3000 if thorough else 400)]
    pyr = run_impl('c04.py', {'texts': tcases})['texts']
    nerr = 0
    if built:
        cr = ctx.run_model([('parse', [t]) for t in tcases])
        chk = ctx.run_model([('check', [t, '', '', '']) for t in tcases])
        kc_cases += [('parse', [t]) for t in tcases[:30]] + [('check', [t, '', '', '']) for t in tcases[:30]] + [('parse', [t]) for t in tcases[-30:]]
        kc_outs += cr[:30] + chk[:30] + cr[-30:]
        for t, a, b, c in zip(tcases, cr, pyr, chk):
            ctx.count(('text', t))
            if a.startswith('ERR'):
                nerr += 1
            if norm_parse(a) != norm_parse(b['parse']):
                if len([d for d in ctx.disagreements if d.get('stream') == 'reader']) < 20:
                    ctx.disagreements.append({'stream': 'reader', 'text': t, 'coq': show(a)[:800], 'python': show(b['parse'])[:800]})
            elif not a.startswith('ERR') and errs_key(parse_errs(c)) != errs_key(b['oracle']):
                if len([d for d in ctx.disagreements if d.get('stream') == 'judge']) < 20:
                    ctx.disagreements.append({'stream': 'judge', 'text': t, 'coq_check': parse_errs(c)[:10], 'python_oracle': b['oracle'][:10]})
    ctx.extra['reader_texts'] = {'texts': len(tcases), 'rejected_by_reader': nerr}

    phase('C-readers')
    # ------------------------------------------------------------------ D: projects through the CLI
    base = ctx.mkscratch()
    nproj = 1000 if thorough else 40
    flavours = ['plain', 'unityx', 'odd', 'collide', 'collide', 'hostile', 'reserved', 'plain', 'big', 'plain', 'unityx']
    recs = [dict(c) for c in CORPUS_PROJECTS]
    for i in range(nproj):
        fl = flavours[i % len(flavours)]
        recs.append(gen_unity_project(rng, i) if fl == 'unityx' else Proj(rng, i, fl).build().record())
    stats = {'projects': len(recs), 'configured': 0, 'rejected_at_configure': 0, 'crashed': 0, 'statements': 0,
             'by_flavour': {}, 'args': {}}
    CH = 160
    all_results = []
    feat = {}        # feature -> projects generated / configured / with --layout=flat / with unity

    def note_features(rc, configured):
        text = '\n'.join(b for f, b in rc['files'].items() if f.endswith('meson.build'))
        flat, unity = '--layout=flat' in rc['args'], any(a.startswith('--unity=') for a in rc['args'])
        for name, needle in FEATURES:
            if needle in text:
                e = feat.setdefault(name, {'projects': 0, 'configured': 0, 'flat': 0, 'unity': 0})
                e['projects'] += 1
                e['configured'] += bool(configured)
                e['flat'] += flat
                e['unity'] += unity
    ustats = {'targets': 0, 'extract side agrees with repaired model': 0, 'extract side agrees with as-is model only': 0}
    for c0 in range(0, len(recs), CH):
        chunk = recs[c0:c0 + CH]
        setups = pmap(lambda rc: setup_project(rc, base), chunk)
        items, owners = [], []
        for rc, s in zip(chunk, setups):
            fl = stats['by_flavour'].setdefault(rc['flavour'], {'n': 0, 'configured': 0})
            fl['n'] += 1
            for a in rc['args']:
                stats['args'][a.split('=')[0]] = stats['args'].get(a.split('=')[0], 0) + 1
            ctx.count(('project', s['tag']))
            note_features(rc, s['rc'] == 0)
            if s['rc'] == 0 and os.path.exists(os.path.join(s['builddir'], 'build.ninja')):
                stats['configured'] += 1
                fl['configured'] += 1
                na, nt, _ = expected_paths(rc, s['builddir'])
                items.append({'file': os.path.join(s['builddir'], 'build.ninja'), 'builddir': s['builddir'], 'need_all': na,
                              'need_test': nt, 'label': 'project %s' % rc['idx']})
                owners.append((rc, s))
            elif s['rc'] == 1:
                stats['rejected_at_configure'] += 1
            else:
                stats['crashed'] += 1
                if 'crash_samples' not in stats:
                    stats['crash_samples'] = []
                if len(stats['crash_samples']) < 5:
                    stats['crash_samples'].append({'idx': rc['idx'], 'rc': s['rc'], 'tail': s['out'][-400:]})
        results = judge_manifests(ctx, built, items)
        if built:
            ucs = [(rc, u) for (rc, s), rs in zip(owners, results) for u in unity_model_cases(rc, rs.get('parse', 'ERR'))]
            for (rc, (case, compiled, extracted, sp)), mo in zip(ucs, ctx.run_model([u[0] for _, u in ucs])):
                m_comp, m_asis, m_fixed = mo.split(S1)
                ctx.count(('unity', rc['idx'], sp['target']))
                ustats['targets'] += 1
                ustats['extract side agrees with repaired model'] += extracted == m_fixed
                ustats['extract side agrees with as-is model only'] += extracted == m_asis != m_fixed
                if compiled != m_comp or extracted not in (m_fixed, m_asis):
                    ctx.disagreements.append({'stream': 'unity-objects', 'project': rc['idx'], 'target': sp, 'manifest_compiles': compiled.split(S2),
                                              'manifest_extracts': extracted.split(S2), 'model_compiles': m_comp.split(S2),
                                              'model_extracts_fixed': m_fixed.split(S2), 'model_extracts_as_is': m_asis.split(S2)})
                if len(kc_cases) < 4000 and ustats['targets'] <= 6:
                    kc_cases.append(case)
                    kc_outs.append(mo)
        for (rc, s), it, rs in zip(owners, items, results):
            stats['statements'] += rs['statements']
            if rs['verdict']:
                kinds = sorted(set(e[0] for e in rs['verdict']))
                first = rs['verdict'][0]
                ident = 'C04:cli:%s:%s' % ('+'.join(kinds), rc['idx'] if rc['flavour'] == 'corpus' else s['tag'])
                if any('|' in t.get('name', '') or any('|' in o for o in t.get('outs', [])) for t in rc['targets']):
                    ident = 'C04:cli:pipe-in-path'
                elif kinds == ['unreachable'] and any('override_find_program' in b for b in rc['files'].values()):
                    ident = 'C04:cli:overridden-program-unreachable'
                elif kinds == ['missing-input'] and any('alias_target' in b for b in rc['files'].values()) and \
                        all(not os.path.dirname(e[2]) and e[1].count('@@') for e in rs['verdict']):
                    ident = 'C04:cli:run-target-dep-in-subproject'
                elif kinds == ['missing-input'] and '--layout=flat' in rc['args'] and any('.preprocess(' in b for b in rc['files'].values()) and \
                        all('preprocessor_' in e[1] or 'preprocessor_' in e[2] for e in rs['verdict']):
                    ident = 'C04:cli:preprocess-flat-layout'
                elif flat_generator_known(rs['verdict'], rc['args'], rs.get('parse', 'ERR'), list(rc['files'].values())):
                    ident = 'C04:cli:generator-input-flat-layout'
                elif unity_known_finding(rs['verdict'], rc, s['builddir'], rs.get('parse', 'ERR')):
                    ident = 'C04:cli:unity-extracted-objects'

                ctx.violation(ident, 'meson setup succeeded but build.ninja breaks the property (%s): %s'
                              % (', '.join(kinds), json.dumps(rs['verdict'][:5], ensure_ascii=False)),
                              {'project': {'files': rc['files'], 'args': rc['args'], 'targets': rc['targets'], 'tests': rc['tests']},
                               'offenders': rs['verdict'][:20], 'need_all': it['need_all'], 'need_test': it['need_test']})
            all_results.append(rs)
        for s in setups:
            shutil.rmtree(s['srcdir'], ignore_errors=True)
    ctx.cov['traces_validated_against_impl'] = stats['configured']
    ctx.sample({'stream': 'cli', 'project': {k: v for k, v in recs[len(CORPUS_PROJECTS)].items() if k in ('files', 'args')}})

    phase('D-generated-projects')
    # repository test projects
    rp = repo_projects(0 if thorough else 28, rng)
    rstats = {'projects': len(rp), 'configured': 0, 'args': {}}
    for c0 in range(0, len(rp), CH):
        chunk = rp[c0:c0 + CH]
        setups = pmap(lambda d: setup_repo_project(d, base), chunk)
        items, owners = [], []
        for s in setups:
            ctx.count(('repo-project', s['origin'], tuple(s['args'])))
            for a in (s['args'] or ['(as is)']):
                rstats['args'][a] = rstats['args'].get(a, 0) + 1
            if s['rc'] == 0 and os.path.exists(os.path.join(s['builddir'], 'build.ninja')):
                rstats['configured'] += 1
                na, nt = intro_expected(s['builddir'])
                items.append({'file': os.path.join(s['builddir'], 'build.ninja'), 'builddir': s['builddir'], 'need_all': na, 'need_test': nt,
                              'label': os.path.basename(s['origin']) + ' ' + ' '.join(s['args'])})
                owners.append(s)
        results = judge_manifests(ctx, built, items)
        for s, it, rs in zip(owners, items, results):
            if rs['verdict']:
                kinds = sorted(set(e[0] for e in rs['verdict']))
                ident = 'C04:repo:%s:%s%s' % ('+'.join(kinds), os.path.basename(s['origin']), ''.join(' ' + a for a in s['args']))
                if flat_generator_known(rs['verdict'], s['args'], rs.get('parse', 'ERR'), project_texts(s['srcdir'])):
                    ident = 'C04:cli:generator-input-flat-layout'
                ctx.violation(ident,
                              'meson setup %s of %s succeeded but build.ninja breaks the property: %s' % (' '.join(s['args']), s['origin'], json.dumps(rs['verdict'][:5])),
                              {'repo_project': s['origin'], 'args': s['args'], 'offenders': rs['verdict'][:20], 'need_all': it['need_all'], 'need_test': it['need_test']})
        for s in setups:
            shutil.rmtree(s['srcdir'], ignore_errors=True)
    ctx.cov['traces_validated_against_impl'] += rstats['configured']
    ctx.extra['cli_projects'] = stats
    ctx.extra['feature_coverage'] = {k: v for k, v in sorted(feat.items())}
    ctx.extra['unity_objects_vs_model'] = ustats
    ctx.extra['repo_projects'] = rstats

    phase('D-repository-projects')
    if built:
        for c, o in ctx._kc_cases[:5]:
            kc_cases.append(c)
            kc_outs.append(o)
        ctx.kernel_crosscheck('Graph.Entry', kc_cases, kc_outs, limit=300 if thorough else 220)

    phase('kernel-crosscheck')
    ctx.extra['phase_seconds'] = phases
    return ctx.finish(
        level='proof',
        trusted=['Coq 8.16.1 kernel (coqc, vm_compute; no native_compute)',
                 'extraction with ExtrOcamlBasic directives only + OCaml + extract/driver.ml (cross-checked in-kernel on a sample each run)',
                 'the reading of the Ninja manifest grammar and scoping rules in coq/Graph/Manifest.v (written from the Ninja manual; no ninja '
                 'binary in the sandbox) - cross-checked on every manifest against the independent Python reader in harness/impl/c04.py',
                 'harness/check_C04.py generators (projects, op sequences, texts), file-existence probe (os.path.lexists), introspection '
                 'files used to name the outputs of the targets the generator declared build-by-default / used by tests',
                 'not modelled: generate_target / generate_custom_target / generate_link (explored through the project generator); textual '
                 'rendering of build lines (ninja_quote, backslash replacement, response files)'],
        assumptions=['Print Assumptions: all property theorems closed under the global context (no axioms)',
                     'mechanism op sequences use names without newline, backslash, "|" and without "."/".." path components'],
        rule='A: NinjaBuild/NinjaBuildElement op sequences (corpus + exhaustive small + random) run in process; the text written is read back '
             'by the extracted parser and compared with the mechanism model; B: target names through validate_forbidden_targets vs model; '
             'C: generated manifest texts (valid and malformed) through the extracted reader and the Python reference reader; D: generated '
             'projects and repository test projects configured with the Ninja backend, build.ninja judged by the extracted checker with the '
             'list of existing files from the build directory; distinct = distinct op sequences / names / texts / project trees')
