"""End-to-end machinery of the C03 check (stream D) and the tools shared with streams B/C:
a recording dumper program, the real /bin/sh and gcc as decoders, generation of meson
projects that place hostile strings in every command position, a build.ninja statement
splitter, evaluation of the statements with the extracted reference ninja evaluator and
execution of the resulting command strings by /bin/sh, `meson test` for tests.

Nothing here knows how meson quotes: expectations are computed from the project
specification and the property text only (the four established rewrites)."""
import json, os, re, shlex, shutil, stat, subprocess, time
from common import *

DUMPER_C = r'''
#include <stdio.h>
#include <stdlib.h>
#include <string.h>
#include <time.h>
#include <unistd.h>
extern char **environ;
int main(int argc, char **argv) {
    FILE *f = stdout;
    const char *dir = getenv("MVERIF_OUTDIR");
    char path[4096], cwd[4096];
    int i, n = 0;
    char **e;
    if (dir && *dir) {
        struct timespec ts;
        clock_gettime(CLOCK_REALTIME, &ts);
        snprintf(path, sizeof path, "%s/%020lld-%d.rec", dir,
                 (long long)ts.tv_sec * 1000000000LL + ts.tv_nsec, (int)getpid());
        f = fopen(path, "wb");
        if (!f) return 97;
    }
    fprintf(f, "%d", argc - 1); fputc(0, f);
    for (i = 1; i < argc; i++) { fputs(argv[i], f); fputc(0, f); }
    for (e = environ; *e; e++) if (!strncmp(*e, "MV_", 3)) n++;
    fprintf(f, "%d", n); fputc(0, f);
    for (e = environ; *e; e++) if (!strncmp(*e, "MV_", 3)) { fputs(*e, f); fputc(0, f); }
    if (!getcwd(cwd, sizeof cwd)) cwd[0] = 0;
    fputs(cwd, f); fputc(0, f);
    if (f != stdout) fclose(f);
    return 0;
}
'''


def parse_records(data):
    """bytes -> list of {'argv': [...], 'env': {...}, 'cwd': str}"""
    fields = data.split(b'\0')
    recs, i = [], 0
    dec = lambda b: b.decode('utf-8', 'surrogateescape')
    while i < len(fields) - 1:
        n = int(fields[i]); i += 1
        argv = [dec(x) for x in fields[i:i + n]]; i += n
        m = int(fields[i]); i += 1
        env = {}
        for x in fields[i:i + m]:
            k, _, v = dec(x).partition('=')
            env[k] = v
        i += m
        cwd = dec(fields[i]); i += 1
        recs.append({'argv': argv, 'env': env, 'cwd': cwd})
    return recs


class Tools:
    def __init__(self, ctx):
        self.ctx = ctx
        self.dir = os.path.join(ctx.mkscratch(), 'tools')
        os.makedirs(os.path.join(self.dir, 'bin'), exist_ok=True)
        src = os.path.join(self.dir, 'dumper.c')
        open(src, 'w').write(DUMPER_C)
        self.dumper = os.path.join(self.dir, 'bin', 'mvdumper')
        r = subprocess.run(['gcc', '-O1', '-o', self.dumper, src], capture_output=True, text=True, timeout=120)
        if r.returncode != 0:
            raise HarnessError('cannot compile the dumper: ' + r.stderr[-500:])
        os.symlink(self.dumper, os.path.join(self.dir, 'bin', '@D@'))
        # compiler wrapper: records argv instead of compiling when MVERIF_OUTDIR is set
        self.ccwrap = os.path.join(self.dir, 'bin', 'mvcc')
        open(self.ccwrap, 'w').write('#!/bin/sh\nif [ -n "$MVERIF_OUTDIR" ]; then exec %s "$@"; fi\nexec gcc "$@"\n' % self.dumper)
        os.chmod(self.ccwrap, 0o755)
        self.n = 0

    # independent re-statements used only to *generate* decoder test strings
    @staticmethod
    def pyquote(s):
        return shlex.quote(s)

    @staticmethod
    def rspquote(s):
        return shlex.quote(s.replace('\\', '\\\\'))

    def base_env(self, extra=None):
        e = {'PATH': os.path.join(self.dir, 'bin') + ':/usr/bin:/bin', 'LC_ALL': 'C.UTF-8', 'HOME': self.dir}
        if extra:
            e.update(extra)
        return e

    def sh_split_many(self, strings, chunk=150):
        """For each string s: what argv(s) the real /bin/sh gives the dumper for the command line
        '<dumper> s' (a list of argv lists: one per dumper invocation of that line)."""
        out = [None] * len(strings)
        jobs = [(i, strings[i:i + chunk]) for i in range(0, len(strings), chunk)]

        def work(job):
            i0, ss = job
            self.n += 1
            d = os.path.join(self.dir, 'sh-%d-%d' % (i0, self.n))
            os.makedirs(d)
            # every string is its own script (parsed exactly like `sh -c`): a syntax error or an
            # open AND-list stays confined to it
            with open(os.path.join(d, 'all.sh'), 'wb') as f:
                for k, s in enumerate(ss):
                    with open(os.path.join(d, 'c%d.sh' % k), 'wb') as g:
                        g.write(self.dumper.encode() + b' ' + s.encode('utf-8', 'surrogateescape'))
                    f.write(b"/bin/sh %s/c%d.sh 2>/dev/null\nprintf '\\001\\000'\n" % (d.encode(), k))
            r = subprocess.run(['/bin/sh', os.path.join(d, 'all.sh')], capture_output=True,
                               env=self.base_env({'PATH': os.path.join(self.dir, 'bin')}), cwd=self.dir, timeout=300)
            shutil.rmtree(d, ignore_errors=True)
            chunks = r.stdout.split(b'\x01\x00')
            if len(chunks) != len(ss) + 1:
                raise HarnessError('sh batch: %d separators for %d strings' % (len(chunks) - 1, len(ss)))
            res = []
            for c in chunks[:-1]:
                try:
                    res.append([x['argv'] for x in parse_records(c)])
                except Exception:
                    res.append('unparsable')
            return i0, res
        for i0, res in pmap(work, jobs):
            out[i0:i0 + len(res)] = res
        return out

    GCC_LINE = re.compile(r'^(?:/usr/bin/ld: cannot find |[\w./-]*ld: cannot find |gcc: error: )(.*): No such file or directory$')

    def gcc_args_many(self, contents):
        """For each response-file content: the arguments the real gcc reads from @file (from its
        'No such file' diagnostics, one per argument, in order), or None if not observable."""
        def work(ic):
            i, c = ic
            p = os.path.join(self.dir, 'r-%d.rsp' % i)
            with open(p, 'wb') as f:
                f.write(c.encode('utf-8', 'surrogateescape'))
            r = subprocess.run(['gcc', '@' + p], capture_output=True, env=self.base_env({'LC_ALL': 'C'}), cwd=self.dir, timeout=60)
            os.unlink(p)
            err = r.stderr.decode('utf-8', 'surrogateescape')
            args = []
            for line in err.split('\n'):
                m = self.GCC_LINE.match(line)
                if m:
                    args.append(m.group(1))
                elif line.strip() and not re.match(r'^(collect2: error|compilation terminated|gcc: fatal error: no input files)', line):
                    return None
            return args
        return pmap(work, list(enumerate(contents)))


# ------------------------------------------------------------------ project generation
def mstr(s):
    out = []
    for ch in s:
        o = ord(ch)
        if ch == '\\':
            out.append('\\\\')
        elif ch == "'":
            out.append("\\'")
        elif 32 <= o < 127:
            out.append(ch)
        elif o < 256:
            out.append('\\x%02x' % o)
        elif o < 0x10000:
            out.append('\\u%04x' % o)
        else:
            out.append('\\U%08x' % o)
    return "'" + ''.join(out) + "'"


def mlist(args):
    return '[' + ', '.join('d' if a == '@D@' else mstr(a) for a in args) + ']'


def menv(env):
    return '{' + ', '.join('%s: %s' % (mstr(k), mstr(v)) for k, v in env.items()) + '}'


def render_project(spec, tools, srcdir):
    L = ["project('c03'%s)" % (", 'c'" if spec.get('lang_c') else ''),
         "d = find_program(%s)" % mstr(tools.dumper)]
    if spec.get('global_args'):
        L.append("add_global_arguments(%s, language: 'c')" % mlist(spec['global_args']))
    if spec.get('project_args'):
        L.append("add_project_arguments(%s, language: 'c')" % mlist(spec['project_args']))
    if spec.get('project_link_args'):
        L.append("add_project_link_arguments(%s, language: 'c')" % mlist(spec['project_link_args']))
    for it in spec['items']:
        k, i = it['kind'], it['id']
        env = (', env: ' + menv(it['env'])) if it.get('env') else ''
        if k == 'custom_target':
            extra = ''
            if it.get('capture'):
                extra += ', capture: true'
            if it.get('feed'):
                extra += ", feed: true, input: 'feed.txt'"
            L.append("custom_target('ct%d', output: 'ct%d.out', command: %s%s%s)" % (i, i, mlist(['@D@', 'id:ct%d' % i] + it['args']), extra, env))
        elif k == 'run_target':
            L.append("run_target('rt%d', command: %s%s)" % (i, mlist(['@D@', 'id:rt%d' % i] + it['args']), env))
        elif k == 'generator':
            tail = ['@INPUT@'] + ([] if it.get('capture') else ['@OUTPUT@'])
            L.append("g%d = generator(d, output: 'g%d_@BASENAME@.out', arguments: %s%s)" % (i, i, mlist(['id:g%d' % i] + it['args'] + tail), ', capture: true' if it.get('capture') else ''))
            L.append("custom_target('gct%d', input: g%d.process('gin.txt'%s), output: 'gct%d.out', command: [d, 'id:gct%d', '@INPUT@', '@OUTPUT@'])" % (i, i, env, i, i))
        elif k == 'test':
            wd = (', workdir: %s' % mstr(srcdir)) if it.get('workdir') else ''
            L.append("test('t%d', d, args: %s%s%s)" % (i, mlist(['id:t%d' % i] + it['args']), env, wd))
        elif k == 'exe':
            L.append("executable('e%d', 'e.c', c_args: %s, link_args: %s)" % (i, mlist(it.get('c_args', [])), mlist(it.get('link_args', []))))
    return '\n'.join(L) + '\n'


# ------------------------------------------------------------------ build.ninja statement splitter
def decode_build_lines(ctx, lines):
    """Read `build ...` lines with the extracted reference decoder (ninja's path mode,
    coq/Quote/Ninja.v npaths).  -> per line a dict(outs, implicit, rule, ins, deps, orderdeps)
    or None when ninja could not read the line."""
    def rounds(texts):
        res = ctx.run_model([('npaths', [t]) for t in texts]) if texts else []
        out = []
        for r in res:
            if not r.startswith('O'):
                out.append(None)
            else:
                lst, _, rest = r[1:].partition('\x01')
                out.append((lst.split('\x02')[:-1] if lst else [], rest))
        return out
    st = [{'rest': (l[6:] if l.startswith('build ') else None), 'ok': l.startswith('build ')} for l in lines]

    def step(key, pred, strip):
        idx = [i for i, x in enumerate(st) if x['ok'] and pred(x['rest'])]
        for i, r in zip(idx, rounds([strip(st[i]['rest']) for i in idx])):
            if r is None:
                st[i]['ok'] = False
            else:
                st[i][key], st[i]['rest'] = r
    step('outs', lambda r: True, lambda r: r)
    step('implicit', lambda r: r.startswith('| '), lambda r: r[1:])
    for x in st:
        if x['ok']:
            if not x['rest'].startswith(':'):
                x['ok'] = False
                continue
            body = x['rest'][1:].lstrip(' ')
            x['rule'], _, x['rest'] = body.partition(' ')
            if x['rule'].endswith('\n'):
                x['rule'], x['rest'] = x['rule'][:-1], '\n'
    step('ins', lambda r: True, lambda r: r)
    step('deps', lambda r: r.startswith('| '), lambda r: r[1:])
    step('orderdeps', lambda r: r.startswith('|| '), lambda r: r[2:])
    out = []
    for x in st:
        if not x['ok'] or x['rest'] not in ('', '\n'):
            out.append(None)
        else:
            out.append({k: x.get(k, [] if k != 'rule' else '') for k in ('outs', 'implicit', 'rule', 'ins', 'deps', 'orderdeps')})
    return out


def parse_ninja(ctx, text):
    rules, builds, bad = {}, [], []
    cur = None
    blines = []
    for line in text.split('\n'):
        if line.startswith('#') or line.strip(' ') == '':
            if line.strip(' ') == '':
                cur = None
            continue
        if line.startswith('rule '):
            cur = rules.setdefault(line[5:].strip(), {})
        elif line.startswith('build '):
            b = {'outs': [], 'rule': '', 'ins': [], 'vars': {}}
            blines.append((line, b))
            builds.append(b)
            cur = b['vars']
        elif line.startswith(' ') and cur is not None and ' = ' in line + ' ':
            k, _, v = (line[1:] + ' ').partition(' = ')
            cur[k.strip()] = v[:-1].lstrip(' ') if v.endswith(' ') else v.lstrip(' ')
        elif re.match(r'^(ninja_required_version|default |subninja |include |pool )', line):
            cur = None if not line.startswith('pool ') else {}
        else:
            bad.append(line)
    for (line, b), d in zip(blines, decode_build_lines(ctx, [l for l, _ in blines])):
        if d is None:
            bad.append(line)
        else:
            b.update(outs=d['outs'], rule=d['rule'], ins=d['ins'])
    return rules, builds, bad


# ------------------------------------------------------------------ expectations (property text only)
def bs_norm(s):
    return s.replace('\\', '/')


def expect_custom(it, tools):
    """expected dumper records of a custom_target / run_target item"""
    i = it['id']
    tag = 'id:ct%d' % i if it['kind'] == 'custom_target' else 'id:rt%d' % i
    out = 'ct%d.out' % i
    words = []
    for a in [tag] + it['args']:
        if a == '@D@':
            words.append(tools.dumper)
            continue
        if it['kind'] == 'custom_target':
            if a == '@OUTPUT@':
                words.append(out)
                continue
            a = a.replace('@OUTPUT@', out).replace('@OUTDIR@', '.')
        a = a.replace('@SOURCE_ROOT@', '..').replace('@BUILD_ROOT@', '.')
        words.append(bs_norm(a))               # established rewrite: backslashes become /
    if it.get('andand'):
        recs, cur = [], []
        for w in words:
            if w == '&&':                        # established rewrite: && separates commands
                recs.append(cur)
                cur = []
            else:
                cur.append(w)
        recs.append(cur)
        return [recs[0]] + [r[1:] for r in recs[1:]]     # later commands start with the dumper path
    return [words]


def dflt(s):
    return s.replace('\\', '\\\\') if s.startswith(('-D', '/D')) else s     # established rewrite: -D backslash doubling


# ------------------------------------------------------------------ running one project
def setup_project(tools, spec, root):
    src = os.path.join(root, 's')
    os.makedirs(src, exist_ok=True)
    open(os.path.join(src, 'meson.build'), 'w', encoding='utf-8').write(render_project(spec, tools, src))
    open(os.path.join(src, 'e.c'), 'w').write('int main(void) { return 0; }\n')
    open(os.path.join(src, 'feed.txt'), 'w').write('feed\n')
    open(os.path.join(src, 'gin.txt'), 'w').write('gin\n')
    env = {'CC': tools.ccwrap, 'PATH': tools.base_env()['PATH']}
    if spec.get('rsp') == 'mixed':
        # only the long command lines of the project go through a response file, so the same
        # rule is used by plain statements and by response-file statements
        env['MESON_RSP_THRESHOLD'] = '1500'
    elif spec.get('rsp'):
        env['MESON_RSP_THRESHOLD'] = '0'
    r = meson_cli(['setup', os.path.join(src, 'b')], cwd=src, env=env, timeout=600)
    return src, r


def run_sh(tools, cmd, cwd, recdir, timeout=300):
    os.makedirs(recdir, exist_ok=True)
    e = dict(os.environ)
    e.update(tools.base_env())
    e['MVERIF_OUTDIR'] = recdir
    e['PYTHONDONTWRITEBYTECODE'] = '1'
    r = subprocess.run(['/bin/sh', '-c', cmd], cwd=cwd, env=e, capture_output=True, timeout=timeout,
                       stdin=subprocess.DEVNULL)
    recs = []
    for fn in sorted(os.listdir(recdir)):
        recs += parse_records(open(os.path.join(recdir, fn), 'rb').read())
    return r, recs


def untlist(s):
    return s.split('\x02')[:-1] if s else []


def check_project(ctx, tools, spec, root):
    """-> (failures, stats).  A failure is {'kind', 'item' (or None), ...}."""
    fails, stats = [], {'statements': 0, 'tests': 0, 'setup_failed': 0}
    src, r = setup_project(tools, spec, root)
    bdir = os.path.join(src, 'b')
    if r.returncode != 0:
        stats['setup_failed'] = 1
        return [{'kind': 'setup_failed', 'item': None, 'stdout': (r.stdout + r.stderr)[-1500:]}], stats
    text = open(os.path.join(bdir, 'build.ninja'), encoding='utf-8', errors='surrogateescape', newline='\n').read()
    rules, builds, bad = parse_ninja(ctx, text)
    if bad:
        fails.append({'kind': 'build_ninja_malformed', 'item': None, 'lines': bad[:5]})
    by_out = {}
    for b in builds:
        for o in b['outs']:
            by_out[o] = b
    # which statements belong to which item
    jobs = []       # (item, role, build)
    for it in spec['items']:
        k, i = it['kind'], it['id']
        names = {'custom_target': [('cmd', 'ct%d.out' % i)], 'run_target': [('cmd', 'meson-internal__rt%d' % i)],
                 'generator': [('gen', None)], 'exe': [('compile', 'e%d.p/e.c.o' % i), ('link', 'e%d' % i)], 'test': []}[k]
        for role, o in names:
            if role == 'gen':
                cand = [b for b in builds if any(os.path.basename(x) == 'g%d_gin.out' % i for x in b['outs'])]
                b = cand[0] if cand else None
            else:
                b = by_out.get(o)
            if b is None:
                fails.append({'kind': 'statement_missing', 'item': it, 'role': role})
            else:
                jobs.append((it, role, b))
    if spec.get('label') == 'corpus-c-mixed':
        # self-check of the fixed mixed-mode projects: each of the compile and link rules must be used by a
        # response-file statement AND by a plain statement, otherwise the project no longer exercises what it is for
        used = {(b['rule'].replace('_RSP', ''), b['rule'].endswith('_RSP')) for it, role, b in jobs if role in ('compile', 'link')}
        for rname in {r for r, _ in used}:
            if not ((rname, True) in used and (rname, False) in used):
                raise HarnessError('C03 corpus-c-mixed: rule %s is not used both with and without a response file (%s)' % (rname, sorted(used)))
    # round 1: edge variables
    c1, idx1 = [], []
    for j, (it, role, b) in enumerate(jobs):
        for k, v in b['vars'].items():
            c1.append(('neval', [v]))
            idx1.append((j, k))
    r1 = ctx.run_model(c1)
    envs = [dict() for _ in jobs]
    broken = set()
    for (j, k), v in zip(idx1, r1):
        if not v.startswith('O'):
            broken.add(j)
            fails.append({'kind': 'ninja_cannot_evaluate_variable', 'item': jobs[j][0], 'role': jobs[j][1], 'variable': k,
                          'raw': jobs[j][2]['vars'][k]})
        else:
            envs[j][k] = v[1:]
    # round 2: rule command (+ rspfile, rspfile_content)
    c2, idx2 = [], []
    for j, (it, role, b) in enumerate(jobs):
        if j in broken:
            continue
        rule = rules.get(b['rule'])
        if rule is None or 'command' not in rule:
            fails.append({'kind': 'rule_missing', 'item': it, 'role': role, 'rule': b['rule']})
            broken.add(j)
            continue
        env = dict(envs[j])
        env['in'] = ' '.join(shlex.quote(x) for x in b['ins'])      # ninja shell-escapes $in/$out paths itself
        env['out'] = ' '.join(shlex.quote(x) for x in b['outs'])
        flat = []
        for k, v in env.items():
            flat += [k, v]
        for key in ('command', 'rspfile', 'rspfile_content'):
            if key in rule:
                c2.append(('neval', [rule[key]] + flat))
                idx2.append((j, key))
    r2 = ctx.run_model(c2)
    ev = [dict() for _ in jobs]
    for (j, key), v in zip(idx2, r2):
        if not v.startswith('O'):
            broken.add(j)
            fails.append({'kind': 'ninja_cannot_evaluate_command', 'item': jobs[j][0], 'role': jobs[j][1], 'what': key})
        else:
            ev[j][key] = v[1:]

    def work(j):
        it, role, b = jobs[j]
        e = ev[j]
        if 'rspfile' in e:
            p = os.path.join(bdir, e['rspfile'])
            os.makedirs(os.path.dirname(p), exist_ok=True)
            with open(p, 'wb') as f:
                f.write(e['rspfile_content'].encode('utf-8', 'surrogateescape'))
        try:
            r, recs = run_sh(tools, e['command'], bdir, os.path.join(root, 'rec-%d' % j))
        except subprocess.TimeoutExpired:
            return j, None, []
        return j, r, recs
    results = pmap(work, [j for j in range(len(jobs)) if j not in broken], workers=4)
    rsp_cases, rsp_idx = [], []
    got = {}
    for j, r, recs in results:
        got[j] = (r, recs)
        if 'rspfile' in ev[j]:
            rsp_cases.append(('rspargs', [ev[j]['rspfile_content']]))
            rsp_idx.append(j)
    rsp_args = dict(zip(rsp_idx, [untlist(x) for x in ctx.run_model(rsp_cases)]))

    baseline = {}
    for j, (it, role, b) in enumerate(jobs):
        if j in broken:
            continue
        stats['statements'] += 1
        r, recs = got[j]
        argvs = [x['argv'] for x in recs]
        if j in rsp_args:       # gcc replaces the @file argument by the arguments read from the file
            argvs = [sum(([a] if not (a.startswith('@') and a.endswith('.rsp')) else rsp_args[j] for a in av), []) for av in argvs]
        info = {'item': it, 'role': role, 'command': ev[j].get('command', '')[:1500], 'got': argvs}
        if r is None:
            fails.append(dict(info, kind='command_timeout'))
            continue
        if role == 'cmd':
            want = expect_custom(it, tools)
            if argvs != want:
                fails.append(dict(info, kind='argv_differs', want=want, stderr=r.stderr.decode('utf-8', 'replace')[-400:]))
            elif it.get('env') is not None:
                for x in recs[:1]:
                    if x['env'] != {k: v for k, v in it['env'].items()}:
                        fails.append(dict(info, kind='env_differs', want=it['env'], got_env=x['env']))
        elif role == 'gen':
            want = ['id:g%d' % it['id']] + [bs_norm(a) for a in it['args']]
            ok = len(argvs) == 1 and argvs[0][:len(want)] == want and len(argvs[0]) == len(want) + (1 if it.get('capture') else 2) \
                and argvs[0][len(want)].endswith('gin.txt')
            if not ok:
                fails.append(dict(info, kind='argv_differs', want=[want + ['<input>', '<output>']]))
            elif it.get('env') is not None and recs[0]['env'] != it['env']:
                fails.append(dict(info, kind='env_differs', want=it['env'], got_env=recs[0]['env']))
        else:
            if len(argvs) != 1:
                fails.append(dict(info, kind='argv_differs', want='one compiler invocation'))
                continue
            baseline[(it['id'], role)] = argvs[0]
    # compile / link: the arguments beyond the baseline executable's (item with no extra arguments)
    exes = [it for it in spec['items'] if it['kind'] == 'exe']
    base = [it for it in exes if it.get('baseline')]
    if exes and base:
        b0 = base[0]
        for role, key, extra_global in (('compile', 'c_args', True), ('link', 'link_args', False)):
            if (b0['id'], role) not in baseline:
                continue
            ref = [a.replace('e%d' % b0['id'], 'e@') for a in baseline[(b0['id'], role)]]
            for it in exes:
                if (it['id'], role) not in baseline:
                    continue
                mine = [a for a in baseline[(it['id'], role)]]
                refl = [a.replace('e@', 'e%d' % it['id']) for a in ref]
                # multiset difference preserving order
                extras = list(mine)
                missing = []
                for a in refl:
                    if a in extras:
                        extras.remove(a)
                    else:
                        missing.append(a)
                want = [dflt(a) for a in it.get(key, [])] if role == 'compile' else list(it.get(key, []))
                if role == 'link':
                    # per-target c_args are also given to the linker driver line (cc $ARGS -o ...): not for C; only LINK_ARGS
                    pass
                if extras != want or missing:
                    fails.append({'kind': 'argv_differs', 'item': it, 'role': role, 'want_extra': want, 'got_extra': extras,
                                  'missing_baseline': missing, 'got': [mine]})
                # global / project arguments (present in every target, so they cancel out above): each group must
                # appear unchanged, once, in order
                groups = [('global_args', spec.get('global_args', [])), ('project_args', spec.get('project_args', []))] if role == 'compile' \
                    else [('project_link_args', spec.get('project_link_args', []))]
                for gname, grp in groups:
                    seen = [a for a in mine if a in set(grp)]
                    if seen != list(grp):
                        fails.append({'kind': 'argv_differs', 'item': it, 'role': role + ':' + gname, 'want_group': grp, 'got_group': seen,
                                      'got': [mine]})
    # tests
    tests = [it for it in spec['items'] if it['kind'] == 'test']
    if tests:
        recdir = os.path.join(root, 'rec-tests')
        os.makedirs(recdir, exist_ok=True)
        r = meson_cli(['test', '--no-rebuild', '-C', bdir, '--num-processes', '4'], cwd=src,
                      env={'MVERIF_OUTDIR': recdir, 'PATH': tools.base_env()['PATH']}, timeout=600)
        recs = []
        for fn in sorted(os.listdir(recdir)):
            recs += parse_records(open(os.path.join(recdir, fn), 'rb').read())
        by_id = {}
        for x in recs:
            by_id.setdefault(x['argv'][0] if x['argv'] else '', []).append(x)
        for it in tests:
            stats['tests'] += 1
            rs = by_id.get('id:t%d' % it['id'], [])
            want = ['id:t%d' % it['id']] + it['args']
            info = {'item': it, 'role': 'test', 'got': [x['argv'] for x in rs]}
            if len(rs) != 1 or rs[0]['argv'] != want:
                fails.append(dict(info, kind='argv_differs', want=[want], meson_test_rc=r.returncode, out=(r.stdout + r.stderr)[-600:]))
            elif it.get('env') is not None and rs[0]['env'] != it['env']:
                fails.append(dict(info, kind='env_differs', want=it['env'], got_env=rs[0]['env']))
            elif it.get('workdir') and os.path.realpath(rs[0]['cwd']) != os.path.realpath(src):
                fails.append(dict(info, kind='workdir_differs', want=src, got_cwd=rs[0]['cwd']))
    return fails, stats


# ------------------------------------------------------------------ generators of project specs
def has_nl(s):
    return '\n' in s or '\r' in s


def gen_items(rng, gen_arg, n, nextid, c_ok):
    items = []
    for _ in range(n):
        i = nextid[0]
        nextid[0] += 1
        k = rng.random()
        nl = rng.random() < 0.25            # newline / CR allowed in this item's arguments
        args = [gen_arg(rng, nl) for _ in range(rng.randint(0, 5))]
        tmpl = lambda a: a == '&&' or re.search(r'@[A-Z_0-9]+@', a)      # kept for tests only (no rewrite applies there)
        env = None
        if rng.random() < 0.4:
            env = {}
            for _ in range(rng.randint(1, 2)):
                env[rng.choice(['MV_A', 'MV_B', 'MV_C'])] = gen_arg(rng, rng.random() < 0.15)
        if not (0.62 <= k < 0.85 or (k >= 0.85 and not c_ok)):
            args = [a for a in args if not tmpl(a)]
        if k < 0.34:
            it = {'kind': 'custom_target', 'id': i, 'args': args, 'env': env}
            m = rng.random()
            if m < 0.2:
                it['capture'] = True
            elif m < 0.3:
                it['feed'] = True
            elif m < 0.4 and env is None and not any(has_nl(a) for a in args):
                it['andand'] = True
                it['args'] = args[:2] + ['&&', '@D@'] + args[2:]
            elif m < 0.55:
                it['args'] = args + [rng.choice(['@OUTPUT@', 'x@OUTPUT@y', '@OUTDIR@', '-o@BUILD_ROOT@/@OUTPUT@', '@SOURCE_ROOT@'])]
        elif k < 0.5:
            it = {'kind': 'run_target', 'id': i, 'args': args, 'env': env}
            if rng.random() < 0.15 and env is None and not any(has_nl(a) for a in args):
                it['andand'] = True
                it['args'] = args[:1] + ['&&', '@D@'] + args[1:]
        elif k < 0.62:
            it = {'kind': 'generator', 'id': i, 'args': args, 'env': env, 'capture': rng.random() < 0.3}
        elif k < 0.85 or not c_ok:
            it = {'kind': 'test', 'id': i, 'args': args, 'env': env, 'workdir': rng.random() < 0.2}
        else:
            pre = lambda n_, a: rng.choice(['-DM%d=' % n_, '/DM%d=' % n_, '-m%d' % n_, 'plain%d' % n_, '-DS%d="' % n_]) + a
            ca = [pre(i * 10 + q, gen_arg(rng, False)) for q in range(rng.randint(0, 4))]
            la = [rng.choice(['-Wx%d,' % (i * 10 + q), 'obj%d' % (i * 10 + q), '-m%d=' % (i * 10 + q)]) + gen_arg(rng, False) for q in range(rng.randint(0, 3))]
            # keep clear of CompilerArgs' own rewrites (property C13): library-looking names are grouped/deduplicated
            lib = lambda a: a + '_' if re.search(r'\.(a|lib|dll|dylib|so(\.[0-9]+)*)$', a) else a
            it = {'kind': 'exe', 'id': i, 'c_args': [lib(a) for a in ca], 'link_args': [lib(a) for a in la]}
        items.append(it)
    return items


def item_ident(f):
    it = f.get('item')
    return json.dumps({'kind': f['kind'], 'role': f.get('role'), 'item': it}, sort_keys=True)


NEWLINE_FINDING = 'C03:compile-link-args-newline-unrepresentable'


def run_projects(ctx, tools, specs, bisect=True):
    """Run every project spec; on a failed `meson setup` of a multi-item project re-run the
    items one by one to attribute the failure.  Returns the list of failures (each carrying the
    single-item project that reproduces it)."""
    out = []
    stats = {'projects': 0, 'statements': 0, 'tests': 0, 'setup_failed': 0, 'bisected_items': 0}

    def one(ns):
        n, spec = ns
        root = os.path.join(ctx.mkscratch(), 'p%d-%d' % (os.getpid(), n))
        os.makedirs(root, exist_ok=True)
        try:
            return spec, check_project(ctx, tools, spec, root)
        finally:
            shutil.rmtree(root, ignore_errors=True)
    todo = list(enumerate(specs))
    counter = len(specs)
    while todo:
        nxt = []
        for spec, (fails, st) in pmap(one, todo, workers=max(2, NPROC // 2)):
            stats['projects'] += 1
            for k in ('statements', 'tests', 'setup_failed'):
                stats[k] += st[k]
            for f in fails:
                if f['kind'] == 'setup_failed' and bisect and len(spec['items']) > 1:
                    for it in spec['items']:
                        s1 = dict(spec, items=[it] + [x for x in spec['items'] if x.get('baseline') and x is not it])
                        nxt.append((counter, s1))
                        counter += 1
                        stats['bisected_items'] += 1
                    break
                single = dict(spec, items=([f['item']] if f.get('item') else spec['items']) +
                              [x for x in spec['items'] if x.get('baseline') and x is not f.get('item')])
                out.append(dict(f, project=single))
        todo = nxt
    return out, stats


def shrink(ctx, tools, fails, limit=3, per=16):
    """Try to replace a failing multi-argument item by a single-argument item that still fails
    (one small project per candidate, all candidates of all failures in one parallel batch).
    Purely cosmetic: makes the replay minimal."""
    plan, specs = [], []
    seen_items = set()
    for f in fails:
        it = f.get('item')
        if len(plan) >= limit or not it:
            continue
        key = json.dumps(it, sort_keys=True)
        if key in seen_items:
            continue
        keys = [k for k in ('args', 'c_args', 'link_args') if len(it.get(k) or []) > 0]
        nargs = sum(len(it[k]) for k in keys) + len(it.get('env') or {})
        if nargs <= 1:
            continue
        seen_items.add(key)
        base_id = 9500 + 100 * len(plan)
        cands = []
        for k in keys:
            for a in it[k]:
                if a in ('&&', '@D@'):
                    continue
                c = dict(it, id=base_id + len(cands), env=None, andand=False)
                for k2 in keys:
                    c[k2] = [a] if k2 == k else []
                cands.append(c)
        for kname, v in (it.get('env') or {}).items():
            c = dict(it, id=base_id + len(cands), env={kname: v}, andand=False)
            for k2 in keys:
                c[k2] = []
            cands.append(c)
        cands = cands[:per]
        base = [x for x in f['project']['items'] if x.get('baseline')]
        plan.append((f, base_id, len(cands)))
        specs += [dict(f['project'], items=[c] + base, label='shrink') for c in cands]
    if not specs:
        return
    res, _st = run_projects(ctx, tools, specs, bisect=False)
    for f, base_id, n in plan:
        mine = [r for r in res if (r.get('item') or r['project']['items'][0]).get('id') in range(base_id, base_id + n)
                and not (r.get('item') or {}).get('baseline')]
        if mine:
            g = min(mine, key=lambda r: (r.get('item') or r['project']['items'][0])['id'])
            it = f['item']
            f.update(g)
            if f.get('item') is None:
                f['item'] = g['project']['items'][0]
            f['shrunk_from'] = it


def is_newline_finding(f):
    it = f.get('item') or (f['project']['items'][0] if len(f['project']['items']) == 1 else None)
    return bool(f['kind'] == 'setup_failed' and it and it['kind'] == 'exe' and 'Ninja does not support newlines' in f.get('stdout', '')
                and any(has_nl(a) for a in it.get('c_args', []) + it.get('link_args', [])
                        + f['project'].get('global_args', []) + f['project'].get('project_args', []) + f['project'].get('project_link_args', [])))


def report(ctx, fails, found):
    for f in fails:
        it = f.get('item') or (f['project']['items'][0] if len(f['project']['items']) == 1 else None)
        if is_newline_finding(f):
            ctx.violation(NEWLINE_FINDING, 'a compiler/linker argument containing a newline or carriage return is rejected at configure '
                          'time ("Ninja does not support newlines in rules"): %s' % json.dumps(it)[:300], {'project': f['project'], 'failure': f})
            continue
        ident = 'C03:e2e:' + json.dumps({'kind': f['kind'], 'role': f.get('role'), 'item': it}, sort_keys=True)
        brief = ''
        for wk, gk in (('want_extra', 'got_extra'), ('want_group', 'got_group')):
            if wk in f:
                w, g = list(f[wk]), list(f[gk])
                d = [(a, b) for a, b in zip(w + [None] * len(g), g + [None] * len(w)) if a != b][:3]
                brief = ' [%s %s: specified/received %s]' % (f.get('role'), wk[5:], json.dumps(d))
        found.append(('e2e:%s:%s' % (f['kind'], (it or {}).get('kind')), ident,
                      'end to end: %s%s for %s' % (f['kind'], brief, json.dumps({k: v for k, v in f.items() if k != 'project'}, default=str)[:900]),
                      {'project': f['project'], 'failure': {k: v for k, v in f.items() if k != 'project'}}))


def stream(ctx, tools, thorough, found):
    import check_C03 as CK
    rng = ctx.rng
    nextid = [1]
    specs = []
    # corner-case corpus: one project with every position/wrapping mode and the classic hostile strings
    hostile = ['a b', "it's", '"q"', '$x', '$$', '#', ';', '*', '?', '~', '`id`', '$(id)', 'a\\b', '', ' ', '&', '|', '>', 'é€', 'a:b', '%', '!', '{}', "'", '--', '--capture', '-h']
    corpus_items = [
        {'kind': 'custom_target', 'id': 9001, 'args': hostile, 'env': None},
        {'kind': 'custom_target', 'id': 9002, 'args': hostile, 'env': None, 'capture': True},
        {'kind': 'custom_target', 'id': 9003, 'args': hostile, 'env': None, 'feed': True},
        {'kind': 'custom_target', 'id': 9004, 'args': hostile, 'env': {'MV_A': "a b'c$d", 'MV_B': ''}},
        {'kind': 'custom_target', 'id': 9005, 'args': ['a\nb', 'c d', '&&x'], 'env': {'MV_A': 'v'}},
        {'kind': 'custom_target', 'id': 9006, 'args': ['x y', '&&', '@D@', "z'w", '&&', '@D@'], 'env': None, 'andand': True},
        {'kind': 'custom_target', 'id': 9007, 'args': ['@OUTPUT@', 'p@OUTPUT@q', '@OUTDIR@', '@BUILD_ROOT@', '@SOURCE_ROOT@/x', 'C:\\d\\f'], 'env': None},
        {'kind': 'run_target', 'id': 9008, 'args': hostile, 'env': None},
        {'kind': 'run_target', 'id': 9009, 'args': ['a\nb', '$'], 'env': {'MV_A': 'x y'}},
        {'kind': 'generator', 'id': 9010, 'args': hostile, 'env': None, 'capture': False},
        {'kind': 'generator', 'id': 9011, 'args': ['a b', '\\'], 'env': {'MV_A': '$v'}, 'capture': True},
        {'kind': 'test', 'id': 9012, 'args': hostile + ['a\nb', 'c\rd', '&&'], 'env': {'MV_A': 'l1\nl2', 'MV_B': "q'"}, 'workdir': False},
        {'kind': 'test', 'id': 9013, 'args': ['x y'], 'env': None, 'workdir': True},
        {'kind': 'test', 'id': 9014, 'args': ['dup', 'dup', 'x', '', 'dup', ''], 'env': None, 'workdir': False},
        {'kind': 'custom_target', 'id': 9015, 'args': ['dup', 'dup', 'x', '', 'dup', ''], 'env': None},
    ]
    specs.append({'lang_c': False, 'items': corpus_items, 'label': 'corpus'})
    cargs = ['-DA="a b\\n"', '-DB=$y', '-DC=#', "-DD='q'", '/DE=a\\b', '-mf=a\\b', 'plain\\x', '-DF=a  b', '-DG=;&|<>()', '-DH=é€', '-DI=`id`', '-DJ=*?', '-DK=a:b']
    for rsp in (False, True):
        specs.append({'lang_c': True, 'rsp': rsp, 'label': 'corpus-c' + ('-rsp' if rsp else ''),
                      'global_args': ['-DGL=g l\\o'], 'project_args': ['-DPR=p$r', '-mpr=x y'], 'project_link_args': ['-Wxpl,a b'],
                      'items': [{'kind': 'exe', 'id': 9100, 'baseline': True, 'c_args': [], 'link_args': []},
                                {'kind': 'exe', 'id': 9101, 'c_args': cargs, 'link_args': ['-Wx1,--defsym=a b=1', 'obj$x', "-Wx2,'q'", '-Wx3,a\\b']}]})
    # mixed mode: one short and one padded (long) target share backslash-carrying project/global
    # arguments; written in both orders
    pad_c = ['-DPAD%d=pppppppppppppppppppp' % k for k in range(70)]
    pad_l = ['-Wxpad%d,qqqqqqqqqqqqqqqqqq' % k for k in range(70)]
    base_ = {'kind': 'exe', 'baseline': True, 'c_args': [], 'link_args': []}
    for order in (0, 1):
        short = {'kind': 'exe', 'id': 9110 + order, 'c_args': ['-DS=s\\t'], 'link_args': ['-Wxs,s\\t']}
        long_ = {'kind': 'exe', 'id': 9120 + order, 'c_args': ['-DS=s\\t'] + pad_c, 'link_args': ['-Wxs,s\\t'] + pad_l}
        specs.append({'lang_c': True, 'rsp': 'mixed', 'label': 'corpus-c-mixed',
                      'global_args': ['-DGL=g l\\o'], 'project_args': ['-DPR=p\\r', '-mpr=x\\y'], 'project_link_args': ['-Wxpl,a\\b'],
                      # the baseline executable (no arguments of its own) is a short statement too: it is what the other
                      # two are compared with, and its own project/global arguments are checked as well.  order 0 writes
                      # plain statements first, order 1 the response-file statement first.
                      'items': ([dict(base_, id=9140), short, long_] if order == 0 else [long_, short, dict(base_, id=9141)]) + [
                          # the other command positions next to response-file statements (same rules, same file)
                          {'kind': 'generator', 'id': 9130 + order, 'args': ['a b', "it's", '$x', 'b\\s'], 'env': {'MV_A': "g e'n$"}, 'capture': bool(order)},
                          {'kind': 'run_target', 'id': 9132 + order, 'args': ['r s', '*', '#'], 'env': {'MV_A': 'x y', 'MV_B': '$h'}},
                          {'kind': 'custom_target', 'id': 9134 + order, 'args': ['c t', ';', 'x@BUILD_ROOT@'], 'env': {'MV_A': 'l1\nl2'}, 'capture': not order},
                          {'kind': 'test', 'id': 9136 + order, 'args': ['t a', '', "q'", 'n\nl'], 'env': {'MV_A': 'e v', 'MV_B': 'l1\nl2'}, 'workdir': True},
                          {'kind': 'test', 'id': 9138 + order, 'args': ['&&', '$'], 'env': None, 'workdir': False}]})
    # the defect classes, one item per project so that each is attributed exactly
    probes = [
        {'kind': 'custom_target', 'id': 9201, 'args': ['x'], 'env': {'MV_A': 'l1\nl2'}},
        {'kind': 'custom_target', 'id': 9202, 'args': ['a\rb'], 'env': None},
        {'kind': 'custom_target', 'id': 9203, 'args': ['x'], 'env': {'MV_A': 'l1\rl2'}},
        {'kind': 'run_target', 'id': 9204, 'args': ['x'], 'env': {'MV_A': 'l1\nl2'}},
        {'kind': 'generator', 'id': 9205, 'args': ['a\rb'], 'env': None, 'capture': False},
        {'kind': 'custom_target', 'id': 9206, 'args': ['a\rb', 'c\nd'], 'env': {'MV_A': 'l1\r\nl2'}, 'capture': True},
    ]
    for p in probes:
        specs.append({'lang_c': False, 'items': [p], 'label': 'probe'})
    for key in ('c_args', 'link_args'):
        for ch in ('\n', '\r'):
            specs.append({'lang_c': True, 'label': 'probe-newline-' + key,
                          'items': [{'kind': 'exe', 'id': 9300, 'c_args': [], 'link_args': [], key: ['-DX=a%sb' % ch if key == 'c_args' else '-Wx,a%sb' % ch]}]})
    # random projects
    nfree = 1000 if thorough else 30
    nc = 200 if thorough else 6
    for _ in range(nfree):
        specs.append({'lang_c': False, 'items': gen_items(rng, CK.gen_arg, rng.randint(6, 12), nextid, False), 'label': 'random'})
    for q in range(nc):
        items = [{'kind': 'exe', 'id': nextid[0], 'baseline': True, 'c_args': [], 'link_args': []}]
        nextid[0] += 1
        while len(items) < 6:
            items += [x for x in gen_items(rng, CK.gen_arg, 3, nextid, True) if x['kind'] == 'exe']
        pa = lambda tag: [re.sub(r'\.(a|lib|dll|dylib|so(\.[0-9]+)*)$', '_', tag + CK.gen_arg(rng, False)) for _ in range(rng.randint(0, 2))]
        mode = [False, True, 'mixed'][q % 3]
        fixed = {'global_args': [], 'project_args': [], 'project_link_args': []}
        if mode == 'mixed':
            for it in items[1::2]:
                it['c_args'] = it['c_args'] + pad_c
                it['link_args'] = it['link_args'] + pad_l
            # every mixed project shares backslash-carrying arguments between its plain and its response-file
            # statements of the same rule, and every second one writes a response-file statement first
            fixed = {'global_args': ['-DGLB=g\\b'], 'project_args': ['-mprb=p\\b'], 'project_link_args': ['-Wxplb,l\\b']}
            for it in items[1:]:
                it['c_args'] = ['-DSB%d=s\\b' % it['id']] + it['c_args']
                it['link_args'] = ['-Wxsb%d,s\\b' % it['id']] + it['link_args']
            if (q // 3) % 2 == 1:
                items = items[1:] + items[:1]      # a padded executable first, the baseline last
            # generator / run_target / custom_target / test (env, workdir, capture, feed) in the same project
            items += gen_items(rng, CK.gen_arg, 5, nextid, False)
        specs.append({'lang_c': True, 'rsp': mode, 'label': 'random-c', 'items': items,
                      'global_args': fixed['global_args'] + [('-DGL%d=' % k) + a for k, a in enumerate(pa(''))],
                      'project_args': fixed['project_args'] + [('-mpr%d=' % k) + a for k, a in enumerate(pa(''))],
                      'project_link_args': fixed['project_link_args'] + [('-Wxpl%d,' % k) + a for k, a in enumerate(pa(''))]})
    for sp in specs:      # the harness must never skip the compile/link comparison silently
        if any(it['kind'] == 'exe' for it in sp['items']) and not any(it.get('baseline') for it in sp['items']) \
                and not str(sp.get('label', '')).startswith('probe'):
            raise HarnessError('C03 generator: a project with executables has no baseline executable: %s' % sp.get('label'))
    fails, stats = run_projects(ctx, tools, specs)
    try:
        shrink(ctx, tools, [f for f in fails if not is_newline_finding(f)])
    except Exception as e:      # shrinking is best effort
        ctx.extra['shrink_error'] = repr(e)
    report(ctx, fails, found)
    kinds = {}
    for s in specs:
        for it in s['items']:
            key = it['kind'] + ('+capture' if it.get('capture') else '') + ('+feed' if it.get('feed') else '') + ('+env' if it.get('env') else '') \
                + ('+workdir' if it.get('workdir') else '') + ('+andand' if it.get('andand') else '') + ('+rsp' if s.get('rsp') and it['kind'] == 'exe' else '') \
                + ('+newline' if any(has_nl(a) for a in it.get('args', []) + it.get('c_args', []) + it.get('link_args', []) + list((it.get('env') or {}).values())) else '')
            kinds[key] = kinds.get(key, 0) + 1
            ctx.count(('e2e', json.dumps(it, sort_keys=True)))
    ctx.extra['end_to_end'] = dict(stats, item_kinds=kinds, project_specs=len(specs), failures=len(fails))
    ctx.cov['traces_validated_against_impl'] += stats['statements'] + stats['tests']
    ctx.sample({'e2e_project': specs[0]['items'][3]})
