"""A small reference reader/evaluator for the Ninja manifest subset that meson emits, written
from the Ninja manual (lexing of `$`-escapes, variable scoping file < rule < build, `$in`,
`$out`, build statements with explicit / implicit (|) / order-only (||) dependencies and
implicit outputs).  Used by the C05 reference executor (harness side, trusted; it is
cross-validated against the Coq manifest parser of C04 when that is available)."""
import os, re, shlex


class Build:
    def __init__(self):
        self.outs, self.implicit_outs = [], []
        self.rule = ''
        self.ins, self.implicit, self.order_only, self.validations = [], [], [], []
        self.vars = {}
        self.index = -1

    def all_outs(self):
        return self.outs + self.implicit_outs

    def all_ins(self):
        return self.ins + self.implicit + self.order_only


def _logical_lines(text):
    """Join lines ending in an unescaped `$` (line continuation) with the next one, whose
    leading blanks are skipped."""
    out, cur, cont = [], '', False
    for raw in text.split('\n'):
        piece = raw.lstrip(' ') if cont else raw
        m = re.search(r'\$+$', piece)
        if m and len(m.group(0)) % 2 == 1:
            cur += piece[:-1]
            cont = True
        else:
            out.append(cur + piece)
            cur, cont = '', False
    if cur:
        out.append(cur)
    return out


def expand(s, lookup):
    """Expand $-escapes and variable references of an (unevaluated) value."""
    out, i, n = [], 0, len(s)
    while i < n:
        c = s[i]
        if c != '$':
            out.append(c); i += 1; continue
        i += 1
        if i >= n:
            break
        c = s[i]
        if c in '$ :':
            out.append(c); i += 1
        elif c == '{':
            j = s.index('}', i)
            out.append(lookup(s[i + 1:j])); i = j + 1
        elif c == '\n':
            i += 1
            while i < n and s[i] == ' ':
                i += 1
        else:
            m = re.match(r'[A-Za-z0-9_-]+', s[i:])
            if m:
                out.append(lookup(m.group(0))); i += m.end()
            else:
                out.append('$' + c); i += 1
    return ''.join(out)


def split_paths(s):
    """Split an unevaluated path list at unescaped spaces; '|', '||', ':' are separate items."""
    items, cur, i, n = [], '', 0, len(s)
    while i < n:
        c = s[i]
        if c == '$' and i + 1 < n:
            cur += s[i:i + 2]; i += 2
        elif c == ' ':
            if cur:
                items.append(cur); cur = ''
            i += 1
        elif c == ':':
            if cur:
                items.append(cur); cur = ''
            items.append(':'); i += 1
        elif c == '|':
            if cur:
                items.append(cur); cur = ''
            if s[i:i + 2] == '||':
                items.append('||'); i += 2
            elif s[i:i + 2] == '|@':
                items.append('|@'); i += 2
            else:
                items.append('|'); i += 1
        else:
            cur += c; i += 1
    if cur:
        items.append(cur)
    return items


class Manifest:
    def __init__(self, text):
        self.vars, self.rules, self.builds, self.defaults = {}, {'phony': {}}, [], []
        lines = _logical_lines(text)
        i = 0
        glob = lambda k: self.vars.get(k, '')
        while i < len(lines):
            line = lines[i]
            i += 1
            if not line.strip() or line.lstrip().startswith('#'):
                continue
            if line.startswith('rule '):
                name = line[5:].strip()
                body = {}
                while i < len(lines) and lines[i].startswith(' '):
                    k, v = lines[i].strip().split('=', 1)
                    body[k.strip()] = v.strip() if not v.startswith(' ') else v[1:]
                    i += 1
                self.rules[name] = body
            elif line.startswith('build '):
                b = Build()
                b.index = len(self.builds)
                items = split_paths(line[6:])
                k = items.index(':')
                left, right = items[:k], items[k + 1:]
                tgt = b.outs
                for it in left:
                    if it == '|':
                        tgt = b.implicit_outs
                    else:
                        tgt.append(expand(it, glob))
                b.rule = right[0]
                tgt = b.ins
                for it in right[1:]:
                    if it == '|':
                        tgt = b.implicit
                    elif it == '||':
                        tgt = b.order_only
                    elif it == '|@':
                        tgt = b.validations
                    else:
                        tgt.append(expand(it, glob))
                while i < len(lines) and lines[i].startswith(' '):
                    kv = lines[i].strip()
                    if kv:
                        k2, v = kv.split('=', 1)
                        v = v[1:] if v.startswith(' ') else v
                        b.vars[k2.strip()] = expand(v, lambda name: b.vars.get(name, self.vars.get(name, '')))
                    i += 1
                self.builds.append(b)
            elif line.startswith('default '):
                self.defaults += [expand(x, glob) for x in split_paths(line[8:])]
            elif line.startswith('pool '):
                while i < len(lines) and lines[i].startswith(' '):
                    i += 1
            elif '=' in line:
                k, v = line.split('=', 1)
                v = v[1:] if v.startswith(' ') else v
                self.vars[k.strip()] = expand(v, glob)
        self.producer = {}
        for b in self.builds:
            for o in b.all_outs():
                self.producer[o] = b

    def var(self, b, name):
        """Value of a rule-level variable (command, depfile, rspfile, ...) for build b."""
        rule = self.rules.get(b.rule, {})

        def lookup(k):
            if k == 'in':
                return ' '.join(shell_escape(x) for x in b.ins)
            if k == 'in_newline':
                return '\n'.join(shell_escape(x) for x in b.ins)
            if k == 'out':
                return ' '.join(shell_escape(x) for x in b.outs)
            if k in b.vars:
                return b.vars[k]
            if k in rule and k != name:
                return expand(rule[k], lookup)
            return self.vars.get(k, '')
        if name in b.vars:
            return b.vars[name]
        if name in rule:
            return expand(rule[name], lookup)
        return ''

    def command(self, b):
        return self.var(b, 'command')

    def needed_for(self, targets):
        """Build statements (in declaration order) needed to build the given targets."""
        seen, order = set(), []

        def visit(path):
            b = self.producer.get(path)
            if b is None or b.index in seen:
                return
            seen.add(b.index)
            for x in b.all_ins():
                visit(x)
            order.append(b)
        for t in targets:
            visit(t)
        return sorted(order, key=lambda b: b.index)

    def direct_deps(self, b):
        return sorted({self.producer[x].index for x in b.all_ins() if x in self.producer and self.producer[x] is not b})

    def ancestors(self, b, memo=None):
        memo = {} if memo is None else memo
        if b.index in memo:
            return memo[b.index]
        memo[b.index] = set()   # cycle guard
        acc = set()
        for d in self.direct_deps(b):
            acc.add(d)
            acc |= self.ancestors(self.builds[d], memo)
        memo[b.index] = acc
        return acc


def shell_escape(p):
    """ninja's GetShellEscapedString for $in/$out (POSIX): quote unless only safe characters."""
    if p and re.match(r'^[A-Za-z0-9_+\-./]+$', p):
        return p
    return "'" + p.replace("'", "'\\''") + "'"
