"""C05 — the build graph is dependency-complete: any valid schedule builds the same thing.
Theorems: coq/Props/C05.v (schedule independence for every graph that passes the verified
completeness checker).  This check discharges the theorem's hypothesis per project at run
time: it configures generated projects, executes build.ninja with a reference executor under
strace, feeds the OBSERVED read/write sets to the extracted checker, and validates the step
model by hermetic replay and adversarial schedules."""
import hashlib, json, os, re, shutil, subprocess, sys
from common import *
import ninja_py
import c05_gen

GEN_PY = '''#!/usr/bin/env python3
import sys, os
# usage: gen.py OUT [INPUT...] [--depfile F]
args = sys.argv[1:]
out = args[0]
rest = args[1:]
depfile = None
if '--depfile' in rest:
    k = rest.index('--depfile')
    depfile = rest[k + 1]
    rest = rest[:k] + rest[k + 2:]
also = None
if '--also' in rest:
    k = rest.index('--also')
    also = rest[k + 1]
    rest = rest[:k] + rest[k + 2:]
ins = rest
base = os.path.basename(out)
name = ''.join(ch if ch.isalnum() else '_' for ch in base.split('.')[0])
body = ''
for i in ins:
    if not os.path.exists(i):
        sys.stderr.write('gen.py: missing input %s\\n' % i)
        sys.exit(1)
    body += open(i, 'rb').read().decode('latin-1')
if out.endswith(('.h', '.inc', '.def', '.tbl')):
    open(out, 'w').write('#ifndef H_%s\\n#define H_%s\\n#define VAL_%s %d\\n#endif\\n' % (name, name, name, len(body) % 97))
elif out.endswith('.dat'):
    open(out, 'w').write('table %d\\n' % (len(body) % 83))
else:
    inc = ''.join('#include "%s"\\n' % os.path.basename(i) for i in ins if i.endswith(('.h', '.inc', '.def', '.tbl')))
    open(out, 'w').write(inc + 'int f_%s(void) { return %d; }\\n' % (name, len(body) % 89))
if depfile:
    open(depfile, 'w').write('%s: %s\\n' % (out, ' '.join(ins)))
if also:
    open(also, 'w').write('#define ALSO_%s %d\\n' % (name, len(body) % 7))
'''


def gen_project(rng, idx):
    """A random project mixing generated headers, generators, custom-target chains, link_with /
    link_whole, declare_dependency(sources:), depends:/depend_files:, configure_file, subdirs and a
    built tool used as a generator.  Returns ({relative path: content}, spec) where spec is the
    same project as a list of declarations (the IR of coq/Graph/Gen.v before path resolution):
      ('custom', var, {subdir, outs:[name], inputs, command, depends, depend_files})
      ('build',  var, {subdir, kind, name, srcs:[bsrc], lw:[var], lwh:[var], deps:[dep]})
    with cinput/carg = ('file', rel) | ('target', var) | ('prog',) | ('str',),
    bsrc = ('file', rel) | ('custom', var) | ('gen', {exe, depends:[var], outfmt, items:[rel]}),
    dep = {srcs, lw, lwh, sub}."""
    files = {'gen.py': GEN_PY}
    spec = []
    PROG, STR = ('prog',), ('str',)

    def custom(var, outs, inputs=(), command=(), depends=(), depend_files=()):
        spec.append(('custom', var, {'subdir': '', 'outs': list(outs), 'inputs': list(inputs), 'command': list(command),
                                     'depends': list(depends), 'depend_files': list(depend_files)}))

    def dep_of(var):
        return {'srcs': [('custom', var)], 'lw': [], 'lwh': [], 'sub': []}
    mb = ["project('p%d', 'c')" % idx, "gen = find_program('gen.py')"]
    hdrs, libs, objs_with = [], [], []
    nh = rng.randint(1, 3)
    suf = {h: rng.choice(['.h', '.h', '.h', '.inc', '.def', '.tbl']) for h in range(nh)}
    for h in range(nh):
        extra = ''
        if h and rng.random() < 0.5:
            extra = ", input : hdr%d, depends : hdr%d" % (h - 1, h - 1) if rng.random() < 0.5 else ", depends : hdr%d" % (h - 1)
        hdeps = [('target', 'hdr%d' % (h - 1))] if 'depends' in extra else []
        if 'input' in extra:
            mb.append("hdr%d = custom_target('hdr%d', output : 'gen%d%s'%s, command : [gen, '@OUTPUT@', '@INPUT@'])" % (h, h, h, suf[h], extra))
            custom('hdr%d' % h, ['gen%d%s' % (h, suf[h])], [('target', 'hdr%d' % (h - 1))], [PROG, STR, STR], hdeps)
        else:
            dep_files = ''
            if rng.random() < 0.3:
                files['data%d.txt' % h] = 'data %d\n' % rng.randint(0, 99)
                dep_files = ", depend_files : 'data%d.txt'" % h
                mb.append("hdr%d = custom_target('hdr%d', output : 'gen%d%s'%s%s, command : [gen, '@OUTPUT@', '@CURRENT_SOURCE_DIR@/data%d.txt'])" % (h, h, h, suf[h], extra, dep_files, h))
                custom('hdr%d' % h, ['gen%d%s' % (h, suf[h])], [], [PROG, STR, STR], hdeps, ['data%d.txt' % h])
            else:
                mb.append("hdr%d = custom_target('hdr%d', output : 'gen%d%s'%s, command : [gen, '@OUTPUT@'])" % (h, h, h, suf[h], extra))
                custom('hdr%d' % h, ['gen%d%s' % (h, suf[h])], [], [PROG, STR], hdeps)
        hdrs.append(h)
    if rng.random() < 0.5:
        files['config.h.in'] = '#define CONF @CONF@\n'
        mb.append("cdata = configuration_data()\ncdata.set('CONF', %d)\nconfigure_file(input : 'config.h.in', output : 'config.h', configuration : cdata)" % rng.randint(1, 9))
        conf = True
    else:
        conf = False
    # generated sources through a custom-target chain
    chain = rng.randint(0, 2)
    srcs_gen = []
    for c in range(chain):
        h = rng.choice(hdrs)
        files['tmpl%d.in' % c] = 'tmpl %d\n' % c
        how = rng.choice(['depends', 'input'])
        if how == 'depends':
            mb.append("gsrc%d = custom_target('gsrc%d', input : 'tmpl%d.in', output : 'gsrc%d.c', depends : hdr%d, command : [gen, '@OUTPUT@', '@INPUT@', '@OUTDIR@/gen%d%s'])" % (c, c, c, c, h, h, suf[h]))
            files_inc = None
            custom('gsrc%d' % c, ['gsrc%d.c' % c], [('file', 'tmpl%d.in' % c)], [PROG, STR, STR, STR], [('target', 'hdr%d' % h)])
        else:
            mb.append("gsrc%d = custom_target('gsrc%d', input : ['tmpl%d.in', hdr%d], output : 'gsrc%d.c', command : [gen, '@OUTPUT@', '@INPUT@'])" % (c, c, c, h, c))
            custom('gsrc%d' % c, ['gsrc%d.c' % c], [('file', 'tmpl%d.in' % c), ('target', 'hdr%d' % h)], [PROG, STR, STR])
        srcs_gen.append(c)
    mb.append("g = generator(gen, output : '@BASENAME@.c', arguments : ['@OUTPUT@', '@INPUT@'])")
    gens = {'g': {'exe': PROG, 'depends': [], 'outfmt': '%s.c'},
            'g2': {'exe': PROG, 'depends': ['table'], 'outfmt': '%s_g2.c'},
            'tg': {'exe': ('target', 'tool'), 'depends': [], 'outfmt': '%s_t.c'}}

    def process(gname, rel):
        return ('gen', dict(gens[gname], items=[rel]))

    def build(var, kind, name, srcs, lw=(), lwh=(), deps=(), subdir='', objects=()):
        spec.append(('build', var, {'subdir': subdir, 'kind': kind, 'name': name, 'srcs': list(srcs), 'lw': list(lw), 'lwh': list(lwh),
                                    'deps': list(deps), 'objects': list(objects)}))
    # a generator that needs a generated data file (depends:), optionally with a depfile, and a
    # custom target with a depfile
    g2 = rng.random() < 0.6
    if g2:
        mb.append("table = custom_target('table', output : 'table.dat', command : [gen, '@OUTPUT@'])")
        custom('table', ['table.dat'], [], [PROG, STR])
        df = ", depfile : '@BASENAME@.d'" if rng.random() < 0.6 else ''
        dfa = ", '--depfile', '@DEPFILE@'" if df else ''
        mb.append("g2 = generator(gen, output : '@BASENAME@_g2.c'%s, depends : table, arguments : ['@OUTPUT@', '@INPUT@', '@BUILD_ROOT@/table.dat'%s])" % (df, dfa))
        if rng.random() < 0.5:
            files['ct.in'] = 'ct\n'
            mb.append("ctd = custom_target('ctd', input : 'ct.in', output : 'ctd.c', depfile : 'ctd.d', depends : table, command : [gen, '@OUTPUT@', '@INPUT@', '@OUTDIR@/table.dat', '--depfile', '@DEPFILE@'])")
            custom('ctd', ['ctd.c'], [('file', 'ct.in')], [PROG, STR, STR, STR, STR, STR], [('target', 'table')])
            ctd = True
        else:
            ctd = False
    else:
        ctd = False
    # libraries
    nl = rng.randint(0, 2)
    for l in range(nl):
        h = rng.choice(hdrs)
        files['lib%d.c' % l] = '#include "gen%d%s"\n%sint lib%d(void) { return VAL_gen%d%s; }\n' % (h, suf[h], '#include "config.h"\n' if conf else '', l, h, ' + CONF' if conf else '')
        kind = rng.choice(['static_library', 'static_library', 'shared_library'])
        how = rng.choice(['source', 'dep'])
        if how == 'source':
            mb.append("lib%d = %s('l%d', 'lib%d.c', hdr%d)" % (l, kind, l, l, h))
            spec.append(('build', 'lib%d' % l, {'subdir': '', 'kind': kind, 'name': 'l%d' % l, 'srcs': [('file', 'lib%d.c' % l), ('custom', 'hdr%d' % h)],
                                               'lw': [], 'lwh': [], 'deps': []}))
        else:
            mb.append("lib%d = %s('l%d', 'lib%d.c', dependencies : declare_dependency(sources : hdr%d))" % (l, kind, l, l, h))
            spec.append(('build', 'lib%d' % l, {'subdir': '', 'kind': kind, 'name': 'l%d' % l, 'srcs': [('file', 'lib%d.c' % l)],
                                               'lw': [], 'lwh': [], 'deps': [dep_of('hdr%d' % h)]}))
        libs.append((l, kind))
    # a subdir with an executable
    use_subdir = rng.random() < 0.5
    ne = rng.randint(1, 3)
    for e in range(ne):
        h = rng.choice(hdrs)
        decls, calls = [], []
        src_args = ["'main%d.c'" % e]
        link = []
        ssrcs, sdeps = [], []
        for (l, kind) in libs:
            if rng.random() < 0.6:
                decls.append('int lib%d(void);' % l); calls.append('lib%d()' % l)
                link.append(('link_whole' if kind == 'static_library' and rng.random() < 0.3 else 'link_with', l))
        for c in srcs_gen:
            if rng.random() < 0.5:
                src_args.append('gsrc%d' % c); decls.append('int f_gsrc%d(void);' % c); calls.append('f_gsrc%d()' % c)
                ssrcs.append(('custom', 'gsrc%d' % c))
        in_sub = use_subdir and e == ne - 1
        sd = 'sub/' if in_sub else ''
        ssrcs.insert(0, ('file', sd + 'main%d.c' % e))
        if rng.random() < 0.5:
            files[('sub/' if in_sub else '') + 'x%d.in' % e] = 'x %d\n' % e
            src_args.append("g.process('x%d.in')" % e); decls.append('int f_x%d(void);' % e); calls.append('f_x%d()' % e)
            ssrcs.append(process('g', sd + 'x%d.in' % e))
        if g2 and rng.random() < 0.6:
            files[('sub/' if in_sub else '') + 'y%d.in' % e] = 'y %d\n' % e
            src_args.append("g2.process('y%d.in')" % e); decls.append('int f_y%d_g2(void);' % e); calls.append('f_y%d_g2()' % e)
            ssrcs.append(process('g2', sd + 'y%d.in' % e))
        if ctd and rng.random() < 0.5:
            src_args.append('ctd'); decls.append('int f_ctd(void);'); calls.append('f_ctd()'); ctd = False
            ssrcs.append(('custom', 'ctd'))
        include_h = rng.random() < 0.7
        body = ('#include "gen%d%s"\n' % (h, suf[h]) if include_h else '') + '\n'.join(decls) + '\nint main(void) { return 0%s%s; }\n' % (
            ''.join(' + ' + c for c in calls), (' + VAL_gen%d' % h) if include_h else '')
        kw = ''
        lw = [l for k, l in link if k == 'link_with']
        lwh = [l for k, l in link if k == 'link_whole']
        if lw:
            kw += ', link_with : [%s]' % ', '.join('lib%d' % l for l in lw)
        if lwh:
            kw += ', link_whole : [%s]' % ', '.join('lib%d' % l for l in lwh)
        if include_h:
            if rng.random() < 0.5:
                src_args.append('hdr%d' % h)
                ssrcs.append(('custom', 'hdr%d' % h))
            else:
                kw += ', dependencies : declare_dependency(sources : hdr%d)' % h
                sdeps.append(dep_of('hdr%d' % h))
        spec.append(('build', 'exe%d' % e, {'subdir': 'sub' if in_sub else '', 'kind': 'executable', 'name': 'e%d' % e, 'srcs': ssrcs,
                                           'lw': ['lib%d' % l for l in lw], 'lwh': ['lib%d' % l for l in lwh], 'deps': sdeps}))
        if use_subdir and e == ne - 1:
            files['sub/main%d.c' % e] = body
            files['sub/meson.build'] = "exe%d = executable('e%d', %s%s)\n" % (e, e, ', '.join(src_args), kw)
            mb.append("subdir('sub')")
        else:
            files['main%d.c' % e] = body
            mb.append("exe%d = executable('e%d', %s%s)" % (e, e, ', '.join(src_args), kw))
    # a built tool used to generate a file that another target consumes
    if rng.random() < 0.5:
        files['tool.c'] = '#include <stdio.h>\nint main(int argc, char **argv) { FILE *f = fopen(argv[1], "w"); fprintf(f, "int tooled(void) { return 7; }\\n"); fclose(f); return 0; }\n'
        files['usetool.c'] = 'int tooled(void); int main(void) { return tooled() - 7; }\n'
        mb.append("tool = executable('tool', 'tool.c', native : true)")
        mb.append("tout = custom_target('tout', output : 'tooled.c', command : [tool, '@OUTPUT@'])")
        mb.append("executable('usetool', 'usetool.c', tout)")
        spec.append(('build', 'tool', {'subdir': '', 'kind': 'executable', 'name': 'tool', 'srcs': [('file', 'tool.c')], 'lw': [], 'lwh': [], 'deps': []}))
        custom('tout', ['tooled.c'], [], [('target', 'tool'), STR])
        spec.append(('build', 'usetool', {'subdir': '', 'kind': 'executable', 'name': 'usetool', 'srcs': [('file', 'usetool.c'), ('custom', 'tout')],
                                          'lw': [], 'lwh': [], 'deps': []}))
        if rng.random() < 0.5:
            files['z.in'] = 'z\n'
            files['usegen.c'] = 'int tooled(void); int main(void) { return tooled() - 7; }\n'
            mb.append("tg = generator(tool, output : '@BASENAME@_t.c', arguments : ['@OUTPUT@'])")
            mb.append("executable('usegen', 'usegen.c', tg.process('z.in'))")
            spec.append(('build', 'usegen', {'subdir': '', 'kind': 'executable', 'name': 'usegen', 'srcs': [('file', 'usegen.c'), process('tg', 'z.in')],
                                             'lw': [], 'lwh': [], 'deps': []}))
    # a second group: a custom target with a source and a header output, a generator that makes
    # headers, libraries that link libraries, nested declare_dependency with link_with, a built tool
    # that needs a shared library, a custom target whose input is a built executable
    if rng.random() < 0.7:
        gens['gh'] = {'exe': PROG, 'depends': [], 'outfmt': '%s_p.h'}
        mb.append("xgh = custom_target('xgh', output : ['xg.c', 'xg.h'], command : [gen, '@OUTPUT0@', '--also', '@OUTPUT1@'])")
        custom('xgh', ['xg.c', 'xg.h'], [], [PROG, STR, STR, STR])
        mb.append("gh = generator(gen, output : '@BASENAME@_p.h', arguments : ['@OUTPUT@', '@INPUT@'])")
        files['xa.in'] = 'xa\n'
        files['xa.c'] = '#include "xa_p.h"\nint xa(void) { return VAL_xa_p; }\n'
        ka = rng.choice(['static_library', 'static_library', 'shared_library'])
        mb.append("xa = %s('xa', 'xa.c', gh.process('xa.in'))" % ka)
        build('xa', ka, 'xa', [('file', 'xa.c'), process('gh', 'xa.in')])
        files['xb.c'] = '#include "xa_p.h"\nint xa(void);\nint xb(void) { return xa() + VAL_xa_p; }\n'
        kb = rng.choice(['static_library', 'shared_library'])
        mb.append("xb = %s('xb', 'xb.c', link_with : xa, include_directories : xa.private_dir_include())" % kb)
        build('xb', kb, 'xb', [('file', 'xb.c')], lw=['xa'])
        top = 'xb'
        if rng.random() < 0.5:
            files['xc.c'] = '#include "xa_p.h"\nint xb(void);\nint xc(void) { return xb() + VAL_xa_p; }\n'
            kc = rng.choice(['static_library', 'shared_library'])
            mb.append("xc = %s('xc', 'xc.c', link_with : xb, include_directories : xa.private_dir_include())" % kc)
            build('xc', kc, 'xc', [('file', 'xc.c')], lw=['xb'])
            top = 'xc'
        inner = {'srcs': [('custom', 'xgh')], 'lw': [top], 'lwh': [], 'sub': []}
        nested = rng.random() < 0.6
        mb.append("xdep = declare_dependency(sources : xgh, link_with : %s, include_directories : xa.private_dir_include())" % top)
        if nested:
            mb.append("xdep2 = declare_dependency(dependencies : xdep)")
        files['xe.c'] = '#include "xg.h"\n#include "xa_p.h"\nint f_xg(void);\nint %s(void);\nint main(void) { return f_xg() + %s() + ALSO_xg + VAL_xa_p; }\n' % (top, top)
        mb.append("xe = executable('xe', 'xe.c', dependencies : %s)" % ('xdep2' if nested else 'xdep'))
        build('xe', 'executable', 'xe', [('file', 'xe.c')], deps=[{'srcs': [], 'lw': [], 'lwh': [], 'sub': [inner]} if nested else inner])
        if rng.random() < 0.6:
            files['xs.c'] = 'int xs(void) { return 3; }\n'
            files['xtool.c'] = ('#include <stdio.h>\nint xs(void);\nint main(int argc, char **argv) { FILE *f = fopen(argv[1], "w"); '
                                'fprintf(f, "int xt(void) { return %d; }\\n", xs()); fclose(f); return 0; }\n')
            mb.append("xs = shared_library('xs', 'xs.c')")
            build('xs', 'shared_library', 'xs', [('file', 'xs.c')])
            mb.append("xtool = executable('xtool', 'xtool.c', link_with : xs)")
            build('xtool', 'executable', 'xtool', [('file', 'xtool.c')], lw=['xs'])
            mb.append("xt = custom_target('xt', output : 'xt.c', command : [xtool, '@OUTPUT@'], build_by_default : true)")
            custom('xt', ['xt.c'], [], [('target', 'xtool'), STR])
        if rng.random() < 0.6:
            mb.append("xi = custom_target('xi', input : xe, output : 'xi.dat', command : [gen, '@OUTPUT@', '@INPUT@'], build_by_default : true)")
            custom('xi', ['xi.dat'], [('target', 'xe')], [PROG, STR, STR])
    # a third group: a static library W that is link_whole'd into intermediate static libraries (its
    # objects are bundled into them) AND into the executable / shared library that links those, directly
    # or through declare_dependency(link_whole:); diamonds; objects: extract_all_objects()
    if rng.random() < 0.75:
        files['w.c'] = 'int fw(void) { return 5; }\n'
        mb.append("w = static_library('w', 'w.c')")
        build('w', 'static_library', 'w', [('file', 'w.c')])
        mb.append("w_dep = declare_dependency(link_whole : w)")
        wdep = {'srcs': [], 'lw': [], 'lwh': ['w'], 'sub': []}

        def whole(via_dep):
            return (", dependencies : w_dep", {'deps': [wdep]}) if via_dep else (", link_whole : w", {'lwh': ['w']})
        files['wa.c'] = 'int fw(void);\nint fwa(void) { return fw() + 1; }\n'
        kw1, sp1 = whole(rng.random() < 0.5)
        mb.append("wa = static_library('wa', 'wa.c'%s)" % kw1)
        build('wa', 'static_library', 'wa', [('file', 'wa.c')], **sp1)
        top = 'wa'
        if rng.random() < 0.5:      # diamond: W reaches wa3 through wa and through wa2
            files['wa2.c'] = 'int fw(void);\nint fwa2(void) { return fw() + 2; }\n'
            kw2, sp2 = whole(rng.random() < 0.5)
            mb.append("wa2 = static_library('wa2', 'wa2.c'%s)" % kw2)
            build('wa2', 'static_library', 'wa2', [('file', 'wa2.c')], **sp2)
            files['wa3.c'] = 'int fwa(void);\nint fwa2(void);\nint fwa3(void) { return fwa() + fwa2(); }\n'
            mb.append("wa3 = static_library('wa3', 'wa3.c', link_whole : [wa, wa2])")
            build('wa3', 'static_library', 'wa3', [('file', 'wa3.c')], lwh=['wa', 'wa2'])
            top = 'wa3'
        kwe, spe = whole(rng.random() < 0.5)
        if rng.random() < 0.6:
            files['we.c'] = 'int fw(void);\nint f%s(void);\nint main(void) { return fw() + f%s() == 0; }\n' % (top, top)
            mb.append("we = executable('we', 'we.c', link_with : %s%s)" % (top, kwe))
            build('we', 'executable', 'we', [('file', 'we.c')], lw=[top], **spe)
        else:
            files['we.c'] = 'int fw(void);\nint f%s(void);\nint fwe(void) { return fw() + f%s(); }\n' % (top, top)
            mb.append("we = shared_library('we', 'we.c', link_with : %s%s)" % (top, kwe))
            build('we', 'shared_library', 'we', [('file', 'we.c')], lw=[top], **spe)
        if rng.random() < 0.5:
            files['wo.c'] = 'int fw(void);\nint fwo(void) { return fw() + 3; }\n'
            files['woe.c'] = 'int fwo(void);\nint main(void) { return fwo() == 0; }\n'
            mb.append("wo = static_library('wo', 'wo.c', objects : %s.extract_all_objects(recursive : true))" % top)
            build('wo', 'static_library', 'wo', [('file', 'wo.c')], objects=[top])
            mb.append("woe = executable('woe', 'woe.c', link_with : wo)")
            build('woe', 'executable', 'woe', [('file', 'woe.c')], lw=['wo'])
    files['meson.build'] = '\n'.join(mb) + '\n'
    return files, spec


def digest(path):
    try:
        with open(path, 'rb') as f:
            return hashlib.sha256(f.read()).hexdigest()[:16]
    except OSError:
        return None


OPEN_RE = re.compile(r'^\d+\s+(openat|open|creat|execve)\((.*)$')


def parse_strace(log, cwd):
    """(reads, writes) of absolute, normalised paths from an strace -f log."""
    reads, writes = set(), set()
    for line in open(log, errors='replace'):
        m = re.match(r'^\d+\s+(\w+)\((.*)\)\s+=\s+(-?\d+)', line)
        if not m:
            continue
        call, args, ret = m.group(1), m.group(2), int(m.group(3))
        if ret < 0:
            continue
        pm = re.findall(r'"((?:[^"\\]|\\.)*)"', args)
        if not pm:
            continue
        if call == 'execve':
            p = pm[0]
            reads.add(os.path.normpath(os.path.join(cwd, p)))
            continue
        if call in ('openat', 'open', 'creat'):
            p = pm[0]
            ap = os.path.normpath(os.path.join(cwd, p))
            if call == 'creat' or 'O_WRONLY' in args or 'O_RDWR' in args or 'O_CREAT' in args or 'O_TRUNC' in args:
                writes.add(ap)
                if 'O_RDWR' in args and 'O_TRUNC' not in args and 'O_CREAT' not in args:
                    reads.add(ap)
            else:
                if 'O_DIRECTORY' not in args:
                    reads.add(ap)
        elif call in ('rename', 'renameat', 'renameat2'):
            if len(pm) >= 2:
                writes.add(os.path.normpath(os.path.join(cwd, pm[-1])))
    return reads, writes


class Project:
    def __init__(self, ctx, rng, idx, root):
        self.idx = idx
        self.root = root
        self.src = os.path.join(root, 'src')
        self.b = os.path.join(root, 'b')
        self.files, self.spec = gen_project(rng, idx)
        for rel, content in self.files.items():
            p = os.path.join(self.src, rel)
            os.makedirs(os.path.dirname(p), exist_ok=True)
            open(p, 'w').write(content)
        os.chmod(os.path.join(self.src, 'gen.py'), 0o755)

    def setup(self):
        r = meson_cli(['setup', self.b, self.src], timeout=300)
        self.setup_rc = r.returncode
        self.setup_out = (r.stdout + r.stderr)[-1500:]
        if r.returncode != 0:
            return False
        shutil.copytree(self.b, os.path.join(self.root, 'pristine'), symlinks=True)
        self.manifest = ninja_py.Manifest(open(os.path.join(self.b, 'build.ninja')).read())
        self.steps = [b for b in self.manifest.needed_for(['all']) if b.rule != 'phony']
        return True

    def restore(self):
        shutil.rmtree(self.b, ignore_errors=True)
        shutil.copytree(os.path.join(self.root, 'pristine'), self.b, symlinks=True)

    def run_step(self, b, trace=None):
        cmd = self.manifest.command(b)
        rsp = self.manifest.var(b, 'rspfile')
        if rsp:
            open(os.path.join(self.b, rsp), 'w').write(self.manifest.var(b, 'rspfile_content'))
        for o in b.all_outs():
            os.makedirs(os.path.dirname(os.path.join(self.b, o)) or self.b, exist_ok=True)
        argv = ['/bin/sh', '-c', cmd]
        if trace:
            argv = ['strace', '-f', '-qq', '-o', trace, '-e', 'trace=openat,open,creat,execve,rename,renameat,renameat2'] + argv
        for attempt in range(40):
            r = subprocess.run(argv, cwd=self.b, capture_output=True, text=True, timeout=300, env=impl_env())
            # ETXTBSY: a built tool that this process has just copied into place can still be open for
            # writing in a child forked by another worker thread (until that child execs); the command
            # did not start, so trying again is safe
            if r.returncode != 0 and 'Text file busy' in r.stderr:
                import time
                time.sleep(0.05)
                continue
            break
        return r.returncode, (r.stdout + r.stderr)[-800:]

    def outputs(self, b):
        return {o: digest(os.path.join(self.b, o)) for o in b.all_outs()}


def topo_orders(rng, proj):
    """Adversarial topological orders of the needed steps (lists of build indices)."""
    m = proj.manifest
    steps = proj.steps
    deps = {b.index: set(d for d in m.direct_deps(b) if m.builds[d].rule != 'phony' or True) for b in steps}
    # phony edges: expand through phony nodes
    needed = {b.index for b in steps}

    def real_deps(i, seen=None):
        seen = seen or set()
        out = set()
        for d in m.direct_deps(m.builds[i]):
            if d in seen:
                continue
            seen.add(d)
            if d in needed:
                out.add(d)
            else:
                out |= real_deps(d, seen)
        return out
    rd = {i: real_deps(i) for i in needed}
    depth = {}

    def dep_depth(i):
        if i not in depth:
            depth[i] = 1 + max([dep_depth(d) for d in rd[i]] or [0])
        return depth[i]
    for i in needed:
        dep_depth(i)

    def order(key):
        done, out = set(), []
        remaining = set(needed)
        while remaining:
            ready = [i for i in remaining if rd[i] <= done]
            i = min(ready, key=key)
            out.append(i); done.add(i); remaining.discard(i)
        return out
    orders = {
        'reverse-declaration': order(lambda i: -i),
        'deepest-last': order(lambda i: (depth[i], -i)),
        'random': order(lambda i: rng.random()),
    }
    return orders, rd


def check_project(args):
    ctx_seed, idx, root, thorough = args
    import random
    rng = random.Random(ctx_seed * 100003 + idx)
    res = {'idx': idx, 'ok': False, 'findings': [], 'stats': {}, 'root': root}
    proj = Project(None, rng, idx, root)
    res['files'] = proj.files
    if not proj.setup():
        res['setup_failed'] = proj.setup_out
        return res
    m = proj.manifest
    steps = proj.steps
    res['stats']['steps'] = len(steps)
    memo = {}
    # ---- the project as IR for the model of meson's edge logic (coq/Graph/Gen.v), and the real
    # statements it is compared with (before anything is executed)
    R = c05_gen.Resolver(proj.src, proj.b)
    res['gen_case'] = ['gen', [c05_gen.encode(proj.spec, R)]]
    res['gen_names'] = dict(R.name)
    res['real_stmts'] = c05_gen.real_statements(m, proj.b)
    res['observed_reads'] = {}
    # ---- reference execution under strace (declaration order is topological for meson's output?
    # do not assume: use a topological order by declaration index)
    orders, rd = topo_orders(rng, proj)
    ref_order = sorted(rd, key=lambda i: (0, i))
    # make it topological
    done, ref = set(), []
    rem = set(rd)
    while rem:
        i = min(j for j in rem if rd[j] <= done)
        ref.append(i); done.add(i); rem.discard(i)
    observed = {}
    ref_out = {}
    for i in ref:
        b = m.builds[i]
        tr = os.path.join(root, 'trace-%d' % i)
        rc, out = proj.run_step(b, trace=tr)
        if rc != 0:
            res['findings'].append({'kind': 'step-failed-in-reference-order', 'step': b.outs, 'cmd': m.command(b)[:300], 'output': out})
            return res
        reads, writes = parse_strace(tr, proj.b)
        os.remove(tr)
        observed[i] = (reads, writes)
        res['observed_reads'][os.path.normpath(os.path.join(proj.b, b.all_outs()[0]))] = set(reads)
        ref_out.update(proj.outputs(b))
    shutil.copytree(proj.b, os.path.join(root, 'ref'), symlinks=True)
    # ---- encode the observed graph for the verified checker
    bdir = proj.b
    produced = {}
    for i in ref:
        for o in m.builds[i].all_outs():
            produced[os.path.normpath(os.path.join(bdir, o))] = i
    pid = {}

    def P(p):
        if p not in pid:
            pid[p] = len(pid) + 1
        return pid[p]
    relevant = lambda p: p.startswith(root + os.sep)
    sources = set()
    enc_steps = []
    for i in ref:
        b = m.builds[i]
        reads, writes = observed[i]
        outs = [os.path.normpath(os.path.join(bdir, o)) for o in b.all_outs()]
        # depfiles and the like written by the step itself are its own by-products
        rr = sorted(p for p in reads if relevant(p) and p not in writes and os.path.isfile(p) or p in produced and p not in outs)
        rr = [p for p in rr if p not in outs]
        for p in rr:
            if p not in produced:
                sources.add(p)
        anc = set()
        for d in m.ancestors(b, memo):
            if d in rd:
                anc.add(d)
        enc_steps.append((i, rr, outs, sorted(anc)))
    gs = '|'.join('%d;%s;%s;%s' % (i, ','.join(str(P(p)) for p in rr), ','.join(str(P(p)) for p in outs), ','.join(str(a) for a in anc))
                  for i, rr, outs, anc in enc_steps)
    srcs = ','.join(str(P(p)) for p in sorted(sources))
    res['wf_case'] = ['wf', [gs, srcs]]
    # the harness-side reader's view of the manifest, for cross-validation against the Coq reader of C04
    res['ninja_text'] = open(os.path.join(root, 'pristine', 'build.ninja'), encoding='utf-8').read()
    res['ninja_py_view'] = [[b.outs, b.implicit_outs, b.rule, b.ins, b.implicit, b.order_only] for b in m.builds]
    res['ninja_py_cmds'] = {m.builds[i].outs[0]: m.command(m.builds[i]) for i in ref}
    res['paths'] = {v: k for k, v in pid.items()}
    res['enc_steps'] = [(i, rr, outs, anc) for i, rr, outs, anc in enc_steps]
    res['orders'] = {}
    # direct (harness-side) version of the same judgement, for the replay text
    for i, rr, outs, anc in enc_steps:
        anc_outs = set()
        for a in anc:
            anc_outs |= {os.path.normpath(os.path.join(bdir, o)) for o in m.builds[a].all_outs()}
        for p in rr:
            if p in produced and p not in anc_outs:
                res['findings'].append({'kind': 'undeclared-generated-input', 'step': m.builds[i].outs,
                                        'reads': os.path.relpath(p, bdir), 'produced_by': m.builds[produced[p]].outs,
                                        'declared_ancestors': [m.builds[a].outs for a in anc]})
    # ---- adversarial schedules: same outputs, no failures
    for name, order in orders.items():
        proj.restore()
        bad = None
        for i in order:
            rc, out = proj.run_step(m.builds[i])
            if rc != 0:
                bad = {'kind': 'step-fails-under-schedule', 'schedule': name, 'order': [m.builds[j].outs for j in order],
                       'step': m.builds[i].outs, 'output': out}
                break
        if bad:
            res['findings'].append(bad)
            continue
        diffs = []
        for i in order:
            for o, d in proj.outputs(m.builds[i]).items():
                if d != ref_out.get(o):
                    diffs.append(o)
        if diffs:
            res['findings'].append({'kind': 'different-artifacts-under-schedule', 'schedule': name, 'differs': diffs[:10]})
        res['orders'][name] = ['topo', ['|'.join('%d;;;%s' % (i, ','.join(str(a) for a in sorted(x for x in m.ancestors(m.builds[i], memo) if x in rd))) for i in order), '']]
    # ---- hermetic replay of each step: pristine tree + outputs of declared ancestors only
    nrep = 0
    for i in ref:
        b = m.builds[i]
        if not thorough and rng.random() < 0.5 and len(ref) > 8:
            continue
        proj.restore()
        for a in m.ancestors(b, memo):
            if a in rd:
                for o in m.builds[a].all_outs():
                    s = os.path.join(root, 'ref', o)
                    d = os.path.join(proj.b, o)
                    if os.path.exists(s):
                        os.makedirs(os.path.dirname(d), exist_ok=True)
                        shutil.copy2(s, d)
        rc, out = proj.run_step(b)
        nrep += 1
        if rc != 0:
            res['findings'].append({'kind': 'hermetic-replay-failed', 'step': b.outs, 'cmd': m.command(b)[:300], 'output': out})
            continue
        for o, d in proj.outputs(b).items():
            if d != ref_out.get(o):
                res['findings'].append({'kind': 'hermetic-replay-differs', 'step': b.outs, 'output_file': o})
    res['stats']['hermetic_replays'] = nrep
    res['ok'] = True
    shutil.rmtree(os.path.join(root, 'ref'), ignore_errors=True)
    shutil.rmtree(os.path.join(root, 'pristine'), ignore_errors=True)
    shutil.rmtree(proj.b, ignore_errors=True)
    return res


def cross_validate_reader(ctx, results):
    """harness/ninja_py.py (which the executor relies on) against the Coq manifest reader of C04
    (coq/Graph/Manifest.v, extracted): statements and expanded commands must agree."""
    r = subprocess.run(['timeout', '900', 'make', '-C', COQ, '-j%d' % NPROC, 'Graph/Extract.vo'], capture_output=True, text=True)
    if r.returncode != 0:
        ctx.extra['reader_cross_validation'] = 'skipped: Graph/Extract.vo does not build'
        return
    c4 = Ctx('C05')
    c4.build_driver('C04')
    S1, S2, S3, S4 = '\x01', '\x02', '\x03', '\x04'
    norm = lambda p: os.path.normpath(p) if p else p
    nst = ncmd = 0
    for res in results:
        if 'ninja_text' not in res:
            continue
        text = res['ninja_text']
        out = c4.run_model([('parse', [text])])[0]
        if out.startswith('ERR:'):
            raise HarnessError('Coq manifest reader rejects a build.ninja that meson wrote (project %d): %s' % (res['idx'], out[:200]))
        sections = out.split(S4)
        stmts = [x.split(S1) for x in sections[1].split(S3)] if len(sections) > 1 and sections[1] else []
        lst = lambda x: [norm(y) for y in x.split(S2) if y]
        coq_view = [[lst(f[0]), lst(f[1]), f[2], lst(f[3]), lst(f[4]), lst(f[5])] for f in stmts]
        py_view = [[[norm(y) for y in o], [norm(y) for y in io], rule, [norm(y) for y in i], [norm(y) for y in im], [norm(y) for y in oo]]
                   for o, io, rule, i, im, oo in res['ninja_py_view']]
        if coq_view != py_view:
            k = next((j for j in range(min(len(coq_view), len(py_view))) if coq_view[j] != py_view[j]), min(len(coq_view), len(py_view)))
            raise HarnessError('ninja_py.py and the Coq manifest reader disagree on project %d, statement %d: %r vs %r'
                               % (res['idx'], k, py_view[k:k + 1], coq_view[k:k + 1]))
        nst += len(coq_view)
        outs = list(res['ninja_py_cmds'])
        cmds = c4.run_model([('command', [text, o]) for o in outs])
        for o, c in zip(outs, cmds):
            if c != res['ninja_py_cmds'][o]:
                raise HarnessError('ninja_py.py and the Coq manifest reader expand the command of %r differently (project %d): %r vs %r'
                                   % (o, res['idx'], res['ninja_py_cmds'][o][:200], c[:200]))
            ncmd += 1
    ctx.extra['reader_cross_validation'] = {'statements_compared': nst, 'commands_compared': ncmd}


def compare_with_model(ctx, results):
    """Per project: the model's statements (entry `gen` of the extracted Graph/SchedEntry.run on the
    project IR) against the statements of the real build.ninja — outputs, explicit, implicit and
    order-only inputs, and declared ancestors, as sets of normalised paths — and the observed
    reads of generated files against the model's ASSUMED reads."""
    todo = [r for r in results if 'gen_case' in r]
    cases = [tuple(r['gen_case']) for r in todo]
    if not cases:
        return [], []
    outs = ctx.run_model(cases)
    nstmt = nreads = 0
    from collections import Counter
    clauses = Counter()
    for res, ans in zip(todo, outs):
        class N:
            name = res['gen_names']
        if ans.startswith('ERR') or ans == '?':
            raise HarnessError('the model rejects the IR of project %d: %s' % (res['idx'], ans))
        flags, model = c05_gen.parse_model(ans, N)
        if flags[0] != 'T' or flags[1] != 'T':
            raise HarnessError('project %d: the IR is not valid / not in the modelled fragment (valid=%s fragment=%s): harness path '
                               'resolution or generator outside the fragment' % (res['idx'], flags[0], flags[1]))
        if flags[2] != 'T':
            raise HarnessError('project %d: the extracted checker rejects the model\'s own graph although the project is valid '
                               '(contradicts graph_of_well_formed)' % res['idx'])
        produced = set()
        for key in res['real_stmts']:
            produced |= set(key)
        n, bad = c05_gen.compare(res['real_stmts'], model, res['observed_reads'], produced)
        clauses.update(c05_gen.classify_reads(res['real_stmts'], res['observed_reads'], produced))
        nstmt += n
        nreads += len(res['observed_reads'])
        ctx.cov['evaluations'] += n
        for b in bad:
            b['project'] = res['idx']
            b['seed'] = ctx.seed
            b['meson.build'] = res['files'].get('meson.build', '')
            ctx.disagreements.append(json.loads(json.dumps(b, default=str).replace(res.get('root', '\0'), '')))
    # which clauses of the read assumption were really exercised (a read that no generated source performs
    # would leave a missing edge invisible to the executor)
    ctx.extra['read_assumption_coverage'] = {k: clauses.get(k, 0) for k in c05_gen.READ_CLAUSES}
    ctx.extra['read_assumption_coverage'].update({k: v for k, v in clauses.items() if k not in c05_gen.READ_CLAUSES})
    ctx.extra['read_assumption_clauses_never_observed'] = [k for k in c05_gen.READ_CLAUSES if not clauses.get(k)]
    print('C05 read-assumption clauses observed by strace: %d of %d; never observed: %s'
          % (sum(1 for k in c05_gen.READ_CLAUSES if clauses.get(k)), len(c05_gen.READ_CLAUSES),
             ctx.extra['read_assumption_clauses_never_observed'] or 'none'))
    ctx.extra['model_correspondence'] = {
        'projects': len(todo), 'statements_compared': nstmt, 'steps_with_observed_reads_checked': nreads,
        'compared': 'per statement: outputs, explicit / implicit / order-only inputs and declared ancestors as sets of normalised paths',
        'ignored_statements': c05_gen.ignored.__doc__}
    return cases, outs


def replay(ctx):
    rec = json.load(open(ctx.replay))
    if 'replay' in rec:
        todo = [(rec['replay']['seed'], rec['replay']['idx'])]
    else:   # a correspondence replay: the projects on which model and build.ninja disagreed
        todo = sorted({(d['seed'], d['project']) for d in rec.get('correspondence_disagreements', []) if 'seed' in d})[:3]
    ctx.build('Props/C05.v', 'Graph/SchedExtract.v', 'C05')
    for k, (seed, idx) in enumerate(todo):
        root = os.path.join(ctx.mkscratch(), 'replay%d' % k)
        os.makedirs(root)
        res = check_project((seed, idx, root, True))
        ctx.seed = seed
        ctx.disagreements = []
        compare_with_model(ctx, [res])
        for d in ctx.disagreements:
            d.pop('meson.build', None)
        print(json.dumps({'seed': seed, 'project': idx, 'findings': res['findings'], 'stats': res['stats'],
                          'model_vs_build_ninja': ctx.disagreements}, indent=1))
    ctx.cleanup()
    return 0


def run(ctx):
    if ctx.replay:
        return replay(ctx)
    thorough = ctx.tier == 'thorough'
    built = ctx.build('Props/C05.v', 'Graph/SchedExtract.v', 'C05')
    n = 300 if thorough else 12
    base = ctx.mkscratch()
    jobs = []
    for idx in range(n):
        root = os.path.join(base, 'p%d' % idx)
        os.makedirs(root)
        jobs.append((ctx.seed, idx, root, thorough))
    results = pmap(check_project, jobs, workers=NPROC)
    cases, owners = [], []
    kinds = {}
    nsteps = 0
    for res in results:
        if res.get('setup_failed'):
            ctx.extra.setdefault('setup_failed', []).append({'idx': res['idx'], 'output': res['setup_failed'][-400:]})
            continue
        nsteps += res['stats'].get('steps', 0)
        if 'wf_case' in res:
            cases.append(tuple(res['wf_case'])); owners.append((res['idx'], 'wf'))
            for name, c in res['orders'].items():
                cases.append(tuple(c)); owners.append((res['idx'], 'topo:' + name))
        for f in res['findings']:
            kinds[f['kind']] = kinds.get(f['kind'], 0) + 1
            ident = 'C05:%s:%s' % (f['kind'], json.dumps(f.get('step')))
            ctx.violation(ident + ':seed%d:p%d' % (ctx.seed, res['idx']),
                          'project %d: %s' % (res['idx'], json.dumps(f)[:600]),
                          {'seed': ctx.seed, 'idx': res['idx'], 'finding': f, 'files': res['files']})
        ctx.count(('proj', res['idx']), nontrivial=res['stats'].get('steps', 0) > 3)
    if len(ctx.extra.get('setup_failed', [])) > n // 3:
        raise HarnessError('too many generated projects fail to configure: %s' % ctx.extra['setup_failed'][:2])
    if built:
        outs = ctx.run_model(cases)
        for (idx, what), (fn, args), o in zip(owners, cases, outs):
            ctx.cov['evaluations'] += 1
            if what == 'wf':
                ok = o.startswith('T')
                res = [r for r in results if r['idx'] == idx][0]
                harness_bad = any(f['kind'] == 'undeclared-generated-input' for f in res['findings'])
                if not ok and not harness_bad:
                    # verified checker rejects what the harness-side judgement accepted: report with its diagnosis
                    diag = o.split(':')
                    ctx.violation('C05:checker-rejects:seed%d:p%d' % (ctx.seed, idx),
                                  'project %d: the verified completeness checker rejects the observed graph (condition %s, step:paths %s)'
                                  % (idx, diag[1] if len(diag) > 1 else '?', diag[2] if len(diag) > 2 else ''),
                                  {'seed': ctx.seed, 'idx': idx, 'checker': o, 'files': res['files'],
                                   'paths': {k: v for k, v in list(res['paths'].items())[:200]}})
                if ok and harness_bad:
                    ctx.disagreements.append({'project': idx, 'checker': o, 'harness': 'undeclared-generated-input'})
            else:
                if o != 'T':
                    raise HarnessError('harness produced a non-topological adversarial order for project %d (%s)' % (idx, what))
        gcases, gouts = compare_with_model(ctx, results)
        kc = [(c, o) for c, o in zip(cases + gcases, outs + gouts) if len(c[1][0]) < 3000]
        ctx.kernel_crosscheck('Graph.SchedEntry', [c for c, o in kc], [o for c, o in kc], limit=60)
    cross_validate_reader(ctx, results)
    ctx.cov['traces_validated_against_impl'] = len(cases)
    ctx.extra['projects'] = len(results)
    ctx.extra['build_steps_executed_under_strace'] = nsteps
    ctx.extra['finding_kinds'] = kinds
    for res in results[:2]:
        ctx.sample({'project': res['idx'], 'meson.build': res['files'].get('meson.build', '')[:1500], 'stats': res['stats']})
    return ctx.finish(
        level='proof',
        trusted=['Coq 8.16.1 kernel (coqc, vm_compute)', 'extraction (ExtrOcamlBasic only) + OCaml + shared driver, cross-checked in-kernel',
                 'the READ ASSUMPTION of coq/Graph/Gen.v (which generated files a custom command, generator rule, compilation, link, archiver and '
                 'symbol extractor may open) — validated per run: the strace-observed reads of generated files of every executed step are within it',
                 'the transcription of meson\'s edge logic in coq/Graph/Gen.v (file:line comments) — validated per run: every non-bookkeeping '
                 'statement of every generated project\'s build.ninja has the model\'s explicit, implicit and order-only inputs and declared ancestors; '
                 'harness/c05_gen.py resolves the file names the IR carries (naming is not modelled)',
                 'harness: project generator, harness/ninja_py.py (Ninja manifest reader/evaluator written from the manual), reference executor, '
                 'strace-based observation of per-step reads/writes (open/openat/creat/execve/rename), path encoding',
                 'step model of the theorem: a step\'s outputs are a function of the contents of the files it opens (validated per step by hermetic '
                 'replay and by three adversarial schedules with digest comparison); compilers assumed deterministic'],
        assumptions=['Print Assumptions: C05 theorems closed under the global context',
                     'C05_generated_graph_*: for every project of the IR of Graph/Gen.v whose produced files have distinct names (valid_project), under '
                     'the read assumption; projects outside the modelled fragment (other languages, install, extract_objects of selected sources, '
                     'custom-target indexes, generated lists as custom-target inputs, run targets) are only explored',
                     'the universal claim over projects is explored by the generator; the quantifier over schedules is discharged by the theorem for '
                     'every project whose observed graph passes the verified checker'],
        rule='generated C projects (generated headers, generators, custom-target chains, link_with/link_whole, declare_dependency(sources:), '
             'depends/depend_files, configure_file, subdirs, built tools; multi-output custom targets, generator-made headers reaching the '
             'targets that link a library, library chains, nested declare_dependency with link_with, tools that need a shared library, a built '
             'executable as custom-target input) are configured with the Ninja backend; the project IR is given to the extracted model of meson\'s '
             'edge logic and its statements are compared with build.ninja; every build statement needed for '
             '`all` is executed under strace in a reference order; the observed graph is judged by the extracted well_formed checker; each step is '
             'replayed hermetically and three adversarial topological orders are executed with digest comparison; a project is non-trivial when it '
             'has more than 3 build steps')
