(* Shared driver for every extracted model (trusted, hand-written).
   Input : one case per line:  fn TAB arg TAB arg ...   where fn is ASCII and each
           arg is a comma-separated list of decimal code points (empty = "").
   Output: one line per case: comma-separated decimal code points of the string
           returned by Model.run.
   The model's numbers stay the extracted inductive types; this file only
   converts small OCaml ints (code points) to and from them. *)

let rec pos_of_int (i : int) : Model.positive =
  if i = 1 then Model.XH
  else if i land 1 = 0 then Model.XO (pos_of_int (i lsr 1))
  else Model.XI (pos_of_int (i lsr 1))
let n_of_int (i : int) : Model.n = if i = 0 then Model.N0 else Model.Npos (pos_of_int i)
let rec int_of_pos (p : Model.positive) : int =
  match p with Model.XH -> 1 | Model.XO q -> 2 * int_of_pos q | Model.XI q -> 2 * int_of_pos q + 1
let int_of_n (x : Model.n) : int = match x with Model.N0 -> 0 | Model.Npos p -> int_of_pos p

let parse_arg (s : string) : Model.n list =
  if s = "" then []
  else List.map (fun t -> n_of_int (int_of_string t)) (String.split_on_char ',' s)
let ascii (s : string) : Model.n list =
  List.init (String.length s) (fun i -> n_of_int (Char.code s.[i]))

let () =
  let buf = Buffer.create 256 in
  (try
    while true do
      let line = input_line stdin in
      (match String.split_on_char '\t' line with
       | [] -> print_newline ()
       | fn :: args ->
         let r = Model.run (ascii fn) (List.map parse_arg args) in
         Buffer.clear buf;
         List.iteri (fun i c ->
           if i > 0 then Buffer.add_char buf ',';
           Buffer.add_string buf (string_of_int (int_of_n c))) r;
         print_string (Buffer.contents buf); print_newline ())
    done
  with End_of_file -> ())
