(* Subst/Spec.v — what the property says, as a semantics of templates that are BUILT
   from segments (so that what every piece must turn into is known by construction).
   Nothing here mentions the scanners of Meson.v / CMake.v. *)
From MV Require Import Base.Strs Subst.Data.
Open Scope N_scope.

Definition name_char (c : char) : bool := is_alnum c || (c =? 45) || (c =? 95).
Definition is_name (v : str) : bool := nonempty v && forallb name_char v.
Definition plain_char (c : char) : bool := negb (c =? 64) && negb (c =? 92).   (* not '@', not '\' *)

(* ---------------------------------------------------------------- meson format *)
Inductive seg :=
| Lit (s : str)            (* text without '@' and '\'                       -> itself          *)
| Var (v : str)            (* @v@                                           -> the value of v  *)
| Esc (k : nat) (v : str)  (* 2k+1 backslashes, @v\@                        -> k backslashes, @v@ *)
| BsAt (n : nat)           (* n >= 1 backslashes and an '@'                 -> ceil(n/2) backslashes, '@' *)
| Bs (n : nat)             (* n >= 1 backslashes not followed by '@'        -> themselves      *)
| At.                      (* an '@' that opens no placeholder              -> itself          *)

Definition render (g : seg) : str :=
  match g with
  | Lit s => s
  | Var v => 64 :: v ++ [64]
  | Esc k v => repeat 92 (2 * k + 1) ++ 64 :: v ++ [92; 64]
  | BsAt n => repeat 92 n ++ [64]
  | Bs n => repeat 92 n
  | At => [64]
  end.
Definition render_all (l : list seg) : str := concat (map render l).

(* name+ followed by the given closing text? *)
Definition starts_name_then (close : str) (t : str) : bool :=
  let '(v, r) := span name_char t in nonempty v && prefixb close r.

(* The borders: a segment list is well formed when no placeholder arises by accident
   where two segments meet.  (Every text is the rendering of a well-formed list:
   Proofs.segments_complete.) *)
Fixpoint wf_segs (l : list seg) : bool :=
  match l with
  | [] => true
  | g :: r =>
      let rest := render_all r in
      (match g with
       | Lit s => forallb plain_char s
       | Var v => is_name v
       | Esc _ v => is_name v
       | BsAt n => negb (Nat.eqb n 0) && (Nat.even n || negb (starts_name_then [92; 64] rest))
       | Bs n => negb (Nat.eqb n 0) && negb (hd_is 64 rest) && negb (hd_is 92 rest)
       | At => negb (starts_name_then [64] rest)
       end) && wf_segs r
  end.

(* rendering of a value where a variable is used in running text: a string as it is,
   an integer in decimal, a boolean as Python prints it *)
Definition expand (d : conf) (g : seg) : str :=
  match g with
  | Lit s => s
  | Var v => match lookup d v with Some val => py_str val | None => [] end
  | Esc k v => repeat 92 k ++ 64 :: v ++ [64]
  | BsAt n => repeat 92 (Nat.div2 n + (if Nat.even n then 0 else 1)) ++ [64]
  | Bs n => repeat 92 n
  | At => [64]
  end.
Definition expand_all (d : conf) (l : list seg) : str := concat (map (expand d) l).

(* the undefined names, in order of occurrence *)
Definition missing (d : conf) (l : list seg) : list str :=
  concat (map (fun g => match g with
                        | Var v => match lookup d v with Some _ => [] | None => [v] end
                        | _ => []
                        end) l).

(* ---------------------------------------------------------------- cmake formats *)
Definition cm_name_char (c : char) : bool :=
  is_alnum c || (c =? 95) || (c =? 47) || (c =? 46) || (c =? 43) || (c =? 45).

Definition cstr (v : value) : str :=
  match v with
  | VStr s => s
  | VBool b => if b then [49] else [48]
  | VInt z => Z_dec z
  end.
(* the value of a variable and the report when it is undefined *)
Definition lookup_out (d : conf) (name : str) : str * list str :=
  match lookup d name with Some val => (cstr val, []) | None => ([], [name]) end.

(* what may stand between "${" and "}": name characters, nested ${...} and @v@ *)
Inductive nexpr :=
| NEnd
| NChars (s : str) (r : nexpr)
| NBrace (i : nexpr) (r : nexpr)
| NAt (v : str) (r : nexpr).

Fixpoint nrender (e : nexpr) : str :=
  match e with
  | NEnd => []
  | NChars s r => s ++ nrender r
  | NBrace i r => 36 :: 123 :: nrender i ++ 125 :: nrender r
  | NAt v r => 64 :: v ++ 64 :: nrender r
  end.
Fixpoint wf_nexpr (e : nexpr) : bool :=
  match e with
  | NEnd => true
  | NChars s r => forallb cm_name_char s && wf_nexpr r
  | NBrace i r => wf_nexpr i && wf_nexpr r
  | NAt v r => nonempty v && forallb cm_name_char v && wf_nexpr r
  end.
(* the text an expression stands for, inside out: a nested ${...} is replaced by the value of the
   variable whose NAME is the text its inside stands for.  None: that name is not a variable name
   (the implementation raises a MesonException) *)
Fixpoint neval (d : conf) (e : nexpr) : option (str * list str) :=
  match e with
  | NEnd => Some ([], [])
  | NChars s r =>
      match neval d r with Some (o, m) => Some (s ++ o, m) | None => None end
  | NAt v r =>
      match neval d r with
      | Some (o, m) => Some (fst (lookup_out d v) ++ o, snd (lookup_out d v) ++ m)
      | None => None
      end
  | NBrace i r =>
      match neval d i with
      | Some (name, m1) =>
          if forallb cm_name_char name then
            match neval d r with
            | Some (o, m) => Some (fst (lookup_out d name) ++ o, m1 ++ snd (lookup_out d name) ++ m)
            | None => None
            end
          else None
      | None => None
      end
  end.
(* ${e} as a whole *)
Definition nvalue (d : conf) (e : nexpr) : option (str * list str) := neval d (NBrace e NEnd).

Inductive cseg :=
| CLit (s : str)      (* text without '@' (and, in the cmake format, without '$') *)
| CVar (v : str)      (* @v@  *)
| CBrace (v : str)    (* ${v} (cmake format only) *)
| CNested (e : nexpr) (* ${e}: nested variable references (cmake format only) *)
| CAt                 (* an '@' that opens no placeholder *)
| CDollar.            (* a '$' not followed by '{' (cmake format only) *)

Definition crender (g : cseg) : str :=
  match g with
  | CLit s => s
  | CVar v => 64 :: v ++ [64]
  | CBrace v => 36 :: 123 :: v ++ [125]
  | CNested e => 36 :: 123 :: nrender e ++ [125]
  | CAt => [64]
  | CDollar => [36]
  end.
Definition crender_all (l : list cseg) : str := concat (map crender l).

(* the text up to the next '@' is a non-empty name *)
Fixpoint opens_var (t : str) (seen : bool) : bool :=
  match t with
  | [] => false
  | c :: r => if c =? 64 then seen else if cm_name_char c then opens_var r true else false
  end.

Fixpoint wf_csegs (at_only : bool) (l : list cseg) : bool :=
  match l with
  | [] => true
  | g :: r =>
      let rest := crender_all r in
      (match g with
       | CLit s => forallb (fun c => negb (c =? 64) && (at_only || negb (c =? 36))) s
       | CVar v => nonempty v && forallb cm_name_char v
       | CBrace v => negb at_only && forallb cm_name_char v
       | CNested e => negb at_only && wf_nexpr e
       | CAt => negb (opens_var rest false)
       | CDollar => negb at_only && negb (hd_is 123 rest)
       end) && wf_csegs at_only r
  end.

Definition cexpand (d : conf) (g : cseg) : str :=
  match g with
  | CLit s => s
  | CVar v | CBrace v => match lookup d v with Some val => cstr val | None => [] end
  | CNested e => match nvalue d e with Some (o, _) => o | None => [] end
  | CAt => [64]
  | CDollar => [36]
  end.
Definition cexpand_all (d : conf) (l : list cseg) : str := concat (map (cexpand d) l).
Definition cmissing (d : conf) (l : list cseg) : list str :=
  concat (map (fun g => match g with
                        | CVar v | CBrace v => match lookup d v with Some _ => [] | None => [v] end
                        | CNested e => match nvalue d e with Some (_, m) => m | None => [] end
                        | _ => []
                        end) l).
(* every nested reference computes a variable name (otherwise the implementation raises) *)
Definition cseg_ok (d : conf) (g : cseg) : bool :=
  match g with CNested e => match nvalue d e with Some _ => true | None => false end | _ => true end.
