(* Subst/Meson.v — the 'meson' variable format:
     get_variable_regex('meson')        mesonbuild/utils/universal.py:1661-1671
     do_replacement_meson               mesonbuild/utils/universal.py:1470-1502
   The regex is
       (?:\\\\)+(?=\\?@)                         alternative A
     | (?<!\\)@(?P<variable>[-a-zA-Z0-9_]+)@      alternative B
     | (?P<escaped>\\@[-a-zA-Z0-9_]+\\@)          alternative C
   and re.sub walks the line left to right, trying A, B, C in that order at every
   position, replacing the leftmost match by variable_replace(match) and resuming
   after the match.  [scan] is that walk: it visits every character of the
   ORIGINAL line once (so the look-behind of B sees the original text, as in re),
   [skip] counting the characters still covered by the last match.
   Model file: definitions only, no proofs. *)
From MV Require Import Base.Strs Subst.Data.
Open Scope N_scope.

(* [-a-zA-Z0-9_] *)
Definition is_name_char (c : char) : bool := is_alnum c || (c =? 45) || (c =? 95).

(* number of backslashes at the front of s *)
Fixpoint count_bs (s : str) : nat :=
  match s with
  | c :: r => if c =? 92 then S (count_bs r) else O
  | [] => O
  end.

(* the look-ahead (?=\\?@) *)
Definition look_at (s : str) : bool :=
  match s with
  | c :: r => (c =? 64) || ((c =? 92) && hd_is 64 r)
  | [] => false
  end.

Inductive mkind :=
| KBs (k : nat)      (* A: 2k backslashes matched *)
| KVar (v : str)     (* B: @v@ *)
| KEsc (v : str).    (* C: \@v\@ *)

(* The match of the regex AT the front of s (None: no alternative matches here),
   with its length.  prev_bs: the character before s in the line is a backslash.
   A: (?:\\\\)+ is greedy and backtracks pair by pair; with n backslashes in
   front, only the maximal number of pairs k = n/2 can satisfy the look-ahead
   (after fewer pairs two more backslashes follow, and \\?@ rejects them), so
   the backtracking collapses to one test. *)
Definition match_at (prev_bs : bool) (s : str) : option (mkind * nat) :=
  let k := Nat.div2 (count_bs s) in
  if negb (Nat.eqb k 0) && look_at (skipn (2 * k) s) then Some (KBs k, (2 * k)%nat)
  else
    match s with
    | c :: t =>
        if c =? 64 then
          (* B, guarded by the look-behind (?<!\\) *)
          if prev_bs then None
          else
            let '(v, r) := span is_name_char t in
            if nonempty v && hd_is 64 r then Some (KVar v, (2 + length v)%nat) else None
        else if c =? 92 then
          (* C *)
          match t with
          | c1 :: t1 =>
              if c1 =? 64 then
                let '(v, r) := span is_name_char t1 in
                if nonempty v && hd_is 92 r && hd_is 64 (tl r)
                then Some (KEsc v, (4 + length v)%nat) else None
              else None
          | [] => None
          end
        else None
    | [] => None
    end.

(* variable_replace (universal.py:1474-1501): replacement text and the missing name *)
Definition replacement (d : conf) (k : mkind) : str * list str :=
  match k with
  | KBs n => (repeat 92 n, [])                       (* '\\' * (num_escapes // 2) *)
  | KEsc v => (64 :: v ++ [64], [])                  (* group('escaped')[1:-2] + '@' *)
  | KVar v =>
      match lookup d v with
      | Some val => (py_str val, [])                 (* str -> itself; int, bool -> str(var) *)
      | None => ([], [v])                            (* missing_variables.add(varname) *)
      end
  end.

Fixpoint scan (d : conf) (prev_bs : bool) (skip : nat) (s : str) : str * list str :=
  match s with
  | [] => ([], [])
  | c :: t =>
      let pb := c =? 92 in
      match skip with
      | S k => scan d pb k t
      | O =>
          match match_at prev_bs s with
          | Some (kind, len) =>
              let '(o, m) := scan d pb (pred len) t in
              let '(r, mm) := replacement d kind in
              (r ++ o, mm ++ m)
          | None =>
              let '(o, m) := scan d pb 0 t in (c :: o, m)
          end
      end
  end.

(* do_replacement_meson(regex, line, confdata) -> (text, missing names in order of
   occurrence; the implementation returns them as a set) *)
Definition subst_meson (d : conf) (line : str) : str * list str := scan d false 0 line.
