(* Subst/ProofsCMake.v — the cmake / cmake@ formats (behaviour with the pending fix applied):
   the scanner always terminates (the model's fuel never runs out), and it realises the segment
   semantics of Spec.v - values are inserted verbatim, nothing after them is skipped. *)
From MV Require Import Base.Strs Base.LexFacts Subst.Data Subst.CMake Subst.Spec.
From Coq Require Import Lia Arith.
Open Scope N_scope.

Ltac nrm := unfold str, char in *.
Ltac repl X Y tac := let E := fresh "E" in assert (E : X = Y) by tac; unfold str, char in E |- *; rewrite E; clear E.
Ltac rwn H := let E := fresh "E" in pose proof H as E; unfold str, char in E |- *; rewrite E; clear E.

(* ------------------------------------------------------------------ shapes *)
Lemma find_at_spec (s : str) : forall a b, find_at s = Some (a, b) ->
  s = a ++ 64 :: b /\ forallb (fun c => negb (c =? 64)) a = true.
Proof.
  induction s as [|c r IH]; intros a b H; cbn [find_at] in H; [discriminate|].
  destruct (c =? 64) eqn:E.
  - inversion H; subst. apply N.eqb_eq in E. subst. split; reflexivity.
  - destruct (find_at r) as [[a' b']|]; [|discriminate]. inversion H; subst.
    destruct (IH a' b eq_refl) as [-> Ha]. split; [reflexivity|]. cbn [forallb]. rewrite E, Ha. reflexivity.
Qed.

Lemma find_at_app (a b : str) :
  forallb (fun c => negb (c =? 64)) a = true -> find_at (a ++ 64 :: b) = Some (a, b).
Proof.
  induction a as [|c a IH]; intros H; cbn [app find_at].
  - reflexivity.
  - cbn [forallb] in H. apply andb_true_iff in H. destruct H as [Hc Ha]. apply negb_true_iff in Hc.
    rewrite Hc, (IH Ha). reflexivity.
Qed.

Lemma brackets_spec : forall n (s : str), (length s <= n)%nat ->
  forall cnt i r, brackets cnt s = Some (i, r) -> s = i ++ 125 :: r.
Proof.
  induction n as [|n IH]; intros s Hn cnt i r H.
  - destruct s; [discriminate|cbn in Hn; lia].
  - destruct s as [|c t]; [discriminate|]. cbn [length] in Hn. cbn [brackets] in H.
    destruct ((c =? 36) && hd_is 123 t) eqn:E1.
    + destruct t as [|c2 t2]; [discriminate|]. cbn [length] in Hn.
      destruct (brackets (S cnt) t2) as [[i' r']|] eqn:Eb; [|discriminate]. inversion H; subst.
      rewrite (IH t2 ltac:(lia) _ _ _ Eb). reflexivity.
    + destruct (c =? 125) eqn:E2.
      * apply N.eqb_eq in E2. subst c. destruct cnt as [|cnt'].
        -- inversion H; subst. reflexivity.
        -- destruct (brackets cnt' t) as [[i' r']|] eqn:Eb; [|discriminate]. inversion H; subst.
           rewrite (IH t ltac:(lia) _ _ _ Eb). reflexivity.
      * destruct ((c =? 64) || (c =? 10) || cm_valid c); [|discriminate].
        destruct (brackets cnt t) as [[i' r']|] eqn:Eb; [|discriminate]. inversion H; subst.
        rewrite (IH t ltac:(lia) _ _ _ Eb). reflexivity.
Qed.

Lemma valid_not (c : char) : cm_valid c = true ->
  (c =? 64) = false /\ (c =? 36) = false /\ (c =? 125) = false /\ (c =? 123) = false.
Proof.
  intros H. repeat split; apply N.eqb_neq; intros ->; vm_compute in H; discriminate.
Qed.

Lemma brackets_name (v rest : str) :
  forallb cm_valid v = true -> brackets 0 (v ++ 125 :: rest) = Some (v, rest).
Proof.
  induction v as [|c v IH]; intros H.
  - cbn [app brackets]. change (125 =? 36) with false. change (125 =? 125) with true. reflexivity.
  - cbn [forallb] in H. apply andb_true_iff in H. destruct H as [Hc Hv].
    destruct (valid_not c Hc) as [H64 [H36 [H125 _]]].
    cbn [app brackets]. rewrite H36, H125, Hc. cbn [andb]. rewrite orb_true_r. rewrite (IH Hv). reflexivity.
Qed.

(* ------------------------------------------------------------------ termination *)
Lemma cons_out_fuel o m (r : result (str * list str)) : cons_out o m r = OutOfFuel -> r = OutOfFuel.
Proof. destruct r as [[o' m']| | |]; cbn; congruence. Qed.

(* the scanner terminates on every line, whatever the data (self-referential values included):
   with fuel above the length of the text the model never runs out of fuel *)
Theorem cm_scan_terminates (at_only : bool) (d : conf) : forall fuel (s : str),
  (length s < fuel)%nat -> cm_scan fuel at_only d s <> OutOfFuel.
Proof.
  induction fuel as [|f IH]; intros s Hlen; [lia|].
  cbn [cm_scan]. destruct s as [|c t]; [discriminate|]. cbn [length] in Hlen.
  destruct (c =? 64).
  - destruct (find_at t) as [[name rest]|] eqn:Ef.
    + destruct (find_at_spec t name rest Ef) as [Ht _].
      destruct (nonempty name && forallb cm_valid name).
      * destruct (cm_get d name) as [v m]. intros H. apply cons_out_fuel in H. revert H. apply IH.
        rewrite Ht, app_length in Hlen. cbn [length] in Hlen. lia.
      * intros H. apply cons_out_fuel in H. revert H. apply IH. lia.
    + intros H. apply cons_out_fuel in H. revert H. apply IH. lia.
  - destruct (negb at_only && (c =? 36) && hd_is 123 t).
    + destruct (brackets 0 (tl t)) as [[inner rest]|] eqn:Eb; [|discriminate].
      pose proof (brackets_spec (length (tl t)) (tl t) (le_n _) _ _ _ Eb) as Ht.
      assert (Hl : (length inner + length rest < length t)%nat).
      { destruct t as [|c2 t2]; cbn [tl] in Ht; [destruct inner; discriminate|].
        rewrite Ht. cbn [length]. rewrite app_length. cbn [length]. lia. }
      destruct (cm_scan f at_only d inner) as [[varname m1]| | |] eqn:Ei; try discriminate.
      * destruct (forallb cm_valid varname); [|discriminate].
        destruct (cm_get d varname) as [v m]. intros H. apply cons_out_fuel in H. revert H. apply IH. lia.
      * exfalso. revert Ei. apply IH. lia.
    + intros H. apply cons_out_fuel in H. revert H. apply IH. lia.
Qed.

Theorem subst_cmake_terminates (at_only : bool) (d : conf) (line : str) :
  subst_cmake at_only d line <> OutOfFuel.
Proof. apply cm_scan_terminates. lia. Qed.

(* ------------------------------------------------------------------ the segments *)
Definition lit_ok (at_only : bool) (c : char) : bool := negb (c =? 64) && (at_only || negb (c =? 36)).

Lemma cons_out_ok o m o' m' : cons_out o m (Ok (o', m')) = Ok (o ++ o', m ++ m').
Proof. reflexivity. Qed.
Lemma cons_out_cons_out o1 m1 o2 m2 r :
  cons_out o1 m1 (cons_out o2 m2 r) = cons_out (o1 ++ o2) (m1 ++ m2) r.
Proof. destruct r as [[o m]| | |]; cbn; rewrite ?app_assoc; reflexivity. Qed.

Lemma scan_plain_char at_only d f (c : char) (t : str) :
  lit_ok at_only c = true ->
  cm_scan (S f) at_only d (c :: t) = cons_out [c] [] (cm_scan f at_only d t).
Proof.
  unfold lit_ok. intros H. apply andb_true_iff in H. destruct H as [H64 H36]. apply negb_true_iff in H64.
  cbn [cm_scan]. rewrite H64.
  destruct at_only; cbn [negb andb orb] in *; [reflexivity|].
  apply negb_true_iff in H36. rewrite H36. reflexivity.
Qed.

Lemma scan_lit at_only d (s : str) : forall fuel (rest : str),
  forallb (lit_ok at_only) s = true ->
  (length s <= fuel)%nat ->
  cm_scan fuel at_only d (s ++ rest) = cons_out s [] (cm_scan (fuel - length s) at_only d rest)
  \/ (s = [] /\ True).
Proof.
  induction s as [|c s IH]; intros fuel rest H Hlen.
  - right. split; [reflexivity|exact I].
  - left. cbn [forallb] in H. apply andb_true_iff in H. destruct H as [Hc Hs].
    destruct fuel as [|f]; [cbn in Hlen; lia|]. cbn [length] in Hlen.
    cbn [app]. rwn (scan_plain_char at_only d f c (s ++ rest) Hc).
    destruct (IH f rest Hs ltac:(lia)) as [E|[-> _]].
    + rwn E. rewrite cons_out_cons_out. cbn [app length Nat.sub]. reflexivity.
    + cbn [app length Nat.sub]. rewrite Nat.sub_0_r. reflexivity.
Qed.

Lemma scan_lit' at_only d (s : str) fuel (rest : str) :
  forallb (lit_ok at_only) s = true -> (length s <= fuel)%nat ->
  cm_scan fuel at_only d (s ++ rest) = cons_out s [] (cm_scan (fuel - length s) at_only d rest).
Proof.
  intros H Hl. destruct (scan_lit at_only d s fuel rest H Hl) as [E|[-> _]]; [exact E|].
  cbn [app length]. rewrite Nat.sub_0_r. destruct (cm_scan fuel at_only d rest) as [[o m]| | |]; reflexivity.
Qed.

Lemma valid_lit_ok at_only (v : str) : forallb cm_valid v = true -> forallb (lit_ok at_only) v = true.
Proof.
  induction v as [|c v IH]; [reflexivity|]. cbn [forallb]. intros H. apply andb_true_iff in H. destruct H as [Hc Hv].
  rewrite (IH Hv), andb_true_r. destruct (valid_not c Hc) as [H64 [H36 _]]. unfold lit_ok. rewrite H64, H36.
  destruct at_only; reflexivity.
Qed.

(* a name is its own expansion *)
Lemma scan_name at_only d (v : str) fuel :
  forallb cm_valid v = true -> (length v < fuel)%nat -> cm_scan fuel at_only d v = Ok (v, []).
Proof.
  intros H Hl. rewrite <- (app_nil_r v) at 1.
  rewrite (scan_lit' at_only d v fuel [] (valid_lit_ok at_only v H) ltac:(lia)).
  destruct (fuel - length v)%nat eqn:E; [lia|]. cbn [cm_scan cons_out]. rewrite app_nil_r. reflexivity.
Qed.

Lemma valid_no_at (v : str) : forallb cm_valid v = true -> forallb (fun c => negb (c =? 64)) v = true.
Proof.
  induction v as [|c v IH]; [reflexivity|]. cbn [forallb]. intros H. apply andb_true_iff in H. destruct H as [Hc Hv].
  destruct (valid_not c Hc) as [H64 _]. rewrite H64, (IH Hv). reflexivity.
Qed.

Lemma scan_var at_only d f (v rest : str) :
  nonempty v = true -> forallb cm_valid v = true ->
  cm_scan (S f) at_only d (64 :: v ++ 64 :: rest)
  = cons_out (fst (cm_get d v)) (snd (cm_get d v)) (cm_scan f at_only d rest).
Proof.
  intros Hne Hv. cbn [cm_scan]. change (64 =? 64) with true. cbv iota.
  rwn (find_at_app v rest (valid_no_at v Hv)). nrm. rewrite Hne, Hv. cbn [andb].
  destruct (cm_get d v); reflexivity.
Qed.

Lemma scan_brace d f (v rest : str) :
  forallb cm_valid v = true -> (length v < f)%nat ->
  cm_scan (S f) false d (36 :: 123 :: v ++ 125 :: rest)
  = cons_out (fst (cm_get d v)) (snd (cm_get d v)) (cm_scan f false d rest).
Proof.
  intros Hv Hl. cbn [cm_scan]. change (36 =? 64) with false. change (36 =? 36) with true.
  cbn [negb andb hd_is tl]. change (123 =? 123) with true. cbv iota.
  rwn (brackets_name v rest Hv). rwn (scan_name false d v f Hv Hl). nrm. rewrite Hv.
  destruct (cm_get d v); reflexivity.
Qed.

Lemma opens_var_find (t : str) : forall seen name r, find_at t = Some (name, r) ->
  opens_var t seen = (seen || nonempty name) && forallb cm_valid name.
Proof.
  induction t as [|c t IH]; intros seen name r H; cbn [find_at] in H; [discriminate|].
  cbn [opens_var]. destruct (c =? 64).
  - inversion H; subst. cbn. rewrite orb_false_r, andb_true_r. reflexivity.
  - destruct (find_at t) as [[a b]|] eqn:E; [|discriminate]. inversion H; subst.
    change (cm_name_char c) with (cm_valid c). cbn [nonempty forallb]. rewrite orb_true_r. cbn [andb].
    destruct (cm_valid c); [|reflexivity]. rewrite (IH true a r eq_refl). reflexivity.
Qed.

Lemma scan_lone_at at_only d f (t : str) :
  opens_var t false = false ->
  cm_scan (S f) at_only d (64 :: t) = cons_out [64] [] (cm_scan f at_only d t).
Proof.
  intros H. cbn [cm_scan]. change (64 =? 64) with true. cbv iota.
  destruct (find_at t) as [[name r]|] eqn:E; [|reflexivity].
  rewrite (opens_var_find t false name r E) in H. cbn [orb] in H. nrm. rewrite H. reflexivity.
Qed.

Lemma scan_lone_dollar d f (t : str) :
  hd_is 123 t = false ->
  cm_scan (S f) false d (36 :: t) = cons_out [36] [] (cm_scan f false d t).
Proof.
  intros H. cbn [cm_scan]. change (36 =? 64) with false. change (36 =? 36) with true.
  cbn [negb andb]. rewrite H. reflexivity.
Qed.

Lemma crender_all_cons g r : crender_all (g :: r) = crender g ++ crender_all r.
Proof. reflexivity. Qed.

Lemma cm_get_spec d v :
  cm_get d v = (match lookup d v with Some val => cstr val | None => [] end,
                match lookup d v with Some _ => [] | None => [v] end).
Proof. unfold cm_get. destruct (lookup d v) as [val|]; [destruct val|]; reflexivity. Qed.

(* ------------------------------------------------------------------ nested ${...} *)
Definition bprep (p : str) (r : option (str * str)) : option (str * str) :=
  match r with Some (i, rest) => Some (p ++ i, rest) | None => None end.
Lemma bprep_bprep a b r : bprep a (bprep b r) = bprep (a ++ b) r.
Proof. destruct r as [[i rest]|]; cbn; rewrite ?app_assoc; reflexivity. Qed.
Lemma bprep_nil r : bprep [] r = r.
Proof. destruct r as [[i rest]|]; reflexivity. Qed.

Lemma brackets_char cnt (c : char) (t : str) :
  ((c =? 64) || cm_valid c) = true -> brackets cnt (c :: t) = bprep [c] (brackets cnt t).
Proof.
  intros H. assert (H36 : (c =? 36) = false /\ (c =? 125) = false).
  { apply orb_true_iff in H. destruct H as [H|H].
    - apply N.eqb_eq in H. subst. split; reflexivity.
    - destruct (valid_not c H) as [_ [H1 [H2 _]]]. split; assumption. }
  destruct H36 as [H36 H125]. cbn [brackets]. rewrite H36, H125. cbn [andb].
  replace ((c =? 64) || (c =? 10) || cm_valid c) with true
    by (symmetry; destruct (c =? 64); [reflexivity|]; cbn [orb] in *; rewrite H; apply orb_true_r).
  destruct (brackets cnt t) as [[i rest]|]; reflexivity.
Qed.
Lemma brackets_chars cnt (s t : str) :
  forallb cm_valid s = true -> brackets cnt (s ++ t) = bprep s (brackets cnt t).
Proof.
  induction s as [|c s IH]; intros H; cbn [app]; [rewrite bprep_nil; reflexivity|].
  cbn [forallb] in H. apply andb_true_iff in H. destruct H as [Hc Hs].
  rewrite brackets_char by (rewrite Hc; apply orb_true_r). rewrite (IH Hs), bprep_bprep. reflexivity.
Qed.
Lemma brackets_open cnt (t : str) :
  brackets cnt (36 :: 123 :: t) = bprep [36; 123] (brackets (S cnt) t).
Proof. cbn [brackets hd_is]. change (36 =? 36) with true. change (123 =? 123) with true. cbn [andb].
  destruct (brackets (S cnt) t) as [[i rest]|]; reflexivity. Qed.
Lemma brackets_close cnt (t : str) :
  brackets (S cnt) (125 :: t) = bprep [125] (brackets cnt t).
Proof. cbn [brackets]. change (125 =? 36) with false. change (125 =? 125) with true. cbn [andb].
  destruct (brackets cnt t) as [[i rest]|]; reflexivity. Qed.

(* the bracket matcher walks over a well-formed expression without changing its count *)
Lemma brackets_nexpr : forall (e : nexpr) cnt (t : str),
  wf_nexpr e = true -> brackets cnt (nrender e ++ t) = bprep (nrender e) (brackets cnt t).
Proof.
  induction e as [|s r IHr|i IHi r IHr|v r IHr]; intros cnt t H; cbn [nrender wf_nexpr] in *.
  - cbn [app]. rewrite bprep_nil. reflexivity.
  - apply andb_true_iff in H. destruct H as [Hs Hr]. rewrite <- app_assoc.
    rewrite (brackets_chars cnt s _ Hs), (IHr cnt t Hr), bprep_bprep. reflexivity.
  - apply andb_true_iff in H. destruct H as [Hi Hr]. cbn [app].
    rwn (brackets_open cnt ((nrender i ++ 125 :: nrender r) ++ t)).
    repl ((nrender i ++ 125 :: nrender r) ++ t) (nrender i ++ 125 :: (nrender r ++ t))
      ltac:(rewrite <- app_assoc; reflexivity).
    rwn (IHi (S cnt) (125 :: (nrender r ++ t)) Hi). rwn (brackets_close cnt (nrender r ++ t)).
    rwn (IHr cnt t Hr). rewrite !bprep_bprep. f_equal. cbn [app]. rewrite <- !app_assoc. reflexivity.
  - apply andb_true_iff in H. destruct H as [H Hr]. apply andb_true_iff in H. destruct H as [Hne Hv]. cbn [app].
    rwn (brackets_char cnt 64 ((v ++ 64 :: nrender r) ++ t) eq_refl).
    repl ((v ++ 64 :: nrender r) ++ t) (v ++ 64 :: (nrender r ++ t)) ltac:(rewrite <- app_assoc; reflexivity).
    rwn (brackets_chars cnt v (64 :: (nrender r ++ t)) Hv).
    rwn (brackets_char cnt 64 (nrender r ++ t) eq_refl). rwn (IHr cnt t Hr).
    rewrite !bprep_bprep. f_equal. cbn [app]. rewrite <- !app_assoc. reflexivity.
Qed.

Lemma brackets_nexpr_closed (e : nexpr) (rest : str) :
  wf_nexpr e = true -> brackets 0 (nrender e ++ 125 :: rest) = Some (nrender e, rest).
Proof.
  intros H. rewrite (brackets_nexpr e 0 (125 :: rest) H).
  cbn [brackets]. change (125 =? 36) with false. change (125 =? 125) with true. cbn [andb bprep].
  rewrite app_nil_r. reflexivity.
Qed.

Lemma cm_get_lookup_out d v : cm_get d v = lookup_out d v.
Proof. unfold cm_get, lookup_out. destruct (lookup d v) as [val|]; [destruct val|]; reflexivity. Qed.

Definition of_opt (o : option (str * list str)) : result (str * list str) :=
  match o with Some om => Ok om | None => MesonErr end.

(* one step of the scanner on "${" inner "}" rest, for ANY inner text the bracket matcher accepts *)
Lemma scan_brace_step d f (inner rest : str) :
  brackets 0 (inner ++ 125 :: rest) = Some (inner, rest) ->
  cm_scan (S f) false d (36 :: 123 :: inner ++ 125 :: rest)
  = match cm_scan f false d inner with
    | Ok (name, m1) =>
        if forallb cm_valid name
        then cons_out (fst (cm_get d name)) (m1 ++ snd (cm_get d name)) (cm_scan f false d rest)
        else MesonErr
    | e => e
    end.
Proof.
  intros Hb. cbn [cm_scan]. change (36 =? 64) with false. change (36 =? 36) with true.
  cbn [negb andb hd_is tl]. change (123 =? 123) with true. cbv iota. nrm. rewrite Hb.
  destruct (cm_scan f false d inner) as [[name m1]| | |]; try reflexivity.
  destruct (cm_get d name); reflexivity.
Qed.

(* nested references are evaluated inside out; an inner result that is not a variable name is an error *)
Lemma cm_scan_nexpr d : forall (e : nexpr) fuel,
  wf_nexpr e = true -> (length (nrender e) < fuel)%nat ->
  cm_scan fuel false d (nrender e) = of_opt (neval d e).
Proof.
  induction e as [|s r IHr|i IHi r IHr|v r IHr]; intros fuel H Hlen; cbn [nrender wf_nexpr neval] in *.
  - destruct fuel; [lia|]. reflexivity.
  - apply andb_true_iff in H. destruct H as [Hs Hr]. rewrite app_length in Hlen.
    rewrite (scan_lit' false d s fuel (nrender r) (valid_lit_ok false s Hs) ltac:(lia)).
    rewrite (IHr (fuel - length s)%nat Hr ltac:(lia)).
    destruct (neval d r) as [[o m]|]; reflexivity.
  - apply andb_true_iff in H. destruct H as [Hi Hr]. cbn [length] in Hlen. rewrite app_length in Hlen. cbn [length] in Hlen.
    destruct fuel as [|f]; [lia|].
    rwn (scan_brace_step d f (nrender i) (nrender r) (brackets_nexpr_closed i (nrender r) Hi)).
    rwn (IHi f Hi ltac:(lia)). rwn (IHr f Hr ltac:(lia)).
    destruct (neval d i) as [[name m1]|]; cbn [of_opt]; [|reflexivity].
    change (forallb cm_name_char name) with (forallb cm_valid name). nrm.
    destruct (@forallb N cm_valid name); [|reflexivity]. rewrite cm_get_lookup_out.
    destruct (neval d r) as [[o m]|]; cbn [of_opt cons_out]; [|reflexivity]. rewrite <- app_assoc. reflexivity.
  - apply andb_true_iff in H. destruct H as [H Hr]. apply andb_true_iff in H. destruct H as [Hne Hv].
    cbn [length] in Hlen. rewrite app_length in Hlen. cbn [length] in Hlen.
    destruct fuel as [|f]; [lia|].
    rwn (scan_var false d f v (nrender r) Hne Hv). rwn (IHr f Hr ltac:(lia)). rewrite cm_get_lookup_out.
    destruct (neval d r) as [[o m]|]; reflexivity.
Qed.

(* ${e} followed by more text *)
Lemma scan_nested d f (e : nexpr) (rest : str) :
  wf_nexpr e = true -> (length (nrender e) < f)%nat ->
  cm_scan (S f) false d (36 :: 123 :: nrender e ++ 125 :: rest)
  = match nvalue d e with
    | Some (o, m) => cons_out o m (cm_scan f false d rest)
    | None => MesonErr
    end.
Proof.
  intros H Hlen. rwn (scan_brace_step d f (nrender e) rest (brackets_nexpr_closed e rest H)).
  rwn (cm_scan_nexpr d e f H Hlen). unfold nvalue. cbn [neval].
  destruct (neval d e) as [[name m1]|]; cbn [of_opt]; [|reflexivity].
  change (forallb cm_name_char name) with (forallb cm_valid name). nrm.
  destruct (@forallb N cm_valid name); [|reflexivity]. rewrite cm_get_lookup_out.
  rewrite !app_nil_r. reflexivity.
Qed.

(* well-formedness of a segment list that is followed by more (arbitrary) text *)
Fixpoint wf_tail (at_only : bool) (l : list cseg) (tail : str) : bool :=
  match l with
  | [] => true
  | g :: r =>
      let rest := crender_all r ++ tail in
      (match g with
       | CLit s => forallb (fun c => negb (c =? 64) && (at_only || negb (c =? 36))) s
       | CVar v => nonempty v && forallb cm_name_char v
       | CBrace v => negb at_only && forallb cm_name_char v
       | CNested e => negb at_only && wf_nexpr e
       | CAt => negb (opens_var rest false)
       | CDollar => negb at_only && negb (hd_is 123 rest)
       end) && wf_tail at_only r tail
  end.
Lemma wf_tail_nil at_only l : wf_tail at_only l [] = wf_csegs at_only l.
Proof. induction l as [|g r IH]; [reflexivity|]. cbn [wf_tail wf_csegs]. rewrite app_nil_r, IH. reflexivity. Qed.

Lemma cons_out_nil r : cons_out [] [] r = r.
Proof. destruct r as [[o m]| | |]; reflexivity. Qed.

(* a well-formed prefix is replaced segment by segment, whatever follows it *)
Lemma cmake_prefix (at_only : bool) d : forall (l : list cseg) (tail : str) fuel,
  wf_tail at_only l tail = true -> forallb (cseg_ok d) l = true ->
  (length (crender_all l ++ tail) < fuel)%nat ->
  exists fuel', (length tail < fuel')%nat /\
    cm_scan fuel at_only d (crender_all l ++ tail)
    = cons_out (cexpand_all d l) (cmissing d l) (cm_scan fuel' at_only d tail).
Proof.
  induction l as [|g r IH]; intros tail fuel Hwf Hok Hlen.
  - exists fuel. split; [exact Hlen|]. cbn [crender_all map concat app]. rewrite cons_out_nil. reflexivity.
  - cbn [wf_tail] in Hwf. apply andb_true_iff in Hwf. destruct Hwf as [Hg Hr].
    cbn [forallb] in Hok. apply andb_true_iff in Hok. destruct Hok as [Hokg Hokr].
    rewrite crender_all_cons in *. rewrite <- app_assoc in *. rewrite app_length in Hlen.
    set (rest := crender_all r ++ tail) in *.
    destruct g as [s|v|v|e| |]; cbn [crender] in *.
    + (* CLit *)
      rewrite (scan_lit' at_only d s fuel rest Hg ltac:(lia)).
      destruct (IH tail (fuel - length s)%nat Hr Hokr ltac:(subst rest; lia)) as [f' [Hf' E]]. exists f'. split; [exact Hf'|].
      subst rest. rewrite E, cons_out_cons_out. reflexivity.
    + (* CVar *)
      apply andb_true_iff in Hg. destruct Hg as [Hne Hv]. cbn [length] in Hlen. rewrite app_length in Hlen. cbn [length] in Hlen.
      destruct fuel as [|f]; [lia|].
      repl ((64 :: v ++ [64]) ++ rest) (64 :: v ++ 64 :: rest) ltac:(cbn [app]; rewrite <- app_assoc; reflexivity).
      rwn (scan_var at_only d f v rest Hne Hv).
      destruct (IH tail f Hr Hokr ltac:(subst rest; lia)) as [f' [Hf' E]]. exists f'. split; [exact Hf'|].
      subst rest. rwn E. rewrite cons_out_cons_out, cm_get_spec. reflexivity.
    + (* CBrace *)
      apply andb_true_iff in Hg. destruct Hg as [Hat Hv]. apply negb_true_iff in Hat. subst at_only.
      cbn [length] in Hlen. rewrite app_length in Hlen. cbn [length] in Hlen.
      destruct fuel as [|f]; [lia|].
      repl ((36 :: 123 :: v ++ [125]) ++ rest) (36 :: 123 :: v ++ 125 :: rest) ltac:(cbn [app]; rewrite <- app_assoc; reflexivity).
      rwn (scan_brace d f v rest Hv ltac:(lia)).
      destruct (IH tail f Hr Hokr ltac:(subst rest; lia)) as [f' [Hf' E]]. exists f'. split; [exact Hf'|].
      subst rest. rwn E. rewrite cons_out_cons_out, cm_get_spec. reflexivity.
    + (* CNested *)
      apply andb_true_iff in Hg. destruct Hg as [Hat He]. apply negb_true_iff in Hat. subst at_only.
      cbn [length] in Hlen. rewrite app_length in Hlen. cbn [length] in Hlen.
      destruct fuel as [|f]; [lia|].
      repl ((36 :: 123 :: nrender e ++ [125]) ++ rest) (36 :: 123 :: nrender e ++ 125 :: rest)
        ltac:(cbn [app]; rewrite <- app_assoc; reflexivity).
      rwn (scan_nested d f e rest He ltac:(lia)).
      destruct (IH tail f Hr Hokr ltac:(subst rest; lia)) as [f' [Hf' E]]. exists f'. split; [exact Hf'|].
      subst rest. rwn E. unfold cexpand_all, cmissing. cbn [map concat cexpand]. cbn [cseg_ok] in Hokg.
      destruct (nvalue d e) as [[o m]|]; [|discriminate]. rewrite cons_out_cons_out. reflexivity.
    + (* CAt *)
      apply negb_true_iff in Hg. cbn [length] in Hlen. destruct fuel as [|f]; [lia|]. cbn [app].
      rwn (scan_lone_at at_only d f rest Hg).
      destruct (IH tail f Hr Hokr ltac:(subst rest; lia)) as [f' [Hf' E]]. exists f'. split; [exact Hf'|].
      subst rest. rwn E. rewrite cons_out_cons_out. reflexivity.
    + (* CDollar *)
      apply andb_true_iff in Hg. destruct Hg as [Hat Hh]. apply negb_true_iff in Hat. apply negb_true_iff in Hh. subst at_only.
      cbn [length] in Hlen. destruct fuel as [|f]; [lia|]. cbn [app].
      rwn (scan_lone_dollar d f rest Hh).
      destruct (IH tail f Hr Hokr ltac:(subst rest; lia)) as [f' [Hf' E]]. exists f'. split; [exact Hf'|].
      subst rest. rwn E. rewrite cons_out_cons_out. reflexivity.
Qed.

(* THE segment theorem of the cmake formats: every value is inserted verbatim - never scanned
   again, nothing after it skipped - nested ${${..}} references are evaluated inside out, and
   every undefined name is reported, for ALL values *)
Theorem cmake_segments_fuel (at_only : bool) d : forall (l : list cseg) fuel,
  wf_csegs at_only l = true -> forallb (cseg_ok d) l = true -> (length (crender_all l) < fuel)%nat ->
  cm_scan fuel at_only d (crender_all l) = Ok (cexpand_all d l, cmissing d l).
Proof.
  intros l fuel Hwf Hok Hlen. rewrite <- wf_tail_nil in Hwf.
  destruct (cmake_prefix at_only d l [] fuel Hwf Hok ltac:(rewrite app_nil_r; exact Hlen)) as [f' [Hf' E]].
  rewrite app_nil_r in E. rewrite E. destruct f'; [cbn in Hf'; lia|]. cbn [cm_scan cons_out].
  rewrite !app_nil_r. reflexivity.
Qed.

Theorem cmake_segments (at_only : bool) d (l : list cseg) :
  wf_csegs at_only l = true -> forallb (cseg_ok d) l = true ->
  subst_cmake at_only d (crender_all l) = Ok (cexpand_all d l, cmissing d l).
Proof. intros H Hok. apply cmake_segments_fuel; [exact H|exact Hok|lia]. Qed.

(* ------------------------------------------------------------------ the error cases *)
Lemma cons_out_err o m : cons_out o m (@MesonErr (str * list str)) = MesonErr.
Proof. reflexivity. Qed.

(* after any well-formed prefix: a nested reference whose inner text does not evaluate to a
   variable name is a MesonException *)
Theorem cmake_bad_nested_name d (l : list cseg) (e : nexpr) (after : str) :
  wf_tail false l (crender (CNested e) ++ after) = true -> forallb (cseg_ok d) l = true ->
  wf_nexpr e = true -> nvalue d e = None ->
  subst_cmake false d (crender_all l ++ crender (CNested e) ++ after) = MesonErr.
Proof.
  intros Hwf Hok He Hn. unfold subst_cmake.
  destruct (cmake_prefix false d l _ _ Hwf Hok (Nat.lt_succ_diag_r _)) as [f' [Hf' E]]. rewrite E.
  cbn [crender] in *. destruct f' as [|f]; [cbn in Hf'; lia|].
  repl ((36 :: 123 :: nrender e ++ [125]) ++ after) (36 :: 123 :: nrender e ++ 125 :: after)
    ltac:(cbn [app]; rewrite <- app_assoc; reflexivity).
  assert (Hl : (length (nrender e) < f)%nat).
  { cbn [length app] in Hf'. rewrite !app_length in Hf'. cbn [length] in Hf'. lia. }
  rwn (scan_nested d f e after He Hl). rewrite Hn. reflexivity.
Qed.

(* ... and so is a "${" that the bracket matcher rejects (never closed, or an invalid character inside) *)
Theorem cmake_bad_brackets d (l : list cseg) (t : str) :
  wf_tail false l (36 :: 123 :: t) = true -> forallb (cseg_ok d) l = true ->
  brackets 0 t = None ->
  subst_cmake false d (crender_all l ++ 36 :: 123 :: t) = MesonErr.
Proof.
  intros Hwf Hok Hb. unfold subst_cmake.
  destruct (cmake_prefix false d l _ _ Hwf Hok (Nat.lt_succ_diag_r _)) as [f' [Hf' E]]. rewrite E.
  destruct f' as [|f]; [cbn in Hf'; lia|].
  cbn [cm_scan]. change (36 =? 64) with false. change (36 =? 36) with true.
  cbn [negb andb hd_is tl]. change (123 =? 123) with true. cbv iota. nrm. rewrite Hb. reflexivity.
Qed.

(* never closed: no '}' at all *)
Lemma brackets_unterminated : forall n (t : str) cnt, (length t <= n)%nat ->
  forallb (fun c => negb (c =? 125)) t = true -> brackets cnt t = None.
Proof.
  induction n as [|n IH]; intros t cnt Hn H.
  - destruct t; [reflexivity|cbn in Hn; lia].
  - destruct t as [|c t]; [reflexivity|]. cbn [length forallb] in *.
    apply andb_true_iff in H. destruct H as [Hc Ht]. apply negb_true_iff in Hc.
    cbn [brackets]. destruct ((c =? 36) && hd_is 123 t).
    + destruct t as [|c2 t2]; [reflexivity|]. cbn [length forallb] in *.
      apply andb_true_iff in Ht. destruct Ht as [_ Ht2]. rewrite (IH t2 (S cnt) ltac:(lia) Ht2). reflexivity.
    + rewrite Hc. destruct ((c =? 64) || (c =? 10) || cm_valid c); [|reflexivity].
      rewrite (IH t cnt ltac:(lia) Ht). reflexivity.
Qed.
(* an invalid character after name characters *)
Definition bad_in_braces (c : char) (t : str) : bool :=
  negb ((c =? 36) && hd_is 123 t) && negb (c =? 125) && negb ((c =? 64) || (c =? 10) || cm_valid c).
Lemma brackets_invalid_char cnt (s : str) (c : char) (t : str) :
  forallb cm_valid s = true -> bad_in_braces c t = true -> brackets cnt (s ++ c :: t) = None.
Proof.
  intros Hs Hc. rewrite (brackets_chars cnt s (c :: t) Hs).
  unfold bad_in_braces in Hc. apply andb_true_iff in Hc. destruct Hc as [Hc H3]. apply andb_true_iff in Hc. destruct Hc as [H1 H2].
  apply negb_true_iff in H1. apply negb_true_iff in H2. apply negb_true_iff in H3.
  cbn [brackets]. rewrite H1, H2, H3. reflexivity.
Qed.

Example cmake_error_examples :
  subst_cmake false [] (s2l "x ${B") = MesonErr /\ subst_cmake false [] (s2l "${B C}") = MesonErr /\
  subst_cmake false [(s2l "W", (VStr (s2l "a b"), []))] (s2l "${${W}}") = MesonErr /\
  subst_cmake false [(s2l "Q", (VStr (s2l "B"), [])); (s2l "B", (VStr (s2l "bee"), []))] (s2l "${${Q}}|${x${nope}}")
  = Ok (s2l "bee|", [s2l "nope"; s2l "x"]).
Proof. repeat split; vm_compute; reflexivity. Qed.

(* text without '@' (and, in the cmake format, without '$') is copied unchanged *)
Theorem cmake_identity_plain (at_only : bool) d (s : str) :
  forallb (fun c => negb (c =? 64) && (at_only || negb (c =? 36))) s = true ->
  subst_cmake at_only d s = Ok (s, []).
Proof.
  intros H. pose proof (cmake_segments at_only d [CLit s]) as E.
  unfold crender_all, cexpand_all, cmissing in E. cbn [map concat crender cexpand wf_csegs] in E.
  rewrite app_nil_r in E. apply E; [rewrite H; reflexivity|reflexivity].
Qed.

(* a value that names itself is inserted once; nothing diverges *)
Example cmake_self_reference :
  subst_cmake true [(s2l "X", (VStr (s2l "q@X@"), []))] (s2l "@X@") = Ok (s2l "q@X@", []) /\
  subst_cmake false [(s2l "X", (VStr (s2l "${X}"), []))] (s2l "${X}|@X@") = Ok (s2l "${X}|${X}", []).
Proof. split; vm_compute; reflexivity. Qed.
(* the character after an empty or undefined value is not skipped *)
Example cmake_after_empty_value :
  subst_cmake false [(s2l "A", (VStr [], [])); (s2l "B", (VStr (s2l "bee"), []))] (s2l "@A@@B@${nope}${B}")
  = Ok (s2l "beebee", [s2l "nope"]).
Proof. vm_compute. reflexivity. Qed.
