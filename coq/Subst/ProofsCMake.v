(* Subst/ProofsCMake.v — the cmake / cmake@ formats (behaviour with the pending fix applied):
   the scanner always terminates (the model's fuel never runs out), and it realises the segment
   semantics of Spec.v - values are inserted verbatim, nothing after them is skipped. *)
From MV Require Import Base.Strs Base.LexFacts Subst.Data Subst.CMake Subst.Spec.
From Coq Require Import Lia Arith.
Open Scope N_scope.

Ltac nrm := unfold str, char in *.
Ltac repl X Y tac := let E := fresh "E" in assert (E : X = Y) by tac; unfold str, char in E |- *; rewrite E; clear E.
Ltac rwn H := let E := fresh "E" in pose proof H as E; unfold str, char in E |- *; rewrite E; clear E.

(* ------------------------------------------------------------------ shapes *)
Lemma find_at_spec (s : str) : forall a b, find_at s = Some (a, b) ->
  s = a ++ 64 :: b /\ forallb (fun c => negb (c =? 64)) a = true.
Proof.
  induction s as [|c r IH]; intros a b H; cbn [find_at] in H; [discriminate|].
  destruct (c =? 64) eqn:E.
  - inversion H; subst. apply N.eqb_eq in E. subst. split; reflexivity.
  - destruct (find_at r) as [[a' b']|]; [|discriminate]. inversion H; subst.
    destruct (IH a' b eq_refl) as [-> Ha]. split; [reflexivity|]. cbn [forallb]. rewrite E, Ha. reflexivity.
Qed.

Lemma find_at_app (a b : str) :
  forallb (fun c => negb (c =? 64)) a = true -> find_at (a ++ 64 :: b) = Some (a, b).
Proof.
  induction a as [|c a IH]; intros H; cbn [app find_at].
  - reflexivity.
  - cbn [forallb] in H. apply andb_true_iff in H. destruct H as [Hc Ha]. apply negb_true_iff in Hc.
    rewrite Hc, (IH Ha). reflexivity.
Qed.

Lemma brackets_spec : forall n (s : str), (length s <= n)%nat ->
  forall cnt i r, brackets cnt s = Some (i, r) -> s = i ++ 125 :: r.
Proof.
  induction n as [|n IH]; intros s Hn cnt i r H.
  - destruct s; [discriminate|cbn in Hn; lia].
  - destruct s as [|c t]; [discriminate|]. cbn [length] in Hn. cbn [brackets] in H.
    destruct ((c =? 36) && hd_is 123 t) eqn:E1.
    + destruct t as [|c2 t2]; [discriminate|]. cbn [length] in Hn.
      destruct (brackets (S cnt) t2) as [[i' r']|] eqn:Eb; [|discriminate]. inversion H; subst.
      rewrite (IH t2 ltac:(lia) _ _ _ Eb). reflexivity.
    + destruct (c =? 125) eqn:E2.
      * apply N.eqb_eq in E2. subst c. destruct cnt as [|cnt'].
        -- inversion H; subst. reflexivity.
        -- destruct (brackets cnt' t) as [[i' r']|] eqn:Eb; [|discriminate]. inversion H; subst.
           rewrite (IH t ltac:(lia) _ _ _ Eb). reflexivity.
      * destruct ((c =? 64) || (c =? 10) || cm_valid c); [|discriminate].
        destruct (brackets cnt t) as [[i' r']|] eqn:Eb; [|discriminate]. inversion H; subst.
        rewrite (IH t ltac:(lia) _ _ _ Eb). reflexivity.
Qed.

Lemma valid_not (c : char) : cm_valid c = true ->
  (c =? 64) = false /\ (c =? 36) = false /\ (c =? 125) = false /\ (c =? 123) = false.
Proof.
  intros H. repeat split; apply N.eqb_neq; intros ->; vm_compute in H; discriminate.
Qed.

Lemma brackets_name (v rest : str) :
  forallb cm_valid v = true -> brackets 0 (v ++ 125 :: rest) = Some (v, rest).
Proof.
  induction v as [|c v IH]; intros H.
  - cbn [app brackets]. change (125 =? 36) with false. change (125 =? 125) with true. reflexivity.
  - cbn [forallb] in H. apply andb_true_iff in H. destruct H as [Hc Hv].
    destruct (valid_not c Hc) as [H64 [H36 [H125 _]]].
    cbn [app brackets]. rewrite H36, H125, Hc. cbn [andb]. rewrite orb_true_r. rewrite (IH Hv). reflexivity.
Qed.

(* ------------------------------------------------------------------ termination *)
Lemma cons_out_fuel o m (r : result (str * list str)) : cons_out o m r = OutOfFuel -> r = OutOfFuel.
Proof. destruct r as [[o' m']| | |]; cbn; congruence. Qed.

(* the scanner terminates on every line, whatever the data (self-referential values included):
   with fuel above the length of the text the model never runs out of fuel *)
Theorem cm_scan_terminates (at_only : bool) (d : conf) : forall fuel (s : str),
  (length s < fuel)%nat -> cm_scan fuel at_only d s <> OutOfFuel.
Proof.
  induction fuel as [|f IH]; intros s Hlen; [lia|].
  cbn [cm_scan]. destruct s as [|c t]; [discriminate|]. cbn [length] in Hlen.
  destruct (c =? 64).
  - destruct (find_at t) as [[name rest]|] eqn:Ef.
    + destruct (find_at_spec t name rest Ef) as [Ht _].
      destruct (nonempty name && forallb cm_valid name).
      * destruct (cm_get d name) as [v m]. intros H. apply cons_out_fuel in H. revert H. apply IH.
        rewrite Ht, app_length in Hlen. cbn [length] in Hlen. lia.
      * intros H. apply cons_out_fuel in H. revert H. apply IH. lia.
    + intros H. apply cons_out_fuel in H. revert H. apply IH. lia.
  - destruct (negb at_only && (c =? 36) && hd_is 123 t).
    + destruct (brackets 0 (tl t)) as [[inner rest]|] eqn:Eb; [|discriminate].
      pose proof (brackets_spec (length (tl t)) (tl t) (le_n _) _ _ _ Eb) as Ht.
      assert (Hl : (length inner + length rest < length t)%nat).
      { destruct t as [|c2 t2]; cbn [tl] in Ht; [destruct inner; discriminate|].
        rewrite Ht. cbn [length]. rewrite app_length. cbn [length]. lia. }
      destruct (cm_scan f at_only d inner) as [[varname m1]| | |] eqn:Ei; try discriminate.
      * destruct (forallb cm_valid varname); [|discriminate].
        destruct (cm_get d varname) as [v m]. intros H. apply cons_out_fuel in H. revert H. apply IH. lia.
      * exfalso. revert Ei. apply IH. lia.
    + intros H. apply cons_out_fuel in H. revert H. apply IH. lia.
Qed.

Theorem subst_cmake_terminates (at_only : bool) (d : conf) (line : str) :
  subst_cmake at_only d line <> OutOfFuel.
Proof. apply cm_scan_terminates. lia. Qed.

(* ------------------------------------------------------------------ the segments *)
Definition lit_ok (at_only : bool) (c : char) : bool := negb (c =? 64) && (at_only || negb (c =? 36)).

Lemma cons_out_ok o m o' m' : cons_out o m (Ok (o', m')) = Ok (o ++ o', m ++ m').
Proof. reflexivity. Qed.
Lemma cons_out_cons_out o1 m1 o2 m2 r :
  cons_out o1 m1 (cons_out o2 m2 r) = cons_out (o1 ++ o2) (m1 ++ m2) r.
Proof. destruct r as [[o m]| | |]; cbn; rewrite ?app_assoc; reflexivity. Qed.

Lemma scan_plain_char at_only d f (c : char) (t : str) :
  lit_ok at_only c = true ->
  cm_scan (S f) at_only d (c :: t) = cons_out [c] [] (cm_scan f at_only d t).
Proof.
  unfold lit_ok. intros H. apply andb_true_iff in H. destruct H as [H64 H36]. apply negb_true_iff in H64.
  cbn [cm_scan]. rewrite H64.
  destruct at_only; cbn [negb andb orb] in *; [reflexivity|].
  apply negb_true_iff in H36. rewrite H36. reflexivity.
Qed.

Lemma scan_lit at_only d (s : str) : forall fuel (rest : str),
  forallb (lit_ok at_only) s = true ->
  (length s <= fuel)%nat ->
  cm_scan fuel at_only d (s ++ rest) = cons_out s [] (cm_scan (fuel - length s) at_only d rest)
  \/ (s = [] /\ True).
Proof.
  induction s as [|c s IH]; intros fuel rest H Hlen.
  - right. split; [reflexivity|exact I].
  - left. cbn [forallb] in H. apply andb_true_iff in H. destruct H as [Hc Hs].
    destruct fuel as [|f]; [cbn in Hlen; lia|]. cbn [length] in Hlen.
    cbn [app]. rwn (scan_plain_char at_only d f c (s ++ rest) Hc).
    destruct (IH f rest Hs ltac:(lia)) as [E|[-> _]].
    + rwn E. rewrite cons_out_cons_out. cbn [app length Nat.sub]. reflexivity.
    + cbn [app length Nat.sub]. rewrite Nat.sub_0_r. reflexivity.
Qed.

Lemma scan_lit' at_only d (s : str) fuel (rest : str) :
  forallb (lit_ok at_only) s = true -> (length s <= fuel)%nat ->
  cm_scan fuel at_only d (s ++ rest) = cons_out s [] (cm_scan (fuel - length s) at_only d rest).
Proof.
  intros H Hl. destruct (scan_lit at_only d s fuel rest H Hl) as [E|[-> _]]; [exact E|].
  cbn [app length]. rewrite Nat.sub_0_r. destruct (cm_scan fuel at_only d rest) as [[o m]| | |]; reflexivity.
Qed.

Lemma valid_lit_ok at_only (v : str) : forallb cm_valid v = true -> forallb (lit_ok at_only) v = true.
Proof.
  induction v as [|c v IH]; [reflexivity|]. cbn [forallb]. intros H. apply andb_true_iff in H. destruct H as [Hc Hv].
  rewrite (IH Hv), andb_true_r. destruct (valid_not c Hc) as [H64 [H36 _]]. unfold lit_ok. rewrite H64, H36.
  destruct at_only; reflexivity.
Qed.

(* a name is its own expansion *)
Lemma scan_name at_only d (v : str) fuel :
  forallb cm_valid v = true -> (length v < fuel)%nat -> cm_scan fuel at_only d v = Ok (v, []).
Proof.
  intros H Hl. rewrite <- (app_nil_r v) at 1.
  rewrite (scan_lit' at_only d v fuel [] (valid_lit_ok at_only v H) ltac:(lia)).
  destruct (fuel - length v)%nat eqn:E; [lia|]. cbn [cm_scan cons_out]. rewrite app_nil_r. reflexivity.
Qed.

Lemma valid_no_at (v : str) : forallb cm_valid v = true -> forallb (fun c => negb (c =? 64)) v = true.
Proof.
  induction v as [|c v IH]; [reflexivity|]. cbn [forallb]. intros H. apply andb_true_iff in H. destruct H as [Hc Hv].
  destruct (valid_not c Hc) as [H64 _]. rewrite H64, (IH Hv). reflexivity.
Qed.

Lemma scan_var at_only d f (v rest : str) :
  nonempty v = true -> forallb cm_valid v = true ->
  cm_scan (S f) at_only d (64 :: v ++ 64 :: rest)
  = cons_out (fst (cm_get d v)) (snd (cm_get d v)) (cm_scan f at_only d rest).
Proof.
  intros Hne Hv. cbn [cm_scan]. change (64 =? 64) with true. cbv iota.
  rwn (find_at_app v rest (valid_no_at v Hv)). nrm. rewrite Hne, Hv. cbn [andb].
  destruct (cm_get d v); reflexivity.
Qed.

Lemma scan_brace d f (v rest : str) :
  forallb cm_valid v = true -> (length v < f)%nat ->
  cm_scan (S f) false d (36 :: 123 :: v ++ 125 :: rest)
  = cons_out (fst (cm_get d v)) (snd (cm_get d v)) (cm_scan f false d rest).
Proof.
  intros Hv Hl. cbn [cm_scan]. change (36 =? 64) with false. change (36 =? 36) with true.
  cbn [negb andb hd_is tl]. change (123 =? 123) with true. cbv iota.
  rwn (brackets_name v rest Hv). rwn (scan_name false d v f Hv Hl). nrm. rewrite Hv.
  destruct (cm_get d v); reflexivity.
Qed.

Lemma opens_var_find (t : str) : forall seen name r, find_at t = Some (name, r) ->
  opens_var t seen = (seen || nonempty name) && forallb cm_valid name.
Proof.
  induction t as [|c t IH]; intros seen name r H; cbn [find_at] in H; [discriminate|].
  cbn [opens_var]. destruct (c =? 64).
  - inversion H; subst. cbn. rewrite orb_false_r, andb_true_r. reflexivity.
  - destruct (find_at t) as [[a b]|] eqn:E; [|discriminate]. inversion H; subst.
    change (cm_name_char c) with (cm_valid c). cbn [nonempty forallb]. rewrite orb_true_r. cbn [andb].
    destruct (cm_valid c); [|reflexivity]. rewrite (IH true a r eq_refl). reflexivity.
Qed.

Lemma scan_lone_at at_only d f (t : str) :
  opens_var t false = false ->
  cm_scan (S f) at_only d (64 :: t) = cons_out [64] [] (cm_scan f at_only d t).
Proof.
  intros H. cbn [cm_scan]. change (64 =? 64) with true. cbv iota.
  destruct (find_at t) as [[name r]|] eqn:E; [|reflexivity].
  rewrite (opens_var_find t false name r E) in H. cbn [orb] in H. nrm. rewrite H. reflexivity.
Qed.

Lemma scan_lone_dollar d f (t : str) :
  hd_is 123 t = false ->
  cm_scan (S f) false d (36 :: t) = cons_out [36] [] (cm_scan f false d t).
Proof.
  intros H. cbn [cm_scan]. change (36 =? 64) with false. change (36 =? 36) with true.
  cbn [negb andb]. rewrite H. reflexivity.
Qed.

Lemma crender_all_cons g r : crender_all (g :: r) = crender g ++ crender_all r.
Proof. reflexivity. Qed.

Lemma cm_get_spec d v :
  cm_get d v = (match lookup d v with Some val => cstr val | None => [] end,
                match lookup d v with Some _ => [] | None => [v] end).
Proof. unfold cm_get. destruct (lookup d v) as [val|]; [destruct val|]; reflexivity. Qed.

(* THE segment theorem of the cmake formats: every value is inserted verbatim - never scanned
   again, nothing after it skipped - and every undefined name is reported, for ALL values *)
Theorem cmake_segments_fuel (at_only : bool) d : forall (l : list cseg) fuel,
  wf_csegs at_only l = true -> (length (crender_all l) < fuel)%nat ->
  cm_scan fuel at_only d (crender_all l) = Ok (cexpand_all d l, cmissing d l).
Proof.
  induction l as [|g r IH]; intros fuel Hwf Hlen.
  - destruct fuel; [cbn in Hlen; lia|]. reflexivity.
  - cbn [wf_csegs] in Hwf. apply andb_true_iff in Hwf. destruct Hwf as [Hg Hr].
    rewrite crender_all_cons in *. rewrite app_length in Hlen.
    destruct g as [s|v|v| |]; cbn [crender] in *.
    + (* CLit *)
      rewrite (scan_lit' at_only d s fuel (crender_all r) Hg ltac:(lia)).
      rewrite (IH (fuel - length s)%nat Hr ltac:(lia)). reflexivity.
    + (* CVar *)
      apply andb_true_iff in Hg. destruct Hg as [Hne Hv]. cbn [length] in Hlen. rewrite app_length in Hlen. cbn [length] in Hlen.
      destruct fuel as [|f]; [lia|].
      repl ((64 :: v ++ [64]) ++ crender_all r) (64 :: v ++ 64 :: crender_all r)
        ltac:(cbn [app]; rewrite <- app_assoc; reflexivity).
      rwn (scan_var at_only d f v (crender_all r) Hne Hv). rewrite (IH f Hr ltac:(lia)).
      rewrite cm_get_spec. reflexivity.
    + (* CBrace *)
      apply andb_true_iff in Hg. destruct Hg as [Hat Hv]. apply negb_true_iff in Hat. subst at_only.
      cbn [length] in Hlen. rewrite app_length in Hlen. cbn [length] in Hlen.
      destruct fuel as [|f]; [lia|].
      repl ((36 :: 123 :: v ++ [125]) ++ crender_all r) (36 :: 123 :: v ++ 125 :: crender_all r)
        ltac:(cbn [app]; rewrite <- app_assoc; reflexivity).
      rwn (scan_brace d f v (crender_all r) Hv ltac:(lia)). rewrite (IH f Hr ltac:(lia)).
      rewrite cm_get_spec. reflexivity.
    + (* CAt *)
      apply negb_true_iff in Hg. cbn [length] in Hlen. destruct fuel as [|f]; [lia|]. cbn [app].
      rwn (scan_lone_at at_only d f (crender_all r) Hg). rewrite (IH f Hr ltac:(lia)). reflexivity.
    + (* CDollar *)
      apply andb_true_iff in Hg. destruct Hg as [Hat Hh]. apply negb_true_iff in Hat. apply negb_true_iff in Hh. subst at_only.
      cbn [length] in Hlen. destruct fuel as [|f]; [lia|]. cbn [app].
      rwn (scan_lone_dollar d f (crender_all r) Hh). rewrite (IH f Hr ltac:(lia)). reflexivity.
Qed.

Theorem cmake_segments (at_only : bool) d (l : list cseg) :
  wf_csegs at_only l = true ->
  subst_cmake at_only d (crender_all l) = Ok (cexpand_all d l, cmissing d l).
Proof. intros H. apply cmake_segments_fuel; [exact H|lia]. Qed.

(* text without '@' (and, in the cmake format, without '$') is copied unchanged *)
Theorem cmake_identity_plain (at_only : bool) d (s : str) :
  forallb (fun c => negb (c =? 64) && (at_only || negb (c =? 36))) s = true ->
  subst_cmake at_only d s = Ok (s, []).
Proof.
  intros H. pose proof (cmake_segments at_only d [CLit s]) as E.
  unfold crender_all, cexpand_all, cmissing in E. cbn [map concat crender cexpand wf_csegs] in E.
  rewrite app_nil_r in E. apply E. rewrite H. reflexivity.
Qed.

(* a value that names itself is inserted once; nothing diverges *)
Example cmake_self_reference :
  subst_cmake true [(s2l "X", (VStr (s2l "q@X@"), []))] (s2l "@X@") = Ok (s2l "q@X@", []) /\
  subst_cmake false [(s2l "X", (VStr (s2l "${X}"), []))] (s2l "${X}|@X@") = Ok (s2l "${X}|${X}", []).
Proof. split; vm_compute; reflexivity. Qed.
(* the character after an empty or undefined value is not skipped *)
Example cmake_after_empty_value :
  subst_cmake false [(s2l "A", (VStr [], [])); (s2l "B", (VStr (s2l "bee"), []))] (s2l "@A@@B@${nope}${B}")
  = Ok (s2l "beebee", [s2l "nope"]).
Proof. vm_compute. reflexivity. Qed.
