(* Extraction of the C14 model.  Only the ExtrOcamlBasic directives are used. *)
From Coq Require Extraction.
From Coq Require Import ExtrOcamlBasic.
From MV Require Import Subst.Entry.
Extraction "../extract/C14/model.ml" Subst.Entry.run.
