(* Subst/ProofsHeader.v — a header generated without a template defines exactly the keys of
   the data, once each, in sorted order, each in the form of its value kind. *)
From MV Require Import Base.Strs Base.LexFacts Subst.Data Subst.Header.
From Coq Require Import Lia Arith Sorting.Permutation Sorting.Sorted.
Open Scope N_scope.

(* ------------------------------------------------------------------ sorting *)
Inductive str_le (a b : str) : Prop := str_le_intro : str_leb a b = true -> str_le a b.
Inductive str_lt (a b : str) : Prop := str_lt_intro : str_cmp a b = Lt -> str_lt a b.

Lemma str_leb_total a b : str_leb a b = true \/ str_leb b a = true.
Proof.
  unfold str_leb. rewrite (str_cmp_antisym a b). destruct (str_cmp a b); cbn; auto.
Qed.
Lemma str_leb_trans a b c : str_leb a b = true -> str_leb b c = true -> str_leb a c = true.
Proof.
  unfold str_leb. intros H1 H2.
  destruct (str_cmp a b) eqn:E1; try discriminate; destruct (str_cmp b c) eqn:E2; try discriminate.
  - apply str_cmp_eq in E1. apply str_cmp_eq in E2. subst. rewrite str_cmp_refl. reflexivity.
  - apply str_cmp_eq in E1. subst. rewrite E2. reflexivity.
  - apply str_cmp_eq in E2. subst. rewrite E1. reflexivity.
  - rewrite (str_cmp_trans _ _ _ E1 E2). reflexivity.
Qed.

Lemma insert_perm x l : Permutation (x :: l) (insert_str x l).
Proof.
  induction l as [|y r IH]; cbn [insert_str]; [apply Permutation_refl|].
  destruct (str_leb x y); [apply Permutation_refl|].
  eapply Permutation_trans; [apply perm_swap|]. apply perm_skip. exact IH.
Qed.
Lemma sort_perm l : Permutation l (sort_strs l).
Proof.
  induction l as [|x r IH]; [apply Permutation_refl|]. cbn [sort_strs fold_right].
  eapply Permutation_trans; [apply perm_skip; exact IH|]. apply insert_perm.
Qed.

Lemma insert_sorted x l : StronglySorted str_le l -> StronglySorted str_le (insert_str x l).
Proof.
  induction l as [|y r IH]; intros Hs; cbn [insert_str].
  - constructor; constructor.
  - inversion Hs as [|? ? Hr Hy]; subst. destruct (str_leb x y) eqn:E.
    + constructor; [exact Hs|]. constructor; [constructor; exact E|].
      rewrite Forall_forall in *. intros z Hz. constructor. destruct (Hy z Hz) as [Hyz]. eapply str_leb_trans; eassumption.
    + constructor; [apply IH; exact Hr|].
      assert (Hyx : str_leb y x = true) by (destruct (str_leb_total x y) as [H|H]; [congruence|exact H]).
      rewrite Forall_forall in *. intros z Hz.
      apply (Permutation_in _ (Permutation_sym (insert_perm x r))) in Hz. destruct Hz as [<-|Hz].
      * constructor. exact Hyx.
      * apply Hy. exact Hz.
Qed.
Lemma sort_sorted l : StronglySorted str_le (sort_strs l).
Proof.
  induction l as [|x r IH]; [constructor|]. cbn [sort_strs fold_right]. apply insert_sorted. exact IH.
Qed.

(* with pairwise different strings the order is strict *)
Lemma sorted_strict l : NoDup l -> StronglySorted str_le l -> StronglySorted str_lt l.
Proof.
  induction l as [|x r IH]; intros Hn Hs; [constructor|].
  inversion Hn as [|? ? Hx Hr]; subst. inversion Hs as [|? ? Hsr Hall]; subst.
  constructor; [apply IH; assumption|].
  rewrite Forall_forall in *. intros z Hz. destruct (Hall z Hz) as [Hle]. constructor.
  unfold str_leb in Hle. destruct (str_cmp x z) eqn:E; [|reflexivity|discriminate].
  apply str_cmp_eq in E. subst. contradiction.
Qed.

Theorem sorted_keys_spec (d : conf) :
  NoDup (keys d) ->
  Permutation (keys d) (sorted_keys d) /\ StronglySorted str_lt (sorted_keys d) /\ NoDup (sorted_keys d).
Proof.
  intros Hn. unfold sorted_keys. pose proof (sort_perm (keys d)) as P.
  assert (Hn' : NoDup (sort_strs (keys d))) by (eapply Permutation_NoDup; eassumption).
  split; [exact P|]. split; [|exact Hn']. apply sorted_strict; [exact Hn'|apply sort_sorted].
Qed.

(* ------------------------------------------------------------------ the header *)
Lemma lookup_entry_in (d : conf) k vd :
  NoDup (keys d) -> In (k, vd) d -> lookup_entry d k = Some vd.
Proof.
  induction d as [|[k' vd'] r IH]; intros Hn Hin; [destruct Hin|].
  cbn [keys map fst] in Hn. inversion Hn as [|? ? Hk Hr]; subst. cbn [lookup_entry].
  destruct Hin as [E|Hin].
  - inversion E; subst. rewrite str_eqb_refl. reflexivity.
  - destruct (str_eqb k k') eqn:E; [|apply IH; assumption].
    apply str_eqb_eq in E. subst. exfalso. apply Hk. change k' with (fst (k', vd)). apply in_map. exact Hin.
Qed.

Definition entry_text (f : hfmt) (e : entry) : str :=
  header_entry f (fst e) (fst (snd e)) (snd (snd e)).

Lemma header_key_entry f (d : conf) (e : entry) :
  NoDup (keys d) -> In e d -> header_key f d (fst e) = entry_text f e.
Proof.
  intros Hn Hin. destruct e as [k [v desc]]. unfold header_key, entry_text. cbn [fst snd].
  rewrite (lookup_entry_in d k (v, desc) Hn Hin). reflexivity.
Qed.

(* entries of d ordered like a list of keys *)
Fixpoint pick (d : conf) (ks : list str) : list entry :=
  match ks with
  | [] => []
  | k :: r => match lookup_entry d k with Some vd => (k, vd) :: pick d r | None => pick d r end
  end.

Lemma pick_keys (d : conf) ks : (forall k, In k ks -> In k (keys d)) -> map fst (pick d ks) = ks.
Proof.
  induction ks as [|k r IH]; intros H; [reflexivity|]. cbn [pick].
  assert (Hk : In k (keys d)) by (apply H; left; reflexivity).
  destruct (lookup_entry d k) as [vd|] eqn:E.
  - cbn [map fst]. f_equal. apply IH. intros k0 H0. apply H. right. exact H0.
  - exfalso. clear -Hk E. induction d as [|[k' vd'] d IH]; [destruct Hk|].
    cbn [lookup_entry] in E. destruct (str_eqb k k') eqn:E2; [discriminate|].
    destruct Hk as [Hk|Hk]; [cbn in Hk; subst; rewrite str_eqb_refl in E2; discriminate|]. apply IH; assumption.
Qed.

Lemma lookup_entry_some_in (d : conf) k vd : lookup_entry d k = Some vd -> In (k, vd) d.
Proof.
  induction d as [|[k' vd'] r IH]; cbn [lookup_entry]; [discriminate|].
  destruct (str_eqb k k') eqn:E.
  - apply str_eqb_eq in E. subst. intros H. inversion H; subst. left. reflexivity.
  - intros H. right. apply IH. exact H.
Qed.

Lemma pick_in (d : conf) ks e : In e (pick d ks) -> In e d.
Proof.
  induction ks as [|k r IH]; cbn [pick]; [intros []|].
  destruct (lookup_entry d k) as [vd|] eqn:E; [|exact IH].
  intros [<-|H]; [apply lookup_entry_some_in; exact E|apply IH; exact H].
Qed.

Lemma NoDup_map_fst_perm (a b : list entry) :
  NoDup (map fst a) -> NoDup (map fst b) -> (forall e, In e a -> In e b) -> length a = length b -> Permutation a b.
Proof.
  intros Ha Hb Hin Hlen. apply NoDup_Permutation_bis.
  - clear -Ha. induction a as [|e a IH]; [constructor|]. cbn [map] in Ha. inversion Ha; subst.
    constructor; [|apply IH; assumption]. intros H. apply H1. apply in_map. exact H.
  - rewrite Hlen. apply Nat.le_refl.
  - exact Hin.
Qed.

(* THE header theorem: prelude, then exactly one entry per item of the data - a permutation
   of the data - in strictly increasing key order, then the epilogue *)
Theorem header_exact (f : hfmt) (macro : str) (d : conf) :
  NoDup (keys d) ->
  exists es : list entry,
    Permutation es d /\ StronglySorted str_lt (map fst es) /\
    dump_header f macro d = prelude f macro ++ concat (map (entry_text f) es) ++ epilogue f macro.
Proof.
  intros Hn. destruct (sorted_keys_spec d Hn) as [P [S N]].
  exists (pick d (sorted_keys d)).
  assert (Hk : forall k, In k (sorted_keys d) -> In k (keys d)).
  { intros k H. eapply Permutation_in; [apply Permutation_sym; exact P|exact H]. }
  assert (Hf : map fst (pick d (sorted_keys d)) = sorted_keys d) by (apply pick_keys; exact Hk).
  split; [|split].
  - apply NoDup_map_fst_perm.
    + rewrite Hf. exact N.
    + exact Hn.
    + intros e. apply pick_in.
    + transitivity (length (map fst (pick d (sorted_keys d)))); [symmetry; apply map_length|].
      rewrite Hf. rewrite <- (Permutation_length P). unfold keys. apply map_length.
  - rewrite Hf. exact S.
  - unfold dump_header. f_equal. f_equal. f_equal.
    rewrite <- Hf at 1. rewrite map_map. apply map_ext_in. intros e He.
    apply header_key_entry; [exact Hn|]. eapply pick_in. exact He.
Qed.

(* the form of one entry, by the kind of its value (the optional description comment first) *)
Theorem header_entry_forms (f : hfmt) (k : str) (v : value) :
  header_entry f k v [] =
  match v with
  | VBool true => hprefix f :: s2l "define " ++ k ++ [10; 10]
  | VBool false => hprefix f :: s2l "undef " ++ k ++ [10; 10]
  | VInt z => hprefix f :: s2l "define " ++ k ++ [32] ++ Z_dec z ++ [10; 10]
  | VStr s => hprefix f :: s2l "define " ++ k ++ [32] ++ s ++ [10; 10]
  end.
Proof. destruct v as [s|z|[|]]; reflexivity. Qed.
Theorem header_entry_desc (f : hfmt) (k : str) (v : value) (desc : str) :
  desc <> [] -> header_entry f k v desc = format_desc f desc ++ header_entry f k v [].
Proof. intros H. unfold header_entry. destruct desc; [congruence|reflexivity]. Qed.

(* ------------------------------------------------------------------ the include guard / the formats *)
(* output_format 'c' with a macro_name: the entries stand between "#ifndef M / #define M" and "#endif";
   without: "#pragma once" and nothing after the entries; nasm: its own prelude, no guard *)
Theorem header_guard_c (macro : str) (d : conf) :
  macro <> [] ->
  dump_header HC macro d
  = c_prelude (s2l "#ifndef " ++ macro ++ [10] ++ s2l "#define " ++ macro)
    ++ concat (map (header_key HC d) (sorted_keys d)) ++ s2l "#endif" ++ [10].
Proof. intros H. unfold dump_header, prelude, epilogue. destruct macro; [congruence|reflexivity]. Qed.
Theorem header_pragma_once (d : conf) :
  dump_header HC [] d = c_prelude (s2l "#pragma once") ++ concat (map (header_key HC d) (sorted_keys d)).
Proof. unfold dump_header, prelude, epilogue. rewrite app_nil_r. reflexivity. Qed.
Theorem header_nasm_no_guard (macro : str) (d : conf) :
  dump_header HNasm macro d = nasm_prelude ++ concat (map (header_key HNasm d) (sorted_keys d)).
Proof. unfold dump_header, prelude, epilogue. destruct macro; rewrite app_nil_r; reflexivity. Qed.

(* ------------------------------------------------------------------ output_format 'json' *)
Definition json_entry (e : entry) : str := json_item (fst e) (fst (snd e)).

(* one JSON object holding exactly the items of the data (a permutation of them), once each, keys
   strictly increasing, separated by ", " *)
Theorem json_exact (d : conf) :
  NoDup (keys d) ->
  exists es : list entry,
    Permutation es d /\ StronglySorted str_lt (map fst es) /\
    dump_json d = 123 :: join [44; 32] (map json_entry es) ++ [125].
Proof.
  intros Hn. destruct (sorted_keys_spec d Hn) as [P [S N]].
  exists (pick d (sorted_keys d)).
  assert (Hk : forall k, In k (sorted_keys d) -> In k (keys d)).
  { intros k H. eapply Permutation_in; [apply Permutation_sym; exact P|exact H]. }
  assert (Hf : map fst (pick d (sorted_keys d)) = sorted_keys d) by (apply pick_keys; exact Hk).
  split; [|split].
  - apply NoDup_map_fst_perm.
    + rewrite Hf. exact N.
    + exact Hn.
    + intros e. apply pick_in.
    + transitivity (length (map fst (pick d (sorted_keys d)))); [symmetry; apply map_length|].
      rewrite Hf. rewrite <- (Permutation_length P). unfold keys. apply map_length.
  - rewrite Hf. exact S.
  - unfold dump_json. f_equal. f_equal. f_equal.
    rewrite <- Hf at 1. rewrite map_map. apply map_ext_in. intros e He.
    destruct e as [k [v desc]]. unfold json_key, json_entry. cbn [fst snd].
    rewrite (lookup_entry_in d k (v, desc) Hn (pick_in d _ _ He)). reflexivity.
Qed.

(* the text of a JSON string never contains a raw quote, backslash-free quote or a non-ASCII /
   control character: every character is escaped as json.encoder does *)
Definition printable (x : char) : bool := (32 <=? x) && (x <=? 126).
Lemma hex_digit_printable n : n < 16 -> printable (hex_digit n) = true.
Proof.
  intros H. unfold hex_digit, printable. destruct (n <? 10) eqn:E.
  - apply N.ltb_lt in E. apply andb_true_iff. split; apply N.leb_le; lia.
  - apply N.ltb_ge in E. apply andb_true_iff. split; apply N.leb_le; lia.
Qed.
Lemma hex4_printable n : forallb printable (hex4 n) = true.
Proof.
  unfold hex4. cbn [forallb].
  rewrite !hex_digit_printable by (apply N.mod_upper_bound; discriminate). reflexivity.
Qed.
(* a JSON string is printable ASCII only: every other character is escaped as json.encoder does *)
Lemma json_char_printable (c : char) : forallb printable (json_char c) = true.
Proof.
  unfold json_char.
  destruct (c =? 92); [reflexivity|]. destruct (c =? 34); [reflexivity|].
  destruct ((32 <=? c) && (c <=? 126)) eqn:E; [cbn [forallb]; unfold printable; rewrite E; reflexivity|].
  destruct (c =? 10); [reflexivity|]. destruct (c =? 13); [reflexivity|]. destruct (c =? 9); [reflexivity|].
  destruct (c =? 8); [reflexivity|]. destruct (c =? 12); [reflexivity|].
  destruct (c <? 65536).
  - cbn [forallb]. rewrite hex4_printable. reflexivity.
  - cbn [forallb]. rewrite forallb_app. cbn [forallb]. rewrite !hex4_printable. reflexivity.
Qed.
Theorem json_str_printable (s : str) : forallb printable (json_str s) = true.
Proof.
  unfold json_str. cbn [forallb]. rewrite forallb_app. cbn [forallb]. rewrite andb_true_r.
  change (printable 34) with true. cbn [andb].
  induction s as [|c s IH]; [reflexivity|]. cbn [map concat]. rewrite forallb_app, json_char_printable, IH. reflexivity.
Qed.
