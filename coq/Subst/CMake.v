(* Subst/CMake.v — the 'cmake' and 'cmake@' variable formats:
     do_replacement_cmake / parse_line    mesonbuild/utils/universal.py:1504-1589
   parse_line is an index machine over a line that it rewrites in place:
       index = 0
       while len(line) > index:
           if line[index] == '@': ... line = line[:index] + value + line[next_at+1:]
           elif not at_only and line[index:index+2] == '${': ...
                                    line = line[:index] + value + line[end_bracket:]
           index += 1
   This model is of the behaviour WITH pending/C14-cmake-splice-advance.diff applied:
   after a splice the index moves past the inserted value (index += len(value);
   continue).  Then the part of the line in front of the index is finished output,
   the part from the index on is untouched template text, and the machine is the
   recursive function [cm_scan] on that remaining text.  (Without the patch the
   index advances by ONE after a splice, so the first character after an empty value
   is skipped, the tail of a non-empty value is scanned again, and a value that
   contains its own placeholder makes the loop run forever - see pending/.)
   Recursion on the text inside ${...} is by fuel; Proofs shows fuel = length + 1
   is always enough.
   Model file: definitions only, no proofs. *)
From MV Require Import Base.Strs Subst.Data.
Open Scope N_scope.

(* not matched by character_regex = [^a-zA-Z0-9_/.+\-]   (universal.py:1508-1510) *)
Definition cm_valid (c : char) : bool :=
  is_alnum c || (c =? 95) || (c =? 47) || (c =? 46) || (c =? 43) || (c =? 45).

(* line.find("@", index+1): text before the next '@', text after it *)
Fixpoint find_at (s : str) : option (str * str) :=
  match s with
  | [] => None
  | c :: r =>
      if c =? 64 then Some ([], r)
      else match find_at r with Some (a, b) => Some (c :: a, b) | None => None end
  end.

(* variable_get (universal.py:1512-1528) *)
Definition cm_str (v : value) : str :=
  match v with
  | VStr s => s
  | VBool b => if b then [49] else [48]          (* str(int(var)) *)
  | VInt z => Z_dec z
  end.
Definition cm_get (d : conf) (v : str) : str * list str :=
  match lookup d v with
  | Some val => (cm_str val, [])
  | None => ([], [v])
  end.

(* The bracket matcher (universal.py:1546-1570), started after "${" with
   bracket_count = 1 + cnt.  Some (inner, rest): inner is the text up to the closing
   brace of the outermost variable, rest what follows it.  None: MesonException
   (invalid character, or IndexError = "incomplete variable"). *)
Fixpoint brackets (cnt : nat) (s : str) : option (str * str) :=
  match s with
  | [] => None                                        (* line[end_bracket] -> IndexError *)
  | c :: r =>
      if (c =? 36) && hd_is 123 r then                (* "${" : end_bracket += 2, count += 1 *)
        match r with
        | c2 :: r2 =>
            match brackets (S cnt) r2 with
            | Some (i, rest) => Some (c :: c2 :: i, rest)
            | None => None
            end
        | [] => None
        end
      else if c =? 125 then                           (* "}" *)
        match cnt with
        | O => Some ([], r)
        | S cnt' =>
            match brackets cnt' r with
            | Some (i, rest) => Some (c :: i, rest)
            | None => None
            end
        end
      else if (c =? 64) || (c =? 10) || cm_valid c then   (* '@', '\n', or a valid character *)
        match brackets cnt r with
        | Some (i, rest) => Some (c :: i, rest)
        | None => None
        end
      else None                                       (* Found invalid character *)
  end.

Definition cons_out (o : str) (m : list str) (r : result (str * list str)) : result (str * list str) :=
  match r with
  | Ok (o', m') => Ok (o ++ o', m ++ m')
  | e => e
  end.

Fixpoint cm_scan (fuel : nat) (at_only : bool) (d : conf) (s : str) : result (str * list str) :=
  match fuel with
  | O => OutOfFuel
  | S f =>
      match s with
      | [] => Ok ([], [])
      | c :: t =>
          if c =? 64 then
            (* universal.py:1533-1543 *)
            match find_at t with
            | Some (name, rest) =>
                if nonempty name && forallb cm_valid name then
                  let '(v, m) := cm_get d name in cons_out v m (cm_scan f at_only d rest)
                else cons_out [c] [] (cm_scan f at_only d t)
            | None => cons_out [c] [] (cm_scan f at_only d t)
            end
          else if negb at_only && (c =? 36) && hd_is 123 t then
            (* universal.py:1545-1583 *)
            match brackets 0 (tl t) with
            | None => MesonErr
            | Some (inner, rest) =>
                match cm_scan f at_only d inner with
                | Ok (varname, m1) =>
                    if forallb cm_valid varname then
                      let '(v, m) := cm_get d varname in
                      cons_out v (m1 ++ m) (cm_scan f at_only d rest)
                    else MesonErr
                | e => e
                end
            end
          else cons_out [c] [] (cm_scan f at_only d t)
      end
  end.

(* do_replacement_cmake(line, at_only, confdata) *)
Definition subst_cmake (at_only : bool) (d : conf) (line : str) : result (str * list str) :=
  cm_scan (S (length line)) at_only d line.
