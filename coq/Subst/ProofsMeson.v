(* Subst/ProofsMeson.v — the meson format: the scanner of Meson.v realises the segment
   semantics of Spec.v (exact replacement, values verbatim and never rescanned, undefined
   names reported exactly, everything else copied). *)
From MV Require Import Base.Strs Base.LexFacts Subst.Data Subst.Meson Subst.Spec.
From Coq Require Import Lia Arith.
Open Scope N_scope.

(* ------------------------------------------------------------------ generic *)
Definition app2 (x y : str * list str) : str * list str := (fst x ++ fst y, snd x ++ snd y).

Lemma app2_nil_l y : app2 ([], []) y = y.
Proof. destruct y; reflexivity. Qed.
Lemma app2_assoc x y z : app2 x (app2 y z) = app2 (app2 x y) z.
Proof. unfold app2; cbn [fst snd]. rewrite !app_assoc. reflexivity. Qed.

(* rewrite modulo the synonyms char = N, str = list N (numerals elaborate to N) *)
Ltac rwn H := let E := fresh "E" in pose proof H as E; unfold str, char in E |- *; rewrite E; clear E.
Ltac repl X Y tac := let E := fresh "E" in assert (E : X = Y) by tac; unfold str, char in E |- *; rewrite E; clear E.
Ltac rwn_by H tac := let E := fresh "E" in pose proof H as E; unfold str, char in E |- *; rewrite E by tac; clear E.

Lemma span_stop p v c rest :
  forallb p v = true -> p c = false -> span p (v ++ c :: rest) = (v, c :: rest).
Proof.
  induction v as [|x v IH]; intros Hv Hc; cbn [app span].
  - rewrite Hc. reflexivity.
  - cbn [forallb] in Hv. apply andb_true_iff in Hv. destruct Hv as [Hx Hv].
    rewrite Hx, (IH Hv Hc). reflexivity.
Qed.
Lemma span_all p v : forallb p v = true -> span p v = (v, []).
Proof.
  induction v as [|x v IH]; intros Hv; cbn [span]; [reflexivity|].
  cbn [forallb] in Hv. apply andb_true_iff in Hv. destruct Hv as [Hx Hv].
  rewrite Hx, (IH Hv). reflexivity.
Qed.
(* span returns a maximal prefix *)
Lemma span_spec p s : forall v r, span p s = (v, r) ->
  s = v ++ r /\ forallb p v = true /\ (match r with c :: _ => p c = false | [] => True end).
Proof.
  induction s as [|c s IH]; intros v r H; cbn [span] in H.
  - inversion H; subst. repeat split.
  - destruct (p c) eqn:Hc.
    + destruct (span p s) as [a b] eqn:E. inversion H; subst.
      destruct (IH a r eq_refl) as [H1 [H2 H3]]. subst s. repeat split; auto.
      cbn [forallb]. rewrite Hc, H2. reflexivity.
    + inversion H; subst. repeat split; auto.
Qed.

Lemma skipn_repeat_app {A} (x : A) n m rest :
  (m <= n)%nat -> skipn m (repeat x n ++ rest) = repeat x (n - m) ++ rest.
Proof.
  revert n; induction m as [|m IH]; intros n Hle.
  - rewrite Nat.sub_0_r. reflexivity.
  - destruct n as [|n]; [lia|]. cbn [repeat app skipn]. rewrite IH by lia. reflexivity.
Qed.

Lemma prefixb1 a r : prefixb [a] r = hd_is a r.
Proof. destruct r as [|x r]; cbn; [reflexivity|]. rewrite N.eqb_sym, andb_true_r. reflexivity. Qed.
Lemma prefixb2 a b r : prefixb [a; b] r = hd_is a r && hd_is b (tl r).
Proof.
  destruct r as [|x r]; cbn; [reflexivity|]. rewrite (N.eqb_sym a x). f_equal.
  destruct r as [|y r]; cbn; [reflexivity|]. rewrite N.eqb_sym, andb_true_r. reflexivity.
Qed.

(* ------------------------------------------------------------------ characters *)
Lemma name_char_not_at c : name_char c = true -> (c =? 64) = false.
Proof.
  unfold name_char, is_alnum, is_alpha, is_lower, is_upper, is_digit. intros H.
  apply N.eqb_neq. intros ->. vm_compute in H. discriminate.
Qed.
Lemma name_char_not_bs c : name_char c = true -> (c =? 92) = false.
Proof.
  unfold name_char. intros H. apply N.eqb_neq. intros ->. vm_compute in H. discriminate.
Qed.
Lemma not_name_at : is_name_char 64 = false. Proof. reflexivity. Qed.
Lemma not_name_bs : is_name_char 92 = false. Proof. reflexivity. Qed.

Lemma plain_char_spec c : plain_char c = true -> (c =? 64) = false /\ (c =? 92) = false.
Proof.
  unfold plain_char. intros H. apply andb_true_iff in H. destruct H as [H1 H2].
  apply negb_true_iff in H1. apply negb_true_iff in H2. auto.
Qed.

(* ------------------------------------------------------------------ count_bs *)
Lemma count_bs_repeat n (rest : str) : count_bs (repeat 92 n ++ rest) = (n + count_bs rest)%nat.
Proof. induction n as [|n IH]; cbn [repeat app count_bs]; [reflexivity|]. rewrite N.eqb_refl, IH. reflexivity. Qed.
Lemma count_bs_nobs (rest : str) : hd_is 92 rest = false -> count_bs rest = O.
Proof. destruct rest as [|c r]; cbn; [reflexivity|]. intros ->. reflexivity. Qed.

(* ------------------------------------------------------------------ one step of scan *)
Lemma scan_match_step d pb (c : char) (t : str) kind len :
  match_at pb (c :: t) = Some (kind, len) ->
  scan d pb 0 (c :: t) = app2 (replacement d kind) (scan d (c =? 92) (pred len) t).
Proof.
  intros H. cbn [scan]. rewrite H.
  destruct (scan d (c =? 92) (pred len) t) as [o m]. destruct (replacement d kind) as [r mm].
  reflexivity.
Qed.
Lemma scan_nomatch_step d pb (c : char) (t : str) :
  match_at pb (c :: t) = None ->
  scan d pb 0 (c :: t) = app2 ([c], []) (scan d (c =? 92) 0 t).
Proof.
  intros H. cbn [scan]. rewrite H. destruct (scan d (c =? 92) 0 t) as [o m]. reflexivity.
Qed.

Definition last_bs (pb : bool) (a : str) : bool := fold_left (fun _ c => c =? 92) a pb.
Lemma scan_skip d a : forall pb rest,
  scan d pb (length a) (a ++ rest) = scan d (last_bs pb a) 0 rest.
Proof.
  induction a as [|c a IH]; intros pb rest; [reflexivity|].
  cbn [length app scan last_bs fold_left]. apply IH.
Qed.
Lemma scan_skip_eq d a n : forall pb rest, n = length a ->
  scan d pb n (a ++ rest) = scan d (last_bs pb a) 0 rest.
Proof. intros pb rest ->. apply scan_skip. Qed.
Lemma last_bs_app pb a (c : char) : last_bs pb (a ++ [c]) = (c =? 92).
Proof. unfold last_bs. rewrite fold_left_app. reflexivity. Qed.
Lemma last_bs_repeat pb n : last_bs pb (repeat 92 n) = match n with O => pb | _ => true end.
Proof.
  revert pb; induction n as [|n IH]; intros pb; [reflexivity|].
  cbn [repeat]. unfold last_bs in *. cbn [fold_left]. rewrite IH. destruct n; reflexivity.
Qed.

(* ------------------------------------------------------------------ match_at on each shape *)
Lemma match_at_plain pb (c : char) (t : str) : plain_char c = true -> match_at pb (c :: t) = None.
Proof.
  intros H. destruct (plain_char_spec c H) as [H1 H2].
  unfold match_at. cbn [count_bs]. rewrite H2. cbn [Nat.div2 Nat.eqb negb andb]. rewrite H1. reflexivity.
Qed.

Lemma match_at_blocked (t : str) : match_at true (64 :: t) = None.
Proof. reflexivity. Qed.

Lemma match_at_var (v : str) (rest : str) :
  is_name v = true ->
  match_at false (64 :: v ++ 64 :: rest) = Some (KVar v, (2 + length v)%nat).
Proof.
  unfold is_name. intros H. apply andb_true_iff in H. destruct H as [Hne Hv].
  unfold match_at. cbn [count_bs]. change (64 =? 92) with false. cbn [Nat.div2 Nat.eqb negb andb].
  change (64 =? 64) with true. cbv iota.
  pose proof (span_stop is_name_char v 64 rest Hv not_name_at) as E. unfold str, char in *. rewrite E, Hne. reflexivity.
Qed.

Lemma match_at_lone_at (t : str) :
  starts_name_then [64] t = false -> match_at false (64 :: t) = None.
Proof.
  unfold starts_name_then. intros H.
  unfold match_at. cbn [count_bs]. change (64 =? 92) with false. cbn [Nat.div2 Nat.eqb negb andb].
  change (64 =? 64) with true. cbv iota.
  change is_name_char with name_char.
  destruct (span name_char t) as [v r]. rewrite prefixb1 in H. rewrite H. reflexivity.
Qed.

(* a single backslash before '@' that does not open \@name\@ *)
Lemma match_at_bs1_none pb (rest : str) :
  starts_name_then [92; 64] rest = false -> match_at pb (92 :: 64 :: rest) = None.
Proof.
  unfold starts_name_then. intros H.
  unfold match_at. cbn [count_bs]. change (92 =? 92) with true. change (64 =? 92) with false.
  cbn [Nat.div2 Nat.eqb negb andb]. change (92 =? 64) with false. change (64 =? 64) with true. cbv iota.
  change is_name_char with name_char.
  destruct (span name_char rest) as [v r]. rewrite prefixb2 in H. rewrite <- andb_assoc, H. reflexivity.
Qed.

Lemma match_at_esc pb (v : str) (rest : str) :
  is_name v = true ->
  match_at pb (92 :: 64 :: v ++ 92 :: 64 :: rest) = Some (KEsc v, (4 + length v)%nat).
Proof.
  unfold is_name. intros H. apply andb_true_iff in H. destruct H as [Hne Hv].
  unfold match_at. cbn [count_bs]. change (92 =? 92) with true. change (64 =? 92) with false.
  cbn [Nat.div2 Nat.eqb negb andb]. change (92 =? 64) with false. change (64 =? 64) with true. cbv iota.
  pose proof (span_stop is_name_char v 92 (64 :: rest) Hv not_name_bs) as E. unfold str, char in *. rewrite E, Hne. reflexivity.
Qed.

(* k >= 1 pairs of backslashes in front of '@' or '\@' *)
Lemma div2_double_plus k j : (j <= 1)%nat -> Nat.div2 (2 * k + j) = k.
Proof.
  intros Hj. destruct j as [|[|j]]; try lia.
  - rewrite Nat.add_0_r. apply Nat.div2_double.
  - replace (2 * k + 1)%nat with (S (2 * k)) by lia. apply Nat.div2_succ_double.
Qed.

Lemma match_at_pairs pb k (tail : str) :
  (1 <= k)%nat -> (count_bs tail <= 1)%nat -> look_at tail = true ->
  match_at pb (repeat 92 (2 * k) ++ tail) = Some (KBs k, (2 * k)%nat).
Proof.
  intros Hk Hc Hl. unfold match_at.
  rewrite count_bs_repeat, (div2_double_plus k _ Hc).
  rewrite skipn_repeat_app by lia. rewrite Nat.sub_diag. cbn [repeat app]. rewrite Hl.
  destruct k; [lia|]. reflexivity.
Qed.

Lemma scan_pairs d pb k (tail : str) :
  (1 <= k)%nat -> (count_bs tail <= 1)%nat -> look_at tail = true ->
  scan d pb 0 (repeat 92 (2 * k) ++ tail) = app2 (repeat 92 k, []) (scan d true 0 tail).
Proof.
  intros Hk Hc Hl.
  pose proof (match_at_pairs pb k tail Hk Hc Hl) as HM.
  remember (2 * k)%nat as n eqn:En. destruct n as [|m]; [lia|].
  cbn [repeat app] in *. unfold str, char in *.
  rwn (scan_match_step d pb 92 _ _ _ HM). cbn [replacement pred].
  rwn_by (scan_skip_eq d (repeat 92 m) m (92 =? 92) tail) ltac:(rewrite repeat_length; reflexivity).
  rwn (last_bs_repeat (92 =? 92) m). change (92 =? 92) with true.
  destruct m; reflexivity.
Qed.

(* ------------------------------------------------------------------ the segments *)
Lemma scan_lit d (s : str) : forall pb (rest : str),
  forallb plain_char s = true ->
  scan d pb 0 (s ++ rest) = app2 (s, []) (scan d (match s with [] => pb | _ => false end) 0 rest).
Proof.
  induction s as [|c s IH]; intros pb rest H.
  - cbn [app]. rewrite app2_nil_l. reflexivity.
  - cbn [forallb] in H. apply andb_true_iff in H. destruct H as [Hc Hs].
    cbn [app]. rwn (scan_nomatch_step d pb c (s ++ rest) (match_at_plain pb c _ Hc)).
    destruct (plain_char_spec c Hc) as [_ H92]. rewrite H92. rwn (IH false rest Hs).
    rewrite app2_assoc. unfold app2; cbn [fst snd app]. destruct s; reflexivity.
Qed.

Lemma scan_var d (v rest : str) :
  is_name v = true ->
  scan d false 0 (64 :: v ++ 64 :: rest) = app2 (replacement d (KVar v)) (scan d false 0 rest).
Proof.
  intros H. rwn (scan_match_step d false 64 _ _ _ (match_at_var v rest H)).
  f_equal. repl (v ++ 64 :: rest) ((v ++ [64]) ++ rest) ltac:(rewrite <- app_assoc; reflexivity).
  rwn_by (scan_skip_eq d (v ++ [64]) (pred (2 + length v)) (64 =? 92) rest) ltac:(rewrite app_length; cbn; lia).
  rwn (last_bs_app (64 =? 92) v 64). reflexivity.
Qed.

Lemma scan_at_blocked d (t : str) : scan d true 0 (64 :: t) = app2 ([64], []) (scan d false 0 t).
Proof. apply (scan_nomatch_step d true 64 t (match_at_blocked t)). Qed.

Lemma scan_lone_at d (t : str) :
  starts_name_then [64] t = false -> scan d false 0 (64 :: t) = app2 ([64], []) (scan d false 0 t).
Proof. intros H. apply (scan_nomatch_step d false 64 t (match_at_lone_at t H)). Qed.

Lemma scan_esc1 d pb (v rest : str) :
  is_name v = true ->
  scan d pb 0 (92 :: 64 :: v ++ 92 :: 64 :: rest) = app2 (64 :: v ++ [64], []) (scan d false 0 rest).
Proof.
  intros H. rwn (scan_match_step d pb 92 _ _ _ (match_at_esc pb v rest H)). cbn [replacement].
  f_equal.
  repl (64 :: v ++ 92 :: 64 :: rest) (((64 :: v ++ [92]) ++ [64]) ++ rest)
    ltac:(cbn [app]; rewrite <- !app_assoc; reflexivity).
  rwn_by (scan_skip_eq d ((64 :: v ++ [92]) ++ [64]) (pred (4 + length v)) (92 =? 92) rest)
         ltac:(cbn [length app]; rewrite !app_length; cbn; lia).
  rwn (last_bs_app (92 =? 92) (64 :: v ++ [92]) 64). reflexivity.
Qed.

Lemma scan_bs1_at d pb (rest : str) :
  starts_name_then [92; 64] rest = false ->
  scan d pb 0 (92 :: 64 :: rest) = app2 ([92; 64], []) (scan d false 0 rest).
Proof.
  intros H. rwn (scan_nomatch_step d pb 92 _ (match_at_bs1_none pb rest H)).
  change (92 =? 92) with true. rwn (scan_at_blocked d rest). rewrite app2_assoc. reflexivity.
Qed.

Lemma scan_esc d pb k (v rest : str) :
  is_name v = true ->
  scan d pb 0 (repeat 92 (2 * k + 1) ++ 64 :: v ++ 92 :: 64 :: rest)
  = app2 (repeat 92 k ++ 64 :: v ++ [64], []) (scan d false 0 rest).
Proof.
  intros H. rewrite repeat_app. rewrite <- app_assoc. cbn [repeat app].
  destruct k as [|k].
  - cbn [repeat Nat.mul app]. apply scan_esc1. exact H.
  - rwn_by (scan_pairs d pb (S k) (92 :: 64 :: v ++ 92 :: 64 :: rest)) ltac:(first [lia | cbn; lia | reflexivity]).
    rwn (scan_esc1 d true v rest H). rewrite app2_assoc. reflexivity.
Qed.

Lemma scan_bsat d pb n (rest : str) :
  n <> O -> (Nat.even n = true \/ starts_name_then [92; 64] rest = false) ->
  scan d pb 0 (repeat 92 n ++ 64 :: rest)
  = app2 (repeat 92 (Nat.div2 n + (if Nat.even n then 0 else 1)) ++ [64], []) (scan d false 0 rest).
Proof.
  intros Hn Hw.
  destruct (Nat.even n) eqn:Ev.
  - apply Nat.even_spec in Ev. destruct Ev as [k ->]. rewrite Nat.div2_double, Nat.add_0_r.
    rwn_by (scan_pairs d pb k (64 :: rest)) ltac:(first [lia | cbn; lia | reflexivity]).
    rwn (scan_at_blocked d rest). rewrite app2_assoc. reflexivity.
  - destruct Hw as [Hw|Hw]; [discriminate|].
    assert (Od : Nat.odd n = true) by (rewrite <- Nat.negb_even, Ev; reflexivity).
    apply Nat.odd_spec in Od. destruct Od as [k ->].
    replace (Nat.div2 (2 * k + 1)) with k by (replace (2 * k + 1)%nat with (S (2 * k)) by lia; rewrite Nat.div2_succ_double; reflexivity).
    rewrite repeat_app, <- app_assoc. cbn [repeat app].
    destruct k as [|k].
    + cbn [repeat Nat.mul app Nat.add]. apply scan_bs1_at. exact Hw.
    + rwn_by (scan_pairs d pb (S k) (92 :: 64 :: rest)) ltac:(first [lia | cbn; lia | reflexivity]).
      rwn (scan_bs1_at d true rest Hw). rewrite app2_assoc.
      unfold app2; cbn [fst snd]. f_equal. rewrite repeat_app. rewrite <- !app_assoc. reflexivity.
Qed.

(* backslashes that are not followed by '@' are copied *)
Lemma look_at_false_nobs (rest : str) : hd_is 64 rest = false -> hd_is 92 rest = false -> look_at rest = false.
Proof. destruct rest as [|c r]; cbn; [reflexivity|]. intros -> ->. reflexivity. Qed.
Lemma look_at_false_bs (rest : str) : hd_is 64 rest = false -> look_at (92 :: rest) = false.
Proof. cbn. intros ->. reflexivity. Qed.

Lemma match_at_bs_run pb n (rest : str) :
  hd_is 64 rest = false -> hd_is 92 rest = false ->
  match_at pb (repeat 92 (S n) ++ rest) = None.
Proof.
  intros H64 H92. unfold match_at.
  rewrite count_bs_repeat, (count_bs_nobs rest H92), Nat.add_0_r.
  assert (Hl : look_at (skipn (2 * Nat.div2 (S n)) (repeat 92 (S n) ++ rest)) = false).
  { pose proof (Nat.div2_odd (S n)) as E.
    rewrite skipn_repeat_app by (destruct (Nat.odd (S n)); cbn [Nat.b2n] in E; lia).
    destruct (Nat.odd (S n)); cbn [Nat.b2n] in E.
    - replace (S n - 2 * Nat.div2 (S n))%nat with 1%nat by lia. cbn [repeat app]. apply look_at_false_bs. exact H64.
    - replace (S n - 2 * Nat.div2 (S n))%nat with 0%nat by lia. cbn [repeat app]. apply look_at_false_nobs; assumption. }
  unfold str, char in *. rewrite Hl, andb_false_r. cbn [repeat app]. change (92 =? 64) with false. change (92 =? 92) with true. cbv iota.
  destruct n as [|n]; cbn [repeat app].
  - destruct rest as [|c1 t1]; [reflexivity|]. cbn [hd_is] in H64. rewrite H64. reflexivity.
  - reflexivity.
Qed.

Lemma scan_bs d n : forall pb (rest : str),
  hd_is 64 rest = false -> hd_is 92 rest = false ->
  scan d pb 0 (repeat 92 n ++ rest) = app2 (repeat 92 n, []) (scan d (match n with O => pb | _ => true end) 0 rest).
Proof.
  induction n as [|n IH]; intros pb rest H64 H92.
  - cbn [repeat app]. rewrite app2_nil_l. reflexivity.
  - pose proof (match_at_bs_run pb n rest H64 H92) as HM. cbn [repeat app] in *.
    rwn (scan_nomatch_step d pb 92 _ HM). change (92 =? 92) with true.
    rwn (IH true rest H64 H92). rewrite app2_assoc. unfold app2; cbn [fst snd app]. destruct n; reflexivity.
Qed.

(* ------------------------------------------------------------------ the segment theorem *)
Lemma render_all_cons g r : render_all (g :: r) = render g ++ render_all r.
Proof. reflexivity. Qed.

Lemma pb_false_of_at (pb : bool) (t : str) : (pb = true -> hd_is 64 (64 :: t) = false) -> pb = false.
Proof. destruct pb; [|reflexivity]. intros H. specialize (H eq_refl). discriminate. Qed.

Lemma segments_scan d : forall l pb,
  wf_segs l = true -> (pb = true -> hd_is 64 (render_all l) = false) ->
  scan d pb 0 (render_all l) = (expand_all d l, missing d l).
Proof.
  induction l as [|g r IH]; intros pb Hwf Hpb; [reflexivity|].
  cbn [wf_segs] in Hwf. apply andb_true_iff in Hwf. destruct Hwf as [Hg Hr].
  rewrite render_all_cons in *.
  destruct g as [s|v|k v|n|n|]; cbn [render] in *.
  - (* Lit *)
    rwn (scan_lit d s pb (render_all r) Hg).
    rewrite IH; [reflexivity|exact Hr|].
    destruct s; [exact Hpb|discriminate].
  - (* Var *)
    cbn [app] in *. rewrite <- app_assoc in *. cbn [app] in *.
    rewrite (pb_false_of_at pb _ Hpb).
    rwn (scan_var d v (render_all r) Hg).
    rewrite IH; [|exact Hr|discriminate].
    unfold expand_all, missing. cbn [map concat expand replacement].
    destruct (lookup d v); reflexivity.
  - (* Esc *)
    repl ((repeat 92 (2 * k + 1) ++ 64 :: v ++ [92; 64]) ++ render_all r)
         (repeat 92 (2 * k + 1) ++ 64 :: v ++ 92 :: 64 :: render_all r)
         ltac:(rewrite <- app_assoc; cbn [app]; rewrite <- app_assoc; reflexivity).
    rwn (scan_esc d pb k v (render_all r) Hg).
    rewrite IH; [|exact Hr|discriminate].
    unfold app2, expand_all, missing. cbn [map concat expand fst snd app]. reflexivity.
  - (* BsAt *)
    apply andb_true_iff in Hg. destruct Hg as [Hn Hw].
    repl ((repeat 92 n ++ [64]) ++ render_all r) (repeat 92 n ++ 64 :: render_all r)
         ltac:(rewrite <- app_assoc; reflexivity).
    rwn_by (scan_bsat d pb n (render_all r))
           ltac:(first [ intros ->; discriminate
                       | apply orb_true_iff in Hw; destruct Hw as [Hw|Hw]; [left; exact Hw|right; apply negb_true_iff; exact Hw] ]).
    rewrite IH; [|exact Hr|discriminate].
    unfold app2, expand_all, missing. cbn [map concat expand fst snd app]. rewrite <- app_assoc. reflexivity.
  - (* Bs *)
    apply andb_true_iff in Hg. destruct Hg as [Hg H92]. apply andb_true_iff in Hg. destruct Hg as [Hn H64].
    apply negb_true_iff in H92. apply negb_true_iff in H64.
    rwn (scan_bs d n pb (render_all r) H64 H92).
    rewrite IH; [reflexivity|exact Hr|intros _; exact H64].
  - (* At *)
    cbn [app] in *. rewrite (pb_false_of_at pb _ Hpb).
    apply negb_true_iff in Hg.
    rwn (scan_lone_at d (render_all r) Hg).
    rewrite IH; [reflexivity|exact Hr|discriminate].
Qed.

(* THE segment theorem of the meson format *)
Theorem meson_segments d l :
  wf_segs l = true -> subst_meson d (render_all l) = (expand_all d l, missing d l).
Proof. intros H. apply segments_scan; [exact H|discriminate]. Qed.

(* ------------------------------------------------------------------ corollaries *)
(* text without '@' and '\' (CR, LF, '$', '{', '}', anything else) is copied unchanged *)
Theorem meson_identity_plain d (s : str) :
  forallb plain_char s = true -> subst_meson d s = (s, []).
Proof.
  intros H. pose proof (meson_segments d [Lit s]) as E.
  unfold render_all, expand_all, missing in E. cbn [map concat render expand wf_segs] in E.
  rewrite app_nil_r in E. apply E. rewrite H. reflexivity.
Qed.

(* a defined variable between two well-formed pieces: its value appears verbatim, whatever it
   looks like (no second scan), and the pieces around it are processed independently *)
Theorem meson_value_verbatim d l1 v l2 val :
  wf_segs (l1 ++ Var v :: l2) = true -> lookup d v = Some val ->
  fst (subst_meson d (render_all (l1 ++ Var v :: l2)))
  = expand_all d l1 ++ py_str val ++ expand_all d l2.
Proof.
  intros Hwf Hl. rewrite (meson_segments d _ Hwf). cbn [fst].
  unfold expand_all. rewrite map_app, concat_app. cbn [map concat expand]. rewrite Hl. reflexivity.
Qed.

(* the reported names are exactly the undefined variables of the template *)
Theorem meson_missing_exact d l :
  wf_segs l = true ->
  forall x, In x (snd (subst_meson d (render_all l))) <-> (In (Var x) l /\ lookup d x = None).
Proof.
  intros Hwf x. rewrite (meson_segments d _ Hwf). cbn [snd]. unfold missing.
  clear Hwf. induction l as [|g r IH]; cbn [map concat]; [split; [intros []|intros [[] _]]|].
  rewrite in_app_iff, IH. split.
  - intros [H|[H1 H2]].
    + destruct g; try (destruct H; fail). destruct (lookup d v) eqn:E; [destruct H|].
      destruct H as [<-|[]]. split; [left; reflexivity|exact E].
    + split; [right; exact H1|exact H2].
  - intros [[->|H1] H2].
    + left. rewrite H2. left. reflexivity.
    + right. split; assumption.
Qed.

(* ------------------------------------------------------------------ the grammar is complete *)
Lemma count_bs_split (s : str) :
  s = repeat 92 (count_bs s) ++ skipn (count_bs s) s /\ hd_is 92 (skipn (count_bs s) s) = false.
Proof.
  induction s as [|c s IH]; [split; reflexivity|].
  cbn [count_bs]. destruct (c =? 92) eqn:E.
  - apply N.eqb_eq in E. subst c. cbn [repeat app skipn]. destruct IH as [IH1 IH2]. split; [f_equal; exact IH1|exact IH2].
  - cbn [repeat app skipn hd_is]. split; [reflexivity|exact E].
Qed.

Lemma span_length p (s : str) v r : span p s = (v, r) -> (length r <= length s)%nat.
Proof. intros H. apply span_spec in H. destruct H as [-> _]. rewrite app_length. lia. Qed.

Lemma hd_is_true (c : char) (s : str) : hd_is c s = true -> exists t, s = c :: t.
Proof. destruct s as [|x t]; cbn; [discriminate|]. intros H. apply N.eqb_eq in H. subst. eauto. Qed.

Lemma segments_complete_aux : forall n (s : str), (length s <= n)%nat ->
  exists l, wf_segs l = true /\ render_all l = s.
Proof.
  induction n as [|n IH]; intros s Hn.
  - destruct s; [|cbn in Hn; lia]. exists []. split; reflexivity.
  - destruct s as [|c t]; [exists []; split; reflexivity|]. cbn [length] in Hn.
    destruct (plain_char c) eqn:Hp.
    { destruct (IH t ltac:(lia)) as [l [Hw Hr]]. exists (Lit [c] :: l). split.
      - cbn [wf_segs forallb]. rewrite Hp, Hw. reflexivity.
      - rewrite render_all_cons, Hr. reflexivity. }
    unfold plain_char in Hp. apply andb_false_iff in Hp.
    destruct (c =? 64) eqn:E64.
    { (* '@' *)
      apply N.eqb_eq in E64. subst c.
      destruct (span name_char t) as [v r] eqn:Esp.
      destruct (nonempty v && hd_is 64 r) eqn:Ev.
      - apply andb_true_iff in Ev. destruct Ev as [Hne Hr64].
        destruct (hd_is_true _ _ Hr64) as [r' ->].
        pose proof (span_spec _ _ _ _ Esp) as [Ht [Hv _]].
        assert (Hr' : (length r' <= n)%nat) by (rewrite Ht, !app_length in Hn; cbn [length] in Hn; lia).
        destruct (IH r' Hr') as [l [Hw Hr]].
        exists (Var v :: l). split.
        + cbn [wf_segs]. unfold is_name. rewrite Hne, Hv, Hw. reflexivity.
        + rewrite render_all_cons, Hr. cbn [render app]. rewrite <- app_assoc. subst t. reflexivity.
      - destruct (IH t ltac:(lia)) as [l [Hw Hr]]. exists (At :: l). split.
        + cbn [wf_segs]. rewrite Hr, Hw. unfold starts_name_then. rewrite Esp, prefixb1, Ev. reflexivity.
        + rewrite render_all_cons, Hr. reflexivity. }
    destruct (c =? 92) eqn:E92; [|destruct Hp as [Hp|Hp]; discriminate].
    apply N.eqb_eq in E92. subst c. clear Hp E64.
    (* a run of backslashes *)
    destruct (count_bs_split (92 :: t)) as [Hs Hnb]. unfold str, char in *.
    remember (count_bs (92 :: t)) as m eqn:Em.
    remember (skipn m (92 :: t)) as rest eqn:Erest.
    assert (Hm : m <> O) by (subst m; cbn [count_bs]; change (92 =? 92) with true; cbv iota; discriminate).
    assert (Hlen : (length rest + m = S (length t))%nat).
    { change (S (length t)) with (length (92 :: t)). rewrite Hs. rewrite app_length, repeat_length. lia. }
    destruct (hd_is 64 rest) eqn:H64.
    + destruct (hd_is_true _ _ H64) as [rest' ->]. cbn [length] in Hlen.
      destruct (span name_char rest') as [v r] eqn:Esp.
      destruct (negb (Nat.even m) && (nonempty v && prefixb [92; 64] r)) eqn:Eesc.
      * apply andb_true_iff in Eesc. destruct Eesc as [Hodd Hv]. apply andb_true_iff in Hv. destruct Hv as [Hne Hpre].
        apply prefixb_spec in Hpre. destruct Hpre as [r'' ->].
        pose proof (span_spec _ _ _ _ Esp) as [Ht [Hv _]].
        assert (Od : Nat.odd m = true) by (rewrite <- Nat.negb_even; exact Hodd).
        apply Nat.odd_spec in Od. destruct Od as [k Hk].
        assert (Hr'' : (length r'' <= n)%nat) by (rewrite Ht, !app_length in Hlen; cbn [length] in Hlen; lia).
        destruct (IH r'' Hr'') as [l [Hw Hr]].
        exists (Esc k v :: l). split.
        -- cbn [wf_segs]. unfold is_name. rewrite Hne, Hv, Hw. reflexivity.
        -- rewrite render_all_cons, Hr. cbn [render]. rewrite Hs, Hk, Ht.
           rewrite <- app_assoc. cbn [app]. rewrite <- app_assoc. reflexivity.
      * destruct (IH rest' ltac:(lia)) as [l [Hw Hr]].
        exists (BsAt m :: l). split.
        -- cbn [wf_segs]. rewrite Hr, Hw. unfold starts_name_then. rewrite Esp.
           destruct m; [congruence|]. cbn [Nat.eqb negb andb].
           destruct (Nat.even (S m)); cbn [negb andb orb] in *; [reflexivity|]. rewrite Eesc. reflexivity.
        -- rewrite render_all_cons, Hr. cbn [render]. rewrite Hs. rewrite <- app_assoc. reflexivity.
    + destruct (IH rest ltac:(lia)) as [l [Hw Hr]].
      exists (Bs m :: l). split.
      * cbn [wf_segs]. rewrite Hr, Hw, H64, Hnb. destruct m; [congruence|]. reflexivity.
      * rewrite render_all_cons, Hr. cbn [render]. symmetry. exact Hs.
Qed.

(* every template text is the rendering of a well-formed segment list, so the segment theorem
   speaks about every input *)
Theorem segments_complete (s : str) : exists l, wf_segs l = true /\ render_all l = s.
Proof. apply (segments_complete_aux (length s)). lia. Qed.
