(* Subst/Data.v — configuration data, value rendering and the small string
   helpers (Python str.split / "in" / span) shared by the C14 models.
   Model file: definitions only, no proofs. *)
From MV Require Import Base.Strs.
Open Scope N_scope.

(* ConfigurationData.values : Dict[str, Tuple[Union[str,int,bool], Optional[str]]]
   (build.py:3523-3546).  A dict is an association list in insertion order; the
   description None and '' are both falsy and are both modelled by []. *)
Inductive value := VStr (s : str) | VInt (z : Z) | VBool (b : bool).
Definition entry := (str * (value * str))%type.
Definition conf := list entry.

Fixpoint lookup (d : conf) (k : str) : option value :=
  match d with
  | [] => None
  | (k', (v, _)) :: r => if str_eqb k k' then Some v else lookup r k
  end.

Definition keys (d : conf) : list str := map fst d.

(* str(v) *)
Definition py_bool_str (b : bool) : str := if b then s2l "True" else s2l "False".
Definition py_str (v : value) : str :=
  match v with VStr s => s | VInt z => Z_dec z | VBool b => py_bool_str b end.
(* bool(v) *)
Definition truthy (v : value) : bool :=
  match v with
  | VStr [] => false | VStr _ => true
  | VInt z => negb (Z.eqb z 0)
  | VBool b => b
  end.

(* results: a value, a MesonException, another Python exception (class name),
   or the model's own fuel running out (proved unreachable in Proofs). *)
Inductive result (A : Type) :=
| Ok (a : A) | MesonErr | PyErr (cls : str) | OutOfFuel.
Arguments Ok {A} a.
Arguments MesonErr {A}.
Arguments PyErr {A} cls.
Arguments OutOfFuel {A}.

(* longest prefix satisfying p, and the rest *)
Fixpoint span (p : char -> bool) (s : str) : str * str :=
  match s with
  | [] => ([], [])
  | c :: r => if p c then let '(a, b) := span p r in (c :: a, b) else ([], s)
  end.

Definition nonempty (s : str) : bool := match s with [] => false | _ => true end.

(* "p in s" for strings *)
Fixpoint contains (p s : str) : bool :=
  prefixb p s || match s with [] => false | _ :: r => contains p r end.

(* Python str.split() (no argument): maximal runs of non-blank characters *)
Fixpoint split_ws_aux (cur : str) (s : str) : list str :=
  match s with
  | [] => match cur with [] => [] | _ => [rev cur] end
  | c :: r =>
      if is_space c
      then match cur with [] => split_ws_aux [] r | _ => rev cur :: split_ws_aux [] r end
      else split_ws_aux (c :: cur) r
  end.
Definition split_ws (s : str) : list str := split_ws_aux [] s.

Definition hd_is (c : char) (s : str) : bool :=
  match s with x :: _ => x =? c | [] => false end.

(* f.readlines() on a file opened with newline='' (universal.py:1756): lines end at
   \n, \r\n or a lone \r and keep their terminator *)
Fixpoint readlines_aux (cur : str) (s : str) : list str :=
  match s with
  | [] => match cur with [] => [] | _ => [rev cur] end
  | c :: r =>
      if c =? 10 then rev (c :: cur) :: readlines_aux [] r
      else if c =? 13 then
        match r with
        | c2 :: r2 => if c2 =? 10 then rev (c2 :: c :: cur) :: readlines_aux [] r2
                      else rev (c :: cur) :: readlines_aux [] r
        | [] => [rev (c :: cur)]
        end
      else readlines_aux (c :: cur) r
  end.
Definition readlines (s : str) : list str := readlines_aux [] s.

(* insertion sort of strings by code point (Python sorted() on str) *)
Definition str_leb (a b : str) : bool :=
  match str_cmp a b with Gt => false | _ => true end.
Fixpoint insert_str (x : str) (l : list str) : list str :=
  match l with
  | [] => [x]
  | y :: r => if str_leb x y then x :: l else y :: insert_str x r
  end.
Definition sort_strs (l : list str) : list str := fold_right insert_str [] l.

Fixpoint dedup_sorted (l : list str) : list str :=
  match l with
  | x :: (y :: _) as r => if str_eqb x y then dedup_sorted r else x :: dedup_sorted r
  | _ => l
  end.
