(* Subst/ProofsConf.v — lines and files in the meson format: readlines is lossless, ordinary
   lines go through the substitution (so the segment theorem applies to each of them, line
   terminator included), #mesondefine lines give the documented forms. *)
From MV Require Import Base.Strs Base.LexFacts Subst.Data Subst.Meson Subst.CMake Subst.Conf Subst.Spec Subst.ProofsMeson Subst.ProofsCMake.
From Coq Require Import Lia Arith.
Open Scope N_scope.

(* ------------------------------------------------------------------ readlines *)
Lemma readlines_aux_concat : forall n (s cur : str), (length s <= n)%nat ->
  concat (readlines_aux cur s) = rev cur ++ s.
Proof.
  induction n as [|n IH]; intros s cur Hn.
  - destruct s; [|cbn in Hn; lia]. cbn [readlines_aux]. destruct cur; cbn [concat]; rewrite ?app_nil_r; reflexivity.
  - destruct s as [|c r]; cbn [readlines_aux].
    + destruct cur; cbn [concat]; rewrite ?app_nil_r; reflexivity.
    + cbn [length] in Hn. destruct (c =? 10).
      * cbn [concat rev]. rewrite (IH r [] ltac:(lia)). cbn [rev app]. rewrite <- app_assoc. reflexivity.
      * destruct (c =? 13).
        -- destruct r as [|c2 r2].
           ++ cbn [concat rev]. rewrite app_nil_r. reflexivity.
           ++ cbn [length] in Hn. destruct (c2 =? 10); cbn [concat rev].
              ** rewrite (IH r2 [] ltac:(lia)). cbn [rev app]. rewrite <- !app_assoc. reflexivity.
              ** rewrite (IH (c2 :: r2) [] ltac:(cbn [length]; lia)). cbn [rev app]. rewrite <- app_assoc. reflexivity.
        -- rewrite (IH r (c :: cur) ltac:(lia)). cbn [rev]. rewrite <- app_assoc. reflexivity.
Qed.

(* splitting a file into lines loses nothing: the lines, terminators included, concatenate
   back to the file *)
Theorem readlines_lossless (s : str) : concat (readlines s) = s.
Proof. unfold readlines. rewrite (readlines_aux_concat (length s) s [] (le_n _)). reflexivity. Qed.

Lemma in_readlines_chars (text line : str) (c : char) :
  In line (readlines text) -> In c line -> In c text.
Proof.
  intros Hl Hc. rewrite <- (readlines_lossless text). apply in_concat. exists line. split; assumption.
Qed.

(* ------------------------------------------------------------------ the line loop *)
Definition ordinary_meson (line : str) : bool :=
  negb (prefixb (s2l "#mesondefine") (lstrip line)) && negb (search_cmakedefine line).

Lemma conf_meson_loop_ordinary d : forall lines acc miss useless,
  forallb ordinary_meson lines = true ->
  conf_meson_loop d lines acc miss useless
  = Ok (mk_out (rev acc ++ map (fun l => fst (subst_meson d l)) lines)
               (miss ++ concat (map (fun l => snd (subst_meson d l)) lines))
               (useless && forallb (fun l => is_nil (snd (subst_meson d l))) lines)).
Proof.
  induction lines as [|line rest IH]; intros acc miss useless H.
  - cbn. rewrite !app_nil_r, andb_true_r. reflexivity.
  - cbn [forallb] in H. apply andb_true_iff in H. destruct H as [Ho Hr].
    unfold ordinary_meson in Ho. apply andb_true_iff in Ho. destruct Ho as [H1 H2].
    apply negb_true_iff in H1. apply negb_true_iff in H2.
    cbn [conf_meson_loop]. rewrite H1, H2.
    destruct (subst_meson d line) as [l m] eqn:E.
    rewrite (IH _ _ _ Hr). cbn [map concat forallb fst snd rev]. rewrite E. cbn [fst snd].
    rewrite <- !app_assoc. cbn [app]. f_equal. f_equal.
    destruct m; cbn [is_nil andb]; [reflexivity|]. rewrite andb_false_r. reflexivity.
Qed.

(* a file none of whose lines is a define line: every line is substituted on its own and the
   results are written back to back *)
Theorem conf_meson_ordinary d (lines : list str) :
  forallb ordinary_meson lines = true ->
  do_conf_str_meson d lines
  = Ok (mk_out (map (fun l => fst (subst_meson d l)) lines)
               (concat (map (fun l => snd (subst_meson d l)) lines))
               (is_nil d && forallb (fun l => is_nil (snd (subst_meson d l))) lines)).
Proof. intros H. unfold do_conf_str_meson. rewrite (conf_meson_loop_ordinary d lines [] [] _ H). reflexivity. Qed.

(* the same, with every line given as a well-formed segment list (its terminator is part of a
   Lit): the file is the concatenation of the expansions - line endings are copied *)
Theorem conf_meson_segments d (ls : list (list seg)) :
  forallb wf_segs ls = true ->
  forallb ordinary_meson (map render_all ls) = true ->
  do_conf_str_meson d (map render_all ls)
  = Ok (mk_out (map (expand_all d) ls) (concat (map (missing d) ls))
               (is_nil d && forallb (fun l => is_nil (missing d l)) ls)).
Proof.
  intros Hwf Ho. rewrite (conf_meson_ordinary d _ Ho). rewrite !map_map.
  assert (E : forall l, In l ls -> subst_meson d (render_all l) = (expand_all d l, missing d l)).
  { intros l Hl. apply meson_segments. rewrite forallb_forall in Hwf. apply Hwf. exact Hl. }
  f_equal. clear Hwf Ho. induction ls as [|l r IH]; [reflexivity|].
  cbn [map concat forallb]. rewrite (E l (or_introl eq_refl)). cbn [fst snd].
  assert (IH' := IH (fun l0 H0 => E l0 (or_intror H0))). clear IH.
  inversion IH' as [[H1 H2 H3]]. rewrite H1, H2.
  f_equal. destruct (is_nil d); cbn [andb] in *; [rewrite H3|]; reflexivity.
Qed.

(* ------------------------------------------------------------------ files without any special character *)
Definition inert_char (c : char) : bool := negb (c =? 64) && negb (c =? 92) && negb (c =? 35).

Lemma lstrip_suffix (s : str) : exists p, s = p ++ lstrip s.
Proof.
  induction s as [|c s [p IH]]; [exists []; reflexivity|]. cbn [lstrip].
  destruct (is_space c); [exists (c :: p); cbn [app]; f_equal; exact IH | exists []; reflexivity].
Qed.

Lemma no_hash_not_define (line : str) :
  forallb inert_char line = true -> ordinary_meson line = true.
Proof.
  intros H. unfold ordinary_meson. apply andb_true_iff. split; apply negb_true_iff.
  - destruct (lstrip_suffix line) as [p Hp]. destruct (lstrip line) as [|c r] eqn:E; [reflexivity|].
    rewrite Hp, forallb_app in H. apply andb_true_iff in H. destruct H as [_ H]. cbn [forallb] in H.
    apply andb_true_iff in H. destruct H as [Hc _]. unfold inert_char in Hc.
    apply andb_true_iff in Hc. destruct Hc as [_ Hc]. apply negb_true_iff in Hc.
    cbn [s2l prefixb]. change (N_of_ascii "#"%char) with 35. rewrite N.eqb_sym, Hc. reflexivity.
  - induction line as [|c r IH]; [reflexivity|]. cbn [forallb] in H. apply andb_true_iff in H. destruct H as [Hc Hr].
    cbn [search_cmakedefine]. unfold inert_char in Hc. apply andb_true_iff in Hc. destruct Hc as [_ Hc].
    apply negb_true_iff in Hc. rewrite Hc. cbn [andb orb]. apply IH. exact Hr.
Qed.

Lemma inert_plain (s : str) : forallb inert_char s = true -> forallb plain_char s = true.
Proof.
  induction s as [|c s IH]; [reflexivity|]. cbn [forallb]. intros H. apply andb_true_iff in H. destruct H as [Hc Hs].
  rewrite (IH Hs), andb_true_r. unfold inert_char in Hc. unfold plain_char.
  apply andb_true_iff in Hc. destruct Hc as [Hc _]. exact Hc.
Qed.

(* a file without '@', '\' and '#' - whatever its line terminators - comes out byte for byte *)
Theorem conf_text_meson_identity d (text : str) :
  forallb inert_char text = true ->
  do_conf_text FMeson d text = Ok (text, [], is_nil d).
Proof.
  intros H. unfold do_conf_text, do_conf_str.
  assert (Hl : forall line, In line (readlines text) -> forallb inert_char line = true).
  { intros line Hin. apply forallb_forall. intros c Hc. rewrite forallb_forall in H. apply H.
    apply (in_readlines_chars text line c Hin Hc). }
  rewrite conf_meson_ordinary.
  2:{ apply forallb_forall. intros line Hin. apply no_hash_not_define. apply Hl. exact Hin. }
  cbn [out_lines out_missing out_useless].
  assert (E : forall line, In line (readlines text) -> subst_meson d line = (line, [])).
  { intros line Hin. apply meson_identity_plain. apply inert_plain. apply Hl. exact Hin. }
  remember (readlines text) as L eqn:EL.
  assert (Ht : text = concat L) by (subst L; symmetry; apply readlines_lossless).
  rewrite Ht. clear EL H Hl Ht. induction L as [|l r IH]; [cbn; rewrite andb_true_r; reflexivity|].
  cbn [map concat forallb]. rewrite (E l (or_introl eq_refl)). cbn [fst snd is_nil andb app].
  assert (IH' := IH (fun l0 H0 => E l0 (or_intror H0))). clear IH.
  injection IH' as H1 H2 H3. rewrite H1, H2.
  destruct (is_nil d); cbn [andb] in *; [rewrite H3|]; reflexivity.
Qed.

(* ------------------------------------------------------------------ #mesondefine lines *)
Definition blank (s : str) : bool := forallb is_space s.
Definition token (s : str) : bool := nonempty s && forallb (fun c => negb (is_space c)) s.

Lemma split_ws_aux_tok (tok : str) : forall cur rest,
  forallb (fun c => negb (is_space c)) tok = true ->
  split_ws_aux cur (tok ++ rest) = split_ws_aux (rev tok ++ cur) rest.
Proof.
  induction tok as [|c tok IH]; intros cur rest H; [reflexivity|].
  cbn [forallb] in H. apply andb_true_iff in H. destruct H as [Hc Ht]. apply negb_true_iff in Hc.
  cbn [app split_ws_aux]. rewrite Hc. rewrite (IH _ _ Ht). cbn [rev]. rewrite <- app_assoc. reflexivity.
Qed.
Lemma split_ws_aux_blank (b : str) : forall rest,
  blank b = true -> split_ws_aux [] (b ++ rest) = split_ws_aux [] rest.
Proof.
  induction b as [|c b IH]; intros rest H; [reflexivity|].
  cbn [blank forallb] in H. apply andb_true_iff in H. destruct H as [Hc Hb].
  cbn [app split_ws_aux]. rewrite Hc. apply IH. exact Hb.
Qed.
Lemma split_ws_aux_flush (cur b : str) : forall rest,
  cur <> [] -> b <> [] -> blank b = true ->
  split_ws_aux cur (b ++ rest) = rev cur :: split_ws_aux [] rest.
Proof.
  intros rest Hcur Hb Hbl. destruct b as [|c b]; [congruence|].
  cbn [blank forallb] in Hbl. apply andb_true_iff in Hbl. destruct Hbl as [Hc Hbl].
  cbn [app split_ws_aux]. rewrite Hc. destruct cur; [congruence|]. f_equal.
  apply split_ws_aux_blank. exact Hbl.
Qed.
Lemma split_ws_aux_end (cur b : str) :
  cur <> [] -> blank b = true -> split_ws_aux cur b = [rev cur].
Proof.
  intros Hcur Hbl. destruct b as [|c b].
  - cbn. destruct cur; [congruence|reflexivity].
  - rewrite <- (app_nil_r (c :: b)). rewrite split_ws_aux_flush; [reflexivity|exact Hcur|discriminate|exact Hbl].
Qed.

Lemma token_spec (t : str) : token t = true -> t <> [] /\ forallb (fun c => negb (is_space c)) t = true.
Proof. unfold token. intros H. apply andb_true_iff in H. destruct H as [H1 H2]. split; [destruct t; [discriminate|discriminate]|exact H2]. Qed.

Lemma split_ws_two (lead t1 mid t2 trail : str) :
  blank lead = true -> token t1 = true -> blank mid = true -> mid <> [] -> token t2 = true -> blank trail = true ->
  split_ws (lead ++ t1 ++ mid ++ t2 ++ trail) = [t1; t2].
Proof.
  intros Hl H1 Hm Hmn H2 Ht. destruct (token_spec _ H1) as [N1 T1]. destruct (token_spec _ H2) as [N2 T2].
  unfold split_ws. rewrite (split_ws_aux_blank lead _ Hl).
  rewrite (split_ws_aux_tok t1 _ _ T1). rewrite app_nil_r.
  rewrite split_ws_aux_flush; [|intros E; apply N1; rewrite <- (rev_involutive t1), E; reflexivity|exact Hmn|exact Hm].
  rewrite rev_involutive. f_equal.
  rewrite (split_ws_aux_tok t2 _ _ T2). rewrite app_nil_r.
  rewrite split_ws_aux_end; [|intros E; apply N2; rewrite <- (rev_involutive t2), E; reflexivity|exact Ht].
  rewrite rev_involutive. reflexivity.
Qed.

(* what '#mesondefine NAME' turns into (without its line framing) *)
Definition define_text (d : conf) (name : str) : str :=
  match lookup d name with
  | None => s2l "/* #undef " ++ name ++ s2l " */"
  | Some (VBool true) => s2l "#define " ++ name
  | Some (VBool false) => s2l "#undef " ++ name
  | Some (VInt z) => s2l "#define " ++ name ++ [32] ++ Z_dec z
  | Some (VStr v) => s2l "#define " ++ name ++ [32] ++ v
  end.
Definition is_str_value (d : conf) (name : str) : bool :=
  match lookup d name with Some (VStr _) => true | _ => false end.

Definition define_line (lead mid name trail : str) : str :=
  lead ++ s2l "#mesondefine" ++ mid ++ name ++ trail.

Lemma mesondefine_token : token (s2l "#mesondefine") = true.
Proof. reflexivity. Qed.

(* the four documented forms, for every spacing of the line *)
Theorem mesondefine_forms d (lead mid name trail : str) :
  blank lead = true -> blank mid = true -> mid <> [] -> token name = true -> blank trail = true ->
  is_str_value d name = false ->
  do_define_meson d (define_line lead mid name trail) = Ok (define_text d name ++ [10]).
Proof.
  intros Hl Hm Hmn Hn Ht Hs. unfold do_define_meson, define_line.
  rewrite (split_ws_two lead _ mid name trail Hl mesondefine_token Hm Hmn Hn Ht).
  unfold define_text, is_str_value, undef_comment, NL in *.
  destruct (lookup d name) as [[v|z|[|]]|]; try discriminate; rewrite <- ?app_assoc; reflexivity.
Qed.

Lemma lstrip_nonspace (c : char) (s : str) : is_space c = false -> lstrip (c :: s) = c :: s.
Proof. intros H. cbn [lstrip]. rewrite H. reflexivity. Qed.
Lemma strip_id (c z : char) (a : str) :
  is_space c = false -> is_space z = false -> strip ((c :: a) ++ [z]) = (c :: a) ++ [z].
Proof.
  intros Hc Hz. unfold strip, rstrip. cbn [app]. rewrite (lstrip_nonspace c _ Hc).
  change (c :: a ++ [z]) with ((c :: a) ++ [z]). rewrite rev_app_distr. cbn [rev app].
  rewrite (lstrip_nonspace z _ Hz). change (z :: rev a ++ [c]) with ([z] ++ rev (c :: a)).
  rewrite rev_app_distr, rev_involutive. reflexivity.
Qed.
Lemma rstrip_space (x : str) (c : char) : is_space c = true -> rstrip (x ++ [c]) = rstrip x.
Proof. intros H. unfold rstrip. rewrite rev_app_distr. cbn [rev app lstrip]. rewrite H. reflexivity. Qed.

Lemma rstrip_id (x : str) (z : char) : is_space z = false -> rstrip (x ++ [z]) = x ++ [z].
Proof.
  intros H. unfold rstrip. rewrite rev_app_distr. cbn [rev app]. rewrite lstrip_nonspace by exact H.
  cbn [rev]. rewrite rev_involutive. reflexivity.
Qed.
Lemma strip_eq (c : char) (x : str) : is_space c = false -> strip (c :: x) = rstrip (c :: x).
Proof. intros H. unfold strip. rewrite lstrip_nonspace by exact H. reflexivity. Qed.
Lemma token_last (t : str) : token t = true -> exists a z, t = a ++ [z] /\ is_space z = false.
Proof.
  intros H. destruct (token_spec t H) as [Hne Hall].
  destruct (exists_last Hne) as [a [z ->]]. exists a, z. split; [reflexivity|].
  rewrite forallb_app in Hall. apply andb_true_iff in Hall. destruct Hall as [_ Hz]. cbn [forallb] in Hz.
  rewrite andb_true_r in Hz. apply negb_true_iff in Hz. exact Hz.
Qed.


Lemma lstrip_app_nonspace (u w : str) (z : char) :
  is_space z = false -> lstrip (u ++ z :: w) = lstrip u ++ z :: w.
Proof.
  intros Hz. induction u as [|c u IH]; cbn [app lstrip].
  - rewrite Hz. reflexivity.
  - destruct (is_space c); [exact IH|reflexivity].
Qed.
(* trailing blanks are removed only behind the last non-blank character *)
Lemma rstrip_app_keep (x y : str) (z : char) :
  is_space z = false -> rstrip ((x ++ [z]) ++ y) = (x ++ [z]) ++ rstrip y.
Proof.
  intros Hz. unfold rstrip. rewrite !rev_app_distr. cbn [rev app].
  rewrite (lstrip_app_nonspace (rev y) (rev x) z Hz). rewrite rev_app_distr. cbn [rev].
  rewrite rev_involutive. reflexivity.
Qed.

(* a string value (as patched: no second scan): "#define NAME value", for EVERY value - '@', '\'
   and placeholder-looking text included - only the blanks at the end of the value are dropped *)
Theorem mesondefine_string d (lead mid name trail v : str) :
  blank lead = true -> blank mid = true -> mid <> [] -> token name = true -> blank trail = true ->
  lookup d name = Some (VStr v) ->
  do_define_meson d (define_line lead mid name trail)
  = Ok (s2l "#define " ++ name ++ rstrip (32 :: v) ++ [10]).
Proof.
  intros Hl Hm Hmn Hn Ht Hs. unfold do_define_meson, define_line.
  rewrite (split_ws_two lead _ mid name trail Hl mesondefine_token Hm Hmn Hn Ht). rewrite Hs.
  destruct (token_last name Hn) as [a [z [-> Hz]]]. unfold NL. f_equal.
  change (s2l "#define ") with (35 :: s2l "define "). cbn [app].
  rewrite strip_eq by reflexivity.
  repl (35 :: s2l "define " ++ (a ++ [z]) ++ 32 :: v) (((35 :: s2l "define " ++ a) ++ [z]) ++ 32 :: v)
    ltac:(cbn [app]; rewrite <- !app_assoc; reflexivity).
  rwn (rstrip_app_keep (35 :: s2l "define " ++ a) (32 :: v) z Hz).
  cbn [app]. rewrite <- !app_assoc. reflexivity.
Qed.

(* ... in particular the documented form when the value does not end in a blank *)
Theorem mesondefine_string_verbatim d (lead mid name trail v : str) (z : char) :
  blank lead = true -> blank mid = true -> mid <> [] -> token name = true -> blank trail = true ->
  lookup d name = Some (VStr (v ++ [z])) -> is_space z = false ->
  do_define_meson d (define_line lead mid name trail) = Ok (define_text d name ++ [10]).
Proof.
  intros Hl Hm Hmn Hn Ht Hs Hz.
  rewrite (mesondefine_string d lead mid name trail _ Hl Hm Hmn Hn Ht Hs).
  unfold define_text. rewrite Hs.
  repl (32 :: v ++ [z]) ((32 :: v) ++ [z]) ltac:(reflexivity).
  rwn (rstrip_id (32 :: v) z Hz). f_equal. rewrite <- !app_assoc. reflexivity.
Qed.
Example mesondefine_placeholder_value_verbatim :
  do_define_meson [(s2l "X", (VStr (s2l "q@X@\@X\@"), []))] (s2l "  #mesondefine X  ")
  = Ok (s2l "#define X q@X@\@X\@" ++ [10]).
Proof. vm_compute. reflexivity. Qed.

(* ------------------------------------------------------------------ the line terminator *)
Lemma forallb_rev {A} (p : A -> bool) (l : list A) : forallb p (rev l) = forallb p l.
Proof.
  induction l as [|x l IH]; [reflexivity|]. cbn [rev forallb]. rewrite forallb_app, IH. cbn [forallb].
  rewrite andb_true_r, andb_comm. reflexivity.
Qed.
Lemma span_stop' (p : char -> bool) (v : str) (c : char) (rest : str) :
  forallb p v = true -> p c = false -> span p (v ++ c :: rest) = (v, c :: rest).
Proof.
  induction v as [|x v IH]; intros Hv Hc; cbn [app span].
  - rewrite Hc. reflexivity.
  - cbn [forallb] in Hv. apply andb_true_iff in Hv. destruct Hv as [Hx Hv]. rewrite Hx, (IH Hv Hc). reflexivity.
Qed.
Lemma line_eol_app (x eol : str) (z : char) :
  is_crlf z = false -> forallb is_crlf eol = true -> line_eol ((x ++ [z]) ++ eol) = eol.
Proof.
  intros Hz He. unfold line_eol. rewrite !rev_app_distr. cbn [rev app].
  rewrite span_stop'; [cbn [fst]; apply rev_involutive|rewrite forallb_rev; exact He|exact Hz].
Qed.
Lemma line_eol_none (x : str) (z : char) : is_crlf z = false -> line_eol (x ++ [z]) = [].
Proof. intros Hz. rewrite <- (app_nil_r (x ++ [z])). apply line_eol_app; [exact Hz|reflexivity]. Qed.

Lemma set_eol_spec (x eol out : str) (z : char) :
  is_crlf z = false -> forallb is_crlf eol = true ->
  set_eol ((x ++ [z]) ++ eol) (out ++ [10]) = out ++ (match eol with [] => [10] | _ => eol end).
Proof.
  intros Hz He. unfold set_eol. rewrite (line_eol_app x eol z Hz He).
  destruct eol; [reflexivity|]. rewrite removelast_last. reflexivity.
Qed.

Lemma crlf_is_space (c : char) : is_crlf c = true -> is_space c = true.
Proof.
  unfold is_crlf. intros H. apply orb_true_iff in H. destruct H as [H|H]; apply N.eqb_eq in H; subst; reflexivity.
Qed.

(* ------------------------------------------------------------------ whole files *)
(* a #mesondefine line: indentation, the token, blanks, the name, blanks (no CR / LF), and the
   line's own terminator eol (LF, CRLF, CR or nothing) *)
Inductive mline := MOrd (l : list seg) | MDef (lead mid name trail eol : str).
Definition mline_text (ml : mline) : str :=
  match ml with
  | MOrd l => render_all l
  | MDef lead mid name trail eol => define_line lead mid name trail ++ eol
  end.
Definition mline_wf (ml : mline) : bool :=
  match ml with
  | MOrd l => wf_segs l && ordinary_meson (render_all l)
  | MDef lead mid name trail eol =>
      blank lead && blank mid && nonempty mid && token name && blank trail &&
      forallb (fun c => negb (is_crlf c)) trail && forallb is_crlf eol
  end.
(* the replacement text of the define (without terminator) *)
Definition define_out (d : conf) (name : str) : str :=
  match lookup d name with
  | Some (VStr v) => s2l "#define " ++ name ++ rstrip (32 :: v)
  | _ => define_text d name
  end.
Definition mline_out (d : conf) (ml : mline) : str :=
  match ml with
  | MOrd l => expand_all d l
  | MDef _ _ name _ eol => define_out d name ++ (match eol with [] => [10] | _ => eol end)
  end.
Definition mline_missing (d : conf) (ml : mline) : list str :=
  match ml with MOrd l => missing d l | MDef _ _ _ _ _ => [] end.
Definition mline_quiet (d : conf) (ml : mline) : bool :=
  match ml with MOrd l => is_nil (missing d l) | MDef _ _ _ _ _ => false end.

Lemma lstrip_blank_app (b s : str) : blank b = true -> lstrip (b ++ s) = lstrip s.
Proof.
  induction b as [|c b IH]; intros H; [reflexivity|]. cbn [blank forallb] in H.
  apply andb_true_iff in H. destruct H as [Hc Hb]. cbn [app lstrip]. rewrite Hc. apply IH. exact Hb.
Qed.

Lemma define_line_detected (lead mid name trail : str) :
  blank lead = true -> prefixb (s2l "#mesondefine") (lstrip (define_line lead mid name trail)) = true.
Proof.
  intros H. unfold define_line. rewrite (lstrip_blank_app lead _ H).
  change (s2l "#mesondefine" ++ mid ++ name ++ trail) with (35 :: (s2l "mesondefine" ++ mid ++ name ++ trail)).
  rewrite lstrip_nonspace by reflexivity.
  change (35 :: s2l "mesondefine" ++ mid ++ name ++ trail) with (s2l "#mesondefine" ++ mid ++ name ++ trail).
  apply prefixb_app.
Qed.

Lemma define_line_app (lead mid name trail eol : str) :
  define_line lead mid name trail ++ eol = define_line lead mid name (trail ++ eol).
Proof. unfold define_line. rewrite <- !app_assoc. reflexivity. Qed.

Lemma blank_app (a b : str) : blank (a ++ b) = blank a && blank b.
Proof. apply forallb_app. Qed.
Lemma crlf_blank (e : str) : forallb is_crlf e = true -> blank e = true.
Proof.
  induction e as [|c e IH]; [reflexivity|]. cbn [forallb blank]. intros H. apply andb_true_iff in H. destruct H as [Hc He].
  rewrite (crlf_is_space c Hc). exact (IH He).
Qed.

Lemma mdef_do_define d (lead mid name trail : str) :
  blank lead = true -> blank mid = true -> mid <> [] -> token name = true -> blank trail = true ->
  do_define_meson d (define_line lead mid name trail) = Ok (define_out d name ++ [10]).
Proof.
  intros Hl Hm Hmn Hn Ht. unfold define_out. destruct (lookup d name) as [[v|z|b]|] eqn:E.
  - rewrite (mesondefine_string d lead mid name trail v Hl Hm Hmn Hn Ht E). rewrite <- !app_assoc. reflexivity.
  - apply mesondefine_forms; try assumption. unfold is_str_value. rewrite E. reflexivity.
  - apply mesondefine_forms; try assumption. unfold is_str_value. rewrite E. reflexivity.
  - apply mesondefine_forms; try assumption. unfold is_str_value. rewrite E. reflexivity.
Qed.

(* the part of a define line in front of its terminator ends in a character that is not CR / LF *)
Lemma define_line_last (lead mid name trail : str) :
  token name = true -> forallb (fun c => negb (is_crlf c)) trail = true ->
  exists x z, define_line lead mid name trail = x ++ [z] /\ is_crlf z = false.
Proof.
  intros Hn Ht. destruct (token_last name Hn) as [a [zn [-> Hzn]]].
  destruct trail as [|c t].
  - exists (lead ++ s2l "#mesondefine" ++ mid ++ a), zn. split.
    + unfold define_line. rewrite app_nil_r. rewrite <- !app_assoc. reflexivity.
    + destruct (is_crlf zn) eqn:E; [|reflexivity]. rewrite (crlf_is_space zn E) in Hzn. discriminate.
  - destruct (@exists_last _ (c :: t) ltac:(discriminate)) as [t' [z Ez]]. rewrite Ez in *.
    exists (lead ++ s2l "#mesondefine" ++ mid ++ (a ++ [zn]) ++ t'), z. split.
    + unfold define_line. rewrite <- !app_assoc. reflexivity.
    + rewrite forallb_app in Ht. apply andb_true_iff in Ht. destruct Ht as [_ Hz]. cbn [forallb] in Hz.
      rewrite andb_true_r in Hz. apply negb_true_iff in Hz. exact Hz.
Qed.

Lemma conf_meson_loop_file d : forall (mls : list mline) acc miss useless,
  forallb mline_wf mls = true ->
  conf_meson_loop d (map mline_text mls) acc miss useless
  = Ok (mk_out (rev acc ++ map (mline_out d) mls)
               (miss ++ concat (map (mline_missing d) mls))
               (useless && forallb (mline_quiet d) mls)).
Proof.
  induction mls as [|ml rest IH]; intros acc miss useless H.
  - cbn. rewrite !app_nil_r, andb_true_r. reflexivity.
  - cbn [forallb] in H. apply andb_true_iff in H. destruct H as [Hm Hr].
    cbn [map conf_meson_loop]. destruct ml as [l|lead mid name trail eol].
    + cbn [mline_wf] in Hm. apply andb_true_iff in Hm. destruct Hm as [Hw Ho].
      unfold ordinary_meson in Ho. apply andb_true_iff in Ho. destruct Ho as [H1 H2].
      apply negb_true_iff in H1. apply negb_true_iff in H2.
      cbn [mline_text]. rewrite H1, H2. rewrite (meson_segments d l Hw).
      rewrite (IH _ _ _ Hr). cbn [map concat forallb mline_out mline_missing mline_quiet rev].
      rewrite <- !app_assoc. cbn [app]. f_equal. f_equal.
      destruct (missing d l); cbn [is_nil andb]; [reflexivity|]. rewrite andb_false_r. reflexivity.
    + cbn [mline_wf] in Hm.
      apply andb_true_iff in Hm. destruct Hm as [Hm Heol].
      apply andb_true_iff in Hm. destruct Hm as [Hm Hnocr].
      apply andb_true_iff in Hm. destruct Hm as [Hm Htr].
      apply andb_true_iff in Hm. destruct Hm as [Hm Hname].
      apply andb_true_iff in Hm. destruct Hm as [Hm Hmne].
      apply andb_true_iff in Hm. destruct Hm as [Hl Hmid].
      assert (Hmn : mid <> []) by (destruct mid; [discriminate|discriminate]).
      cbn [mline_text]. rewrite define_line_app.
      assert (Hte : blank (trail ++ eol) = true) by (rewrite blank_app, Htr, (crlf_blank eol Heol); reflexivity).
      rewrite (define_line_detected lead mid name (trail ++ eol) Hl).
      rewrite (mdef_do_define d lead mid name (trail ++ eol) Hl Hmid Hmn Hname Hte).
      rewrite <- define_line_app.
      destruct (define_line_last lead mid name trail Hname Hnocr) as [x [z [Ex Hz]]]. rewrite Ex.
      rewrite (set_eol_spec x eol (define_out d name) z Hz Heol).
      rewrite (IH _ _ _ Hr). cbn [map concat forallb mline_out mline_missing mline_quiet rev andb].
      rewrite <- !app_assoc. cbn [app]. rewrite andb_false_r. reflexivity.
Qed.

(* THE file theorem of the meson format: a template whose lines are well-formed segment lists
   (terminators included, as Lit) and #mesondefine lines in any spacing and with any terminator
   comes out as the expansions and the define forms, in order, EVERY line keeping its own
   terminator (a define line without one gets LF); the undefined names are those of the ordinary lines *)
Theorem conf_meson_file d (mls : list mline) :
  forallb mline_wf mls = true ->
  do_conf_str_meson d (map mline_text mls)
  = Ok (mk_out (map (mline_out d) mls) (concat (map (mline_missing d) mls))
               (is_nil d && forallb (mline_quiet d) mls)).
Proof. intros H. unfold do_conf_str_meson. rewrite (conf_meson_loop_file d mls [] [] _ H). reflexivity. Qed.

(* ------------------------------------------------------------------ cmake formats: lines and files *)
Definition ordinary_cmake (line : str) : bool :=
  negb (is_cmakedefine_line line) && negb (contains (s2l "#mesondefine") line).

Lemma conf_cmake_loop_segments at_only d : forall (ls : list (list cseg)) acc miss useless,
  forallb (wf_csegs at_only) ls = true ->
  forallb (forallb (cseg_ok d)) ls = true ->
  forallb ordinary_cmake (map crender_all ls) = true ->
  conf_cmake_loop at_only d (map crender_all ls) acc miss useless
  = Ok (mk_out (rev acc ++ map (cexpand_all d) ls)
               (miss ++ concat (map (cmissing d) ls))
               (useless && forallb (fun l => is_nil (cmissing d l)) ls)).
Proof.
  induction ls as [|l rest IH]; intros acc miss useless Hw Hk Ho.
  - cbn. rewrite !app_nil_r, andb_true_r. reflexivity.
  - cbn [forallb map] in *. apply andb_true_iff in Hw. destruct Hw as [Hw Hwr].
    apply andb_true_iff in Hk. destruct Hk as [Hk Hkr].
    apply andb_true_iff in Ho. destruct Ho as [Ho Hor].
    unfold ordinary_cmake in Ho. apply andb_true_iff in Ho. destruct Ho as [H1 H2].
    apply negb_true_iff in H1. apply negb_true_iff in H2.
    cbn [conf_cmake_loop]. rewrite H1, H2. rewrite (cmake_segments at_only d l Hw Hk).
    rewrite (IH _ _ _ Hwr Hkr Hor). cbn [concat rev]. rewrite <- !app_assoc. cbn [app]. f_equal. f_equal.
    destruct (cmissing d l); cbn [is_nil andb]; [reflexivity|]. rewrite andb_false_r. reflexivity.
Qed.

(* a cmake-format template of ordinary lines given as well-formed segment lists *)
Theorem conf_cmake_segments at_only d (ls : list (list cseg)) :
  forallb (wf_csegs at_only) ls = true ->
  forallb (forallb (cseg_ok d)) ls = true ->
  forallb ordinary_cmake (map crender_all ls) = true ->
  do_conf_str_cmake at_only d (map crender_all ls)
  = Ok (mk_out (map (cexpand_all d) ls) (concat (map (cmissing d) ls))
               (is_nil d && forallb (fun l => is_nil (cmissing d l)) ls)).
Proof.
  intros Hw Hk Ho. unfold do_conf_str_cmake. rewrite (conf_cmake_loop_segments at_only d ls [] [] _ Hw Hk Ho). reflexivity.
Qed.

(* ------------------------------------------------------------------ totality *)
Lemma do_define_cmake_total at_only d line : do_define_cmake at_only d line <> OutOfFuel.
Proof.
  unfold do_define_cmake. destruct (nth_str 1 _) as [varname|]; [|discriminate].
  destruct (lookup d varname) as [v|].
  - destruct (negb _ && negb _); [discriminate|].
    match goal with |- context [subst_cmake ?a ?b ?c] =>
      pose proof (subst_cmake_terminates a b c) as T; destruct (subst_cmake a b c) as [[o m]| | |] end;
      try discriminate. congruence.
  - destruct (contains _ _); discriminate.
Qed.

Lemma conf_cmake_loop_total at_only d : forall lines acc miss useless,
  conf_cmake_loop at_only d lines acc miss useless <> OutOfFuel.
Proof.
  induction lines as [|line rest IH]; intros acc miss useless; cbn [conf_cmake_loop]; [discriminate|].
  destruct (is_cmakedefine_line line).
  - pose proof (do_define_cmake_total at_only d line) as T.
    destruct (do_define_cmake at_only d line); try discriminate; [apply IH|congruence].
  - destruct (contains _ line); [discriminate|].
    pose proof (subst_cmake_terminates at_only d line) as T.
    destruct (subst_cmake at_only d line) as [[l m]| | |]; try discriminate; [apply IH|congruence].
Qed.

Lemma conf_meson_loop_total d : forall lines acc miss useless,
  conf_meson_loop d lines acc miss useless <> OutOfFuel.
Proof.
  induction lines as [|line rest IH]; intros acc miss useless; cbn [conf_meson_loop]; [discriminate|].
  destruct (prefixb _ (lstrip line)).
  - assert (T : do_define_meson d line <> OutOfFuel).
    { unfold do_define_meson. destruct (split_ws line) as [|a [|b [|c r]]]; try discriminate.
      destruct (lookup d b) as [[v|z|[|]]|]; discriminate. }
    destruct (do_define_meson d line); try discriminate; [apply IH|congruence].
  - destruct (search_cmakedefine line); [discriminate|].
    destruct (subst_meson d line). apply IH.
Qed.

(* processing a template always terminates, in every format, for every text and all data *)
Theorem do_conf_text_total f d text : do_conf_text f d text <> OutOfFuel.
Proof.
  unfold do_conf_text.
  assert (T : do_conf_str f d (readlines text) <> OutOfFuel).
  { destruct f; cbn [do_conf_str]; [apply conf_meson_loop_total|apply conf_cmake_loop_total|apply conf_cmake_loop_total]. }
  destruct (do_conf_str f d (readlines text)); try discriminate. congruence.
Qed.

(* ------------------------------------------------------------------ #cmakedefine / #cmakedefine01 lines *)
Definition cmdefine_line (lead gap kw mid name trail : str) : str :=
  lead ++ 35 :: gap ++ kw ++ mid ++ name ++ trail.

Lemma contains_app (p a b : str) : contains p (a ++ p ++ b) = true.
Proof.
  induction a as [|c a IH]; cbn [app].
  - destruct (p ++ b) eqn:E; cbn [contains]; rewrite <- ?E, prefixb_app; reflexivity.
  - cbn [contains]. rewrite IH, orb_true_r. reflexivity.
Qed.

Lemma cm_arr (lead gap kw mid name trail : str) :
  blank lead = true -> blank gap = true -> token kw = true -> blank mid = true -> mid <> [] ->
  token name = true -> blank trail = true ->
  split_ws (tl (lstrip (cmdefine_line lead gap kw mid name trail))) = [kw; name].
Proof.
  intros Hl Hg Hk Hm Hmn Hn Ht. unfold cmdefine_line. rewrite (lstrip_blank_app lead _ Hl).
  rewrite lstrip_nonspace by reflexivity. cbn [tl]. apply split_ws_two; assumption.
Qed.

Definition cm_inert (c : char) : bool := negb (c =? 64) && negb (c =? 36).
Lemma cm_inert_lit at_only (s : str) :
  forallb cm_inert s = true -> forallb (fun c => negb (c =? 64) && (at_only || negb (c =? 36))) s = true.
Proof.
  induction s as [|c s IH]; [reflexivity|]. cbn [forallb]. intros H. apply andb_true_iff in H. destruct H as [Hc Hs].
  rewrite (IH Hs), andb_true_r. unfold cm_inert in Hc. apply andb_true_iff in Hc. destruct Hc as [H1 H2].
  rewrite H1, H2, orb_true_r. reflexivity.
Qed.

(* '#cmakedefine NAME' (any indentation, blanks after '#' allowed): defined and true -> '#define NAME',
   otherwise the commented #undef *)
Theorem cmakedefine_forms at_only d (lead gap mid name trail : str) :
  blank lead = true -> blank gap = true -> blank mid = true -> mid <> [] ->
  token name = true -> blank trail = true -> forallb cm_inert name = true ->
  contains (s2l "cmakedefine01") (cmdefine_line lead gap (s2l "cmakedefine") mid name trail) = false ->
  do_define_cmake at_only d (cmdefine_line lead gap (s2l "cmakedefine") mid name trail)
  = Ok (match lookup d name with
        | Some v => if truthy v then s2l "#define " ++ name ++ [10] else undef_comment name
        | None => undef_comment name
        end).
Proof.
  intros Hl Hg Hm Hmn Hn Ht Hi Hc. unfold do_define_cmake.
  rewrite (cm_arr lead gap (s2l "cmakedefine") mid name trail Hl Hg eq_refl Hm Hmn Hn Ht). rewrite Hc.
  cbn [nth_str nth_error negb andb skipn map join]. destruct (lookup d name) as [v|]; [|reflexivity].
  destruct (truthy v); cbn [negb]; [|reflexivity].
  destruct (token_last name Hn) as [a [z [-> Hz]]].
  assert (Estrip : strip (s2l "#define " ++ (a ++ [z]) ++ [32] ++ []) = s2l "#define " ++ a ++ [z]).
  { change (s2l "#define ") with (35 :: s2l "define "). cbn [app].
    rewrite strip_eq by reflexivity.
    repl (35 :: s2l "define " ++ (a ++ [z]) ++ [32]) (((35 :: s2l "define " ++ a) ++ [z]) ++ [32])
      ltac:(cbn [app]; rewrite <- !app_assoc; reflexivity).
    rwn (rstrip_space ((35 :: s2l "define " ++ a) ++ [z]) 32 eq_refl).
    rwn (rstrip_id (35 :: s2l "define " ++ a) z Hz). cbn [app]. rewrite <- app_assoc. reflexivity. }
  rwn Estrip.
  rewrite cmake_identity_plain.
  - unfold NL. cbn [s2l app]. rewrite <- !app_assoc. reflexivity.
  - apply cm_inert_lit. rewrite forallb_app in Hi. apply andb_true_iff in Hi. destruct Hi as [Ha Hz'].
    unfold NL. cbn [app forallb]. rewrite !forallb_app. cbn [forallb] in *. unfold str, char in *. rewrite Ha, Hz'. reflexivity.
Qed.

(* '#cmakedefine01 NAME' -> '#define NAME 1' when defined and true, else '#define NAME 0' *)
Theorem cmakedefine01_forms at_only d (lead gap mid name trail : str) :
  blank lead = true -> blank gap = true -> blank mid = true -> mid <> [] ->
  token name = true -> blank trail = true -> forallb cm_inert name = true ->
  do_define_cmake at_only d (cmdefine_line lead gap (s2l "cmakedefine01") mid name trail)
  = Ok (s2l "#define " ++ name ++ [32] ++
        (match lookup d name with Some v => if truthy v then [49] else [48] | None => [48] end) ++ [10]).
Proof.
  intros Hl Hg Hm Hmn Hn Ht Hi. unfold do_define_cmake.
  rewrite (cm_arr lead gap (s2l "cmakedefine01") mid name trail Hl Hg eq_refl Hm Hmn Hn Ht).
  assert (Hc : contains (s2l "cmakedefine01") (cmdefine_line lead gap (s2l "cmakedefine01") mid name trail) = true).
  { unfold cmdefine_line.
    pose proof (contains_app (s2l "cmakedefine01") (lead ++ 35 :: gap) (mid ++ name ++ trail)) as E.
    rewrite <- app_assoc in E. exact E. }
  rewrite Hc. cbn [nth_str nth_error negb andb].
  destruct (lookup d name) as [v|]; [|reflexivity].
  set (b := if truthy v then [49] else [48]).
  assert (Hb : exists z, b = [z] /\ is_space z = false /\ cm_inert z = true).
  { subst b. destruct (truthy v); [exists 49|exists 48]; repeat split; reflexivity. }
  destruct Hb as [z [-> [Hz Hzi]]].
  replace (s2l "#define " ++ name ++ [32] ++ [z]) with ((35 :: (s2l "define " ++ name ++ [32])) ++ [z])
    by (cbn [s2l app]; rewrite <- !app_assoc; reflexivity).
  rewrite (strip_id 35 z _ eq_refl Hz).
  rewrite cmake_identity_plain.
  - unfold NL. cbn [s2l app]. rewrite <- !app_assoc. reflexivity.
  - apply cm_inert_lit. unfold NL. cbn [app forallb]. rewrite !forallb_app. cbn [forallb]. rewrite Hi, Hzi. reflexivity.
Qed.

(* ------------------------------------------------------------------ #cmakedefine VAR tok ... (get_cmake_define) *)
Definition piece (p : str * str) : str := fst p ++ snd p.        (* blanks, then a token *)
Definition piece_ok (p : str * str) : bool := blank (fst p) && nonempty (fst p) && token (snd p).

Lemma split_ws_pieces : forall (l : list (str * str)) (trail tok : str),
  blank trail = true -> forallb piece_ok l = true -> token tok = true ->
  split_ws_aux (rev tok) (concat (map piece l) ++ trail) = tok :: map snd l.
Proof.
  induction l as [|[sep t] l IH]; intros trail tok Ht Hl Htok.
  - cbn [map concat app]. destruct (token_spec tok Htok) as [Hne _].
    rewrite split_ws_aux_end; [rewrite rev_involutive; reflexivity| |exact Ht].
    intros E. apply Hne. rewrite <- (rev_involutive tok), E. reflexivity.
  - cbn [forallb] in Hl. apply andb_true_iff in Hl. destruct Hl as [Hp Hl].
    unfold piece_ok in Hp. cbn [fst snd] in Hp.
    apply andb_true_iff in Hp. destruct Hp as [Hp Htt]. apply andb_true_iff in Hp. destruct Hp as [Hsb Hsn].
    destruct (token_spec tok Htok) as [Hne _]. destruct (token_spec t Htt) as [_ Htc].
    cbn [map concat]. unfold piece at 1. cbn [fst snd]. rewrite <- !app_assoc.
    rewrite split_ws_aux_flush; [| |destruct sep; [discriminate|discriminate]|exact Hsb].
    2:{ intros E. apply Hne. rewrite <- (rev_involutive tok), E. reflexivity. }
    rewrite rev_involutive. f_equal.
    rewrite (split_ws_aux_tok t _ _ Htc). rewrite app_nil_r. apply IH; assumption.
Qed.

Definition cmdefine_line_toks (lead gap mid name : str) (toks : list (str * str)) (trail : str) : str :=
  lead ++ 35 :: gap ++ s2l "cmakedefine" ++ mid ++ name ++ concat (map piece toks) ++ trail.

Lemma cm_arr_toks (lead gap mid name : str) (toks : list (str * str)) (trail : str) :
  blank lead = true -> blank gap = true -> blank mid = true -> mid <> [] ->
  token name = true -> forallb piece_ok toks = true -> blank trail = true ->
  split_ws (tl (lstrip (cmdefine_line_toks lead gap mid name toks trail)))
  = s2l "cmakedefine" :: name :: map snd toks.
Proof.
  intros Hl Hg Hm Hmn Hn Htk Ht. unfold cmdefine_line_toks. rewrite (lstrip_blank_app lead _ Hl).
  rewrite lstrip_nonspace by reflexivity. cbn [tl]. unfold split_ws.
  rewrite (split_ws_aux_blank gap _ Hg).
  rewrite (split_ws_aux_tok (s2l "cmakedefine") _ _ eq_refl). rewrite app_nil_r.
  pose proof (split_ws_pieces ((mid, name) :: toks) trail (s2l "cmakedefine") Ht) as E.
  cbn [map concat forallb] in E. unfold piece at 1 in E. cbn [fst snd] in E. rewrite <- !app_assoc in E.
  apply E; [|reflexivity]. unfold piece_ok at 1. cbn [fst snd]. rewrite Hm, Hn, Htk.
  destruct mid; [congruence|reflexivity].
Qed.

(* the value written after the name: every token that is a key is replaced by str(its value), the
   others are kept, single blanks in between   (get_cmake_define, universal.py:1629-1636) *)
Definition cm_token_value (d : conf) (tok : str) : str :=
  match lookup d tok with Some tv => py_str tv | None => tok end.
Definition cm_define_value (d : conf) (toks : list str) : str := join [32] (map (cm_token_value d) toks).

(* '#cmakedefine NAME tok ...' for a defined, true NAME: the line "#define NAME <value>" - stripped -
   goes through the variable substitution of the format once (so @VAR@ / ${VAR} written in the
   template line are expanded); for all spacings and all token lists *)
Theorem cmakedefine_tokens at_only d (lead gap mid name : str) (toks : list (str * str)) (trail : str) (v : value) :
  blank lead = true -> blank gap = true -> blank mid = true -> mid <> [] ->
  token name = true -> forallb piece_ok toks = true -> blank trail = true ->
  contains (s2l "cmakedefine01") (cmdefine_line_toks lead gap mid name toks trail) = false ->
  lookup d name = Some v -> truthy v = true ->
  do_define_cmake at_only d (cmdefine_line_toks lead gap mid name toks trail)
  = match subst_cmake at_only d
            (strip (s2l "#define " ++ name ++ [32] ++ cm_define_value d (map snd toks)) ++ [10]) with
    | Ok (o, _) => Ok o
    | MesonErr => MesonErr | PyErr c => PyErr c | OutOfFuel => OutOfFuel
    end.
Proof.
  intros Hl Hg Hm Hmn Hn Htk Ht Hc Hv Htr. unfold do_define_cmake.
  rewrite (cm_arr_toks lead gap mid name toks trail Hl Hg Hm Hmn Hn Htk Ht). rewrite Hc.
  cbn [nth_str nth_error negb andb skipn]. rewrite Hv, Htr. cbn [negb andb]. reflexivity.
Qed.

(* ... and when neither the name nor the value contains '@' or '$' (and the value does not end in a
   blank) the line is exactly "#define NAME value" *)
Theorem cmakedefine_tokens_plain at_only d (lead gap mid name : str) (toks : list (str * str)) (trail : str)
        (v : value) (val : str) (z : char) :
  blank lead = true -> blank gap = true -> blank mid = true -> mid <> [] ->
  token name = true -> forallb piece_ok toks = true -> blank trail = true ->
  contains (s2l "cmakedefine01") (cmdefine_line_toks lead gap mid name toks trail) = false ->
  lookup d name = Some v -> truthy v = true ->
  cm_define_value d (map snd toks) = val ++ [z] -> is_space z = false ->
  forallb cm_inert (name ++ val ++ [z]) = true ->
  do_define_cmake at_only d (cmdefine_line_toks lead gap mid name toks trail)
  = Ok (s2l "#define " ++ name ++ [32] ++ val ++ [z] ++ [10]).
Proof.
  intros Hl Hg Hm Hmn Hn Htk Ht Hc Hv Htr Hval Hz Hin.
  rewrite (cmakedefine_tokens at_only d lead gap mid name toks trail v Hl Hg Hm Hmn Hn Htk Ht Hc Hv Htr).
  rewrite Hval.
  assert (Es : strip (s2l "#define " ++ name ++ [32] ++ val ++ [z]) = s2l "#define " ++ name ++ [32] ++ val ++ [z]).
  { change (s2l "#define ") with (35 :: s2l "define "). cbn [app]. rewrite strip_eq by reflexivity.
    repl (35 :: s2l "define " ++ name ++ 32 :: val ++ [z]) ((35 :: s2l "define " ++ name ++ 32 :: val) ++ [z])
      ltac:(cbn [app]; rewrite <- !app_assoc; reflexivity).
    rwn (rstrip_id (35 :: s2l "define " ++ name ++ 32 :: val) z Hz). cbn [app]. rewrite <- !app_assoc. reflexivity. }
  rwn Es. rewrite cmake_identity_plain.
  - rewrite <- !app_assoc. reflexivity.
  - apply cm_inert_lit. rewrite !forallb_app in *. cbn [forallb] in *.
    apply andb_true_iff in Hin. destruct Hin as [H1 H2]. apply andb_true_iff in H2. destruct H2 as [H2 H3].
    unfold str, char in *. rewrite H1, H2, H3. reflexivity.
Qed.
