(* Subst/Conf.v — the define lines and the line loops:
     do_define_meson       mesonbuild/utils/universal.py:1591-1616
     do_define_cmake       mesonbuild/utils/universal.py:1618-1659
     do_conf_str_meson     mesonbuild/utils/universal.py:1692-1717
     do_conf_str_cmake     mesonbuild/utils/universal.py:1719-1750
     do_conf_file          mesonbuild/utils/universal.py:1752-1770 (readlines / writelines)
   As in /repo after the C14 fix commits: cmakedefine-indent (arr = line.lstrip()[1:].split(), a3dbc3e),
   mesondefine-value-rescanned (no second scan of a string value, 301c8e1 / 3c80eb2) and
   define-line-eol (define lines keep their terminator).
   Model file: definitions only, no proofs. *)
From MV Require Import Base.Strs Subst.Data Subst.Meson Subst.CMake.
Open Scope N_scope.

Definition NL : str := [10].
Definition undef_comment (v : str) : str := s2l "/* #undef " ++ v ++ s2l " */" ++ NL.

(* ---------------------------------------------------------------- #mesondefine *)
Definition do_define_meson (d : conf) (line : str) : result str :=
  match split_ws line with                                   (* arr = line.split() *)
  | [_; varname] =>
      match lookup d varname with
      | None => Ok (undef_comment varname)                   (* KeyError *)
      | Some (VStr v) =>
          (* f'#define {varname} {v}'.strip() + '\n'   [patched: the finished line is no longer
             passed through do_replacement_meson] *)
          Ok (strip (s2l "#define " ++ varname ++ [32] ++ v) ++ NL)
      | Some (VBool true) => Ok (s2l "#define " ++ varname ++ NL)
      | Some (VBool false) => Ok (s2l "#undef " ++ varname ++ NL)
      | Some (VInt z) => Ok (s2l "#define " ++ varname ++ [32] ++ Z_dec z ++ NL)
      end
  | _ => MesonErr                                            (* len(arr) != 2 *)
  end.

(* eol = line[len(line.rstrip('\r\n')):] ; if eol: line = line[:-1] + eol
   [patched: a define line keeps the template line's own terminator] *)
Definition is_crlf (c : char) : bool := (c =? 10) || (c =? 13).
Definition line_eol (line : str) : str := rev (fst (span is_crlf (rev line))).
Definition set_eol (line out : str) : str :=
  match line_eol line with
  | [] => out
  | e => removelast out ++ e
  end.

(* re.search(r'#\s*cmakedefine', line) *)
Fixpoint search_cmakedefine (s : str) : bool :=
  match s with
  | [] => false
  | c :: r => ((c =? 35) && prefixb (s2l "cmakedefine") (lstrip r)) || search_cmakedefine r
  end.

Definition is_nil {A} (l : list A) : bool := match l with [] => true | _ => false end.

Record conf_out := mk_out { out_lines : list str; out_missing : list str; out_useless : bool }.

Fixpoint conf_meson_loop (d : conf) (lines : list str) (acc : list str) (miss : list str)
         (useless : bool) : result conf_out :=
  match lines with
  | [] => Ok (mk_out (rev acc) miss useless)
  | line :: rest =>
      if prefixb (s2l "#mesondefine") (lstrip line) then
        match do_define_meson d line with
        | Ok l => conf_meson_loop d rest (set_eol line l :: acc) miss false
        | MesonErr => MesonErr | PyErr c => PyErr c | OutOfFuel => OutOfFuel
        end
      else if search_cmakedefine line then MesonErr            (* Format error *)
      else
        let '(l, m) := subst_meson d line in
        conf_meson_loop d rest (l :: acc) (miss ++ m) (if is_nil m then useless else false)
  end.

Definition do_conf_str_meson (d : conf) (lines : list str) : result conf_out :=
  conf_meson_loop d lines [] [] (is_nil d).            (* confdata_useless = not confdata.keys() *)

(* ---------------------------------------------------------------- #cmakedefine *)
Definition nth_str (n : nat) (l : list str) : option str := nth_error l n.

Definition do_define_cmake (at_only : bool) (d : conf) (line : str) : result str :=
  let bool01 := contains (s2l "cmakedefine01") line in      (* 'cmakedefine01' in line *)
  let arr := split_ws (tl (lstrip line)) in                  (* line.lstrip()[1:].split()  [patched] *)
  match nth_str 1 arr with
  | None => PyErr (s2l "IndexError")                         (* varname = arr[1] *)
  | Some varname =>
      match lookup d varname with
      | None =>
          if bool01 then Ok (s2l "#define " ++ varname ++ s2l " 0" ++ NL)
          else Ok (undef_comment varname)
      | Some v =>
          if negb bool01 && negb (truthy v) then Ok (undef_comment varname)
          else
            (* get_cmake_define *)
            let res :=
              if bool01 then (if truthy v then [49] else [48])       (* str(int(bool(v))) *)
              else join [32] (map (fun tok => match lookup d tok with
                                              | Some tv => py_str tv      (* str(v) *)
                                              | None => tok end)
                                  (skipn 2 arr)) in
            let result := strip (s2l "#define " ++ varname ++ [32] ++ res) ++ NL in
            match subst_cmake at_only d result with
            | Ok (o, _) => Ok o
            | MesonErr => MesonErr | PyErr c => PyErr c | OutOfFuel => OutOfFuel
            end
      end
  end.

Definition is_cmakedefine_line (line : str) : bool :=
  let st := lstrip line in
  match st with
  | c :: r => (2 <=? length st)%nat && (c =? 35) && prefixb (s2l "cmakedefine") (lstrip r)
  | [] => false
  end.

Fixpoint conf_cmake_loop (at_only : bool) (d : conf) (lines : list str) (acc : list str)
         (miss : list str) (useless : bool) : result conf_out :=
  match lines with
  | [] => Ok (mk_out (rev acc) miss useless)
  | line :: rest =>
      if is_cmakedefine_line line then
        match do_define_cmake at_only d line with
        | Ok l => conf_cmake_loop at_only d rest (set_eol line l :: acc) miss false
        | MesonErr => MesonErr | PyErr c => PyErr c | OutOfFuel => OutOfFuel
        end
      else if contains (s2l "#mesondefine") line then MesonErr   (* Format error *)
      else
        match subst_cmake at_only d line with
        | Ok (l, m) =>
            conf_cmake_loop at_only d rest (l :: acc) (miss ++ m)
                            (if is_nil m then useless else false)
        | MesonErr => MesonErr | PyErr c => PyErr c | OutOfFuel => OutOfFuel
        end
  end.

Definition do_conf_str_cmake (at_only : bool) (d : conf) (lines : list str) : result conf_out :=
  conf_cmake_loop at_only d lines [] [] (is_nil d).

(* ---------------------------------------------------------------- whole files *)
Inductive format := FMeson | FCMake | FCMakeAt.

Definition do_conf_str (f : format) (d : conf) (lines : list str) : result conf_out :=
  match f with
  | FMeson => do_conf_str_meson d lines
  | FCMake => do_conf_str_cmake false d lines
  | FCMakeAt => do_conf_str_cmake true d lines
  end.

(* do_conf_file: readlines() with newline='' ; writelines() with newline='' *)
Definition do_conf_text (f : format) (d : conf) (text : str) : result (str * list str * bool) :=
  match do_conf_str f d (readlines text) with
  | Ok o => Ok (concat (out_lines o), out_missing o, out_useless o)
  | MesonErr => MesonErr | PyErr c => PyErr c | OutOfFuel => OutOfFuel
  end.

(* do_replacement (universal.py:1460-1468) on one string *)
Definition do_replacement (f : format) (d : conf) (line : str) : result (str * list str) :=
  match f with
  | FMeson => Ok (subst_meson d line)
  | FCMake => subst_cmake false d line
  | FCMakeAt => subst_cmake true d line
  end.
