(* Subst/Entry.v — entry points used by the correspondence check (harness/check_C14.py,
   harness/impl/c14.py): arguments and results are single strings.
     data  : entries separated by chr(2); an entry is key chr(1) kind chr(1) value chr(1) desc
             kind = "s" (str) | "i" (decimal int) | "b" (T/F)
     conf  fmt data text    -> "OK" chr(1) output chr(1) missing (sorted, chr(2)-joined) chr(1) T/F
                               | "EXC:MesonException" | "EXC:<class>"
     repl  fmt data line    -> "OK" chr(1) output chr(1) missing
     header fmt macro data  -> text        (fmt = "c" | "nasm" | "json";  macro "" = None) *)
From MV Require Import Base.Strs Subst.Data Subst.Meson Subst.CMake Subst.Conf Subst.Header.
Open Scope N_scope.

Definition SEP1 : str := [1].
Definition SEP2 : str := [2].

Fixpoint split_on_aux (sep : char) (cur : str) (s : str) : list str :=
  match s with
  | [] => [rev cur]
  | c :: r => if c =? sep then rev cur :: split_on_aux sep [] r else split_on_aux sep (c :: cur) r
  end.
Definition split_on (sep : char) (s : str) : list str := split_on_aux sep [] s.

Definition parse_Z (s : str) : Z :=
  match s with
  | 45 :: r => Z.opp (Z.of_N (digits_val r))
  | _ => Z.of_N (digits_val s)
  end.

Definition parse_entry (s : str) : option entry :=
  match split_on 1 s with
  | [k; kind; v; desc] =>
      if str_eqb kind (s2l "s") then Some (k, (VStr v, desc))
      else if str_eqb kind (s2l "i") then Some (k, (VInt (parse_Z v), desc))
      else if str_eqb kind (s2l "b") then Some (k, (VBool (str_eqb v (s2l "T")), desc))
      else None
  | _ => None
  end.

Fixpoint parse_entries (l : list str) : conf :=
  match l with
  | [] => []
  | x :: r => match parse_entry x with Some e => e :: parse_entries r | None => parse_entries r end
  end.
Definition parse_data (s : str) : conf :=
  match s with [] => [] | _ => parse_entries (split_on 2 s) end.

Definition parse_fmt (s : str) : option format :=
  if str_eqb s (s2l "meson") then Some FMeson
  else if str_eqb s (s2l "cmake") then Some FCMake
  else if str_eqb s (s2l "cmake@") then Some FCMakeAt
  else None.

Definition render_missing (m : list str) : str := join SEP2 (dedup_sorted (sort_strs m)).

Definition render_err {A} (r : result A) : str :=
  match r with
  | Ok _ => s2l "OK"
  | MesonErr => s2l "EXC:MesonException"
  | PyErr c => s2l "EXC:" ++ c
  | OutOfFuel => s2l "OUT-OF-FUEL"
  end.

Definition run (fn : str) (args : list str) : str :=
  if str_eqb fn (s2l "conf") then
    match args with
    | [f; data; text] =>
        match parse_fmt f with
        | Some fm =>
            match do_conf_text fm (parse_data data) text with
            | Ok (o, m, u) => join SEP1 [s2l "OK"; o; render_missing m; bool_str u]
            | e => render_err e
            end
        | None => s2l "?"
        end
    | _ => s2l "?"
    end
  else if str_eqb fn (s2l "repl") then
    match args with
    | [f; data; line] =>
        match parse_fmt f with
        | Some fm =>
            match do_replacement fm (parse_data data) line with
            | Ok (o, m) => join SEP1 [s2l "OK"; o; render_missing m]
            | e => render_err e
            end
        | None => s2l "?"
        end
    | _ => s2l "?"
    end
  else if str_eqb fn (s2l "header") then
    match args with
    | [f; macro; data] =>
        if str_eqb f (s2l "c") then dump_header HC macro (parse_data data)
        else if str_eqb f (s2l "nasm") then dump_header HNasm macro (parse_data data)
        else if str_eqb f (s2l "json") then dump_json (parse_data data)
        else s2l "?"
    | _ => s2l "?"
    end
  else s2l "?".
