(* Crash/Proofs.v — C09: every prefix of every command's mutation sequence leaves a
   recoverable combination of state files, with old-or-new option values. *)
From Coq Require Import Lia.
From MV Require Import Base.Strs Crash.Model.
Open Scope N_scope.

(* ------------------------------------------------------------------ files *)
Lemma file_eqb_refl : forall f, file_eqb f f = true.
Proof. destruct f; simpl; auto using N.eqb_refl. Qed.

Lemma file_eqb_eq : forall a b, file_eqb a b = true <-> a = b.
Proof.
  intros a b; split.
  - destruct a, b; simpl; intro H; try discriminate; try reflexivity;
      apply N.eqb_eq in H; subst; reflexivity.
  - intros ->; apply file_eqb_refl.
Qed.

Lemma file_eqb_neq : forall a b, a <> b -> file_eqb a b = false.
Proof.
  intros a b H; destruct (file_eqb a b) eqn:E; auto.
  apply file_eqb_eq in E; contradiction.
Qed.

Lemma upd_same : forall f x st, upd f x st f = x.
Proof. intros; unfold upd; rewrite file_eqb_refl; reflexivity. Qed.

Lemma upd_other : forall f g x st, g <> f -> upd f x st g = st g.
Proof. intros; unfold upd; rewrite file_eqb_neq; auto. Qed.

(* ------------------------------------------------------------------ op lists *)
Definition targets (o : op) : list file :=
  match o with
  | OMkdir d => [d] | OOpen f => [f] | OAppend f => [f] | OWrite f _ => [f]
  | OFsync _ => [] | ORename a b => [a; b] | OUnlink f => [f] | ORmdir d => [d]
  end.
Definition touches (f : file) (o : op) : bool := existsb (file_eqb f) (targets o).
Definition notouch (f : file) (ops : list op) : bool := forallb (fun o => negb (touches f o)) ops.

Lemma apply_untouched : forall f o st, touches f o = false -> apply_op o st f = st f.
Proof.
  intros f o st H; unfold touches in H.
  destruct o as [d|g|g|g c|g|a b|g|d]; simpl in *;
    repeat rewrite orb_false_r in H; try reflexivity.
  - destruct (st d); auto. unfold upd; rewrite H; auto.
  - unfold upd; rewrite H; auto.
  - destruct (st g); auto. unfold upd; rewrite H; auto.
  - destruct c; unfold upd; rewrite H; auto.
  - apply orb_false_iff in H as [Ha Hb].
    destruct (st a); auto; unfold upd; rewrite Ha, Hb; auto.
  - unfold upd; rewrite H; auto.
  - unfold upd; rewrite H; auto.
Qed.

Lemma run_app : forall a b st, run_ops (a ++ b) st = run_ops b (run_ops a st).
Proof. intros; unfold run_ops; apply fold_left_app. Qed.

Lemma run_cons : forall o a st, run_ops (o :: a) st = run_ops a (apply_op o st).
Proof. reflexivity. Qed.

Lemma run_untouched : forall f ops st, notouch f ops = true -> run_ops ops st f = st f.
Proof.
  intros f ops; induction ops as [|o ops IH]; intros st H; [reflexivity|].
  simpl in H. apply andb_true_iff in H as [H1 H2]. apply negb_true_iff in H1.
  rewrite run_cons, IH; auto using apply_untouched.
Qed.

Lemma notouch_app : forall f a b, notouch f (a ++ b) = notouch f a && notouch f b.
Proof. intros; unfold notouch; apply forallb_app. Qed.

Lemma notouch_firstn : forall f k ops, notouch f ops = true -> notouch f (firstn k ops) = true.
Proof.
  intros f k; induction k as [|k IH]; intros [|o ops] H; simpl in *; auto.
  apply andb_true_iff in H as [H1 H2]; rewrite H1; simpl; auto.
Qed.

Lemma prefix_untouched : forall f ops k st,
  notouch f ops = true -> run_ops (firstn k ops) st f = st f.
Proof. intros; apply run_untouched, notouch_firstn; auto. Qed.

(* position of the kill inside  a ++ o :: b *)
Lemma prefix_cases : forall (a : list op) (o : op) (b : list op) (k : nat) st,
  (exists k', run_ops (firstn k (a ++ o :: b)) st = run_ops (firstn k' a) st) \/
  (exists k', run_ops (firstn k (a ++ o :: b)) st = run_ops (firstn k' b) (apply_op o (run_ops a st))).
Proof.
  intros a o b k st. rewrite firstn_app.
  destruct (Nat.le_gt_cases k (length a)) as [Hle|Hgt].
  - left. exists k. replace (k - length a)%nat with 0%nat by lia. simpl. rewrite app_nil_r. reflexivity.
  - right. exists (k - length a - 1)%nat.
    rewrite firstn_all2 by lia.
    destruct (k - length a)%nat as [|n] eqn:E; [lia|].
    simpl. rewrite run_app, run_cons. replace (n - 0)%nat with n by lia. reflexivity.
Qed.

Lemma prefix_app_cases : forall (a b : list op) (k : nat) st,
  (exists k', run_ops (firstn k (a ++ b)) st = run_ops (firstn k' a) st) \/
  (exists k', run_ops (firstn k (a ++ b)) st = run_ops (firstn k' b) (run_ops a st)).
Proof.
  intros a b k st. rewrite firstn_app.
  destruct (Nat.le_gt_cases k (length a)) as [Hle|Hgt].
  - left. exists k. replace (k - length a)%nat with 0%nat by lia. simpl. rewrite app_nil_r. reflexivity.
  - right. exists (k - length a)%nat. rewrite firstn_all2 by lia. apply run_app.
Qed.

(* ------------------------------------------------------------------ alists *)
Lemma alookup_app : forall k a b,
  alookup k (a ++ b) = match alookup k b with Some v => Some v | None => alookup k a end.
Proof.
  intros k a b; induction a as [|[k' v] a IH]; simpl.
  - destruct (alookup k b); reflexivity.
  - rewrite IH. destruct (alookup k b); auto.
Qed.

Lemma value_app : forall k a b,
  value (a ++ b) k = match alookup k b with Some v => v | None => value a k end.
Proof. intros; unfold value; rewrite alookup_app; destruct (alookup k b); reflexivity. Qed.

Lemma value_app_nil : forall k a, value (a ++ []) k = value a k.
Proof. intros; rewrite app_nil_r; reflexivity. Qed.

(* ------------------------------------------------------------------ blocks: what they leave behind *)
Lemma partials_notouch : forall f g n, g <> f -> notouch g (partials f n) = true.
Proof.
  intros f g n H; unfold partials; induction n; simpl; auto.
  unfold touches; simpl. rewrite (file_eqb_neq g f H). simpl. exact IHn.
Qed.

Ltac nt := unfold notouch, touches; simpl; repeat rewrite file_eqb_refl; simpl; try reflexivity.

(* the part of save_core before the final rename *)
Definition save_core_pre (e : env) (l : store) (st : fs) : list op :=
  (match st Core with
   | Absent => []
   | Whole c => [OOpen CorePrev; OWrite CorePrev (Some c)]
   | Torn => [OOpen CorePrev; OWrite CorePrev None]
   end) ++
  [OOpen CoreTmp] ++ partials CoreTmp (chunks e) ++ [OWrite CoreTmp (Some (CStore l)); OFsync CoreTmp].

Lemma save_core_split : forall e l st,
  save_core e l st = save_core_pre e l st ++ [ORename CoreTmp Core].
Proof.
  intros; unfold save_core, save_core_pre. repeat rewrite <- app_assoc. simpl. reflexivity.
Qed.

Lemma save_core_pre_notouch : forall e l st f,
  f <> CorePrev -> f <> CoreTmp -> notouch f (save_core_pre e l st) = true.
Proof.
  intros e l st f H1 H2. unfold save_core_pre.
  repeat rewrite notouch_app. rewrite partials_notouch by auto.
  assert (A : file_eqb f CorePrev = false) by (apply file_eqb_neq; auto).
  assert (B : file_eqb f CoreTmp = false) by (apply file_eqb_neq; auto).
  destruct (st Core) as [| |c]; unfold notouch, touches; simpl; rewrite ?A, ?B; reflexivity.
Qed.

Lemma save_core_pre_tmp : forall e l st st0,
  run_ops (save_core_pre e l st) st0 CoreTmp = Whole (CStore l).
Proof.
  intros e l st st0. unfold save_core_pre.
  repeat rewrite run_app. simpl. apply upd_same.
Qed.

Definition write_cmd_pre (e : env) (r : alist) (nf : bool) : list op :=
  [OOpen CmdTmp] ++ partials CmdTmp (chunks e) ++ [OWrite CmdTmp (Some (CRec r nf))].

Lemma write_cmd_split : forall e r nf, atomic_cmd e = true ->
  write_cmd e r nf = write_cmd_pre e r nf ++ [ORename CmdTmp Cmd].
Proof.
  intros e r nf H; unfold write_cmd, write_cmd_pre; rewrite H. repeat rewrite <- app_assoc. reflexivity.
Qed.

Lemma write_cmd_pre_notouch : forall e r nf f, f <> CmdTmp -> notouch f (write_cmd_pre e r nf) = true.
Proof.
  intros e r nf f H. unfold write_cmd_pre. repeat rewrite notouch_app. rewrite partials_notouch by auto.
  assert (A : file_eqb f CmdTmp = false) by (apply file_eqb_neq; auto).
  unfold notouch, touches; simpl; rewrite ?A; reflexivity.
Qed.

Lemma write_cmd_pre_tmp : forall e r nf st0, run_ops (write_cmd_pre e r nf) st0 CmdTmp = Whole (CRec r nf).
Proof. intros; unfold write_cmd_pre; repeat rewrite run_app; simpl; apply upd_same. Qed.

Lemma flat_map_notouch : forall (A : Type) (blk : A -> list op) f l,
  (forall i, notouch f (blk i) = true) -> notouch f (flat_map blk l) = true.
Proof.
  intros A blk f l H; induction l as [|i l IH]; simpl; auto.
  rewrite notouch_app, H, IH; reflexivity.
Qed.

Lemma gen_ninja_notouch : forall e f,
  f <> Ninja -> f <> NinjaTmp -> (forall i, f <> Dat i) -> notouch f (gen_ninja e) = true.
Proof.
  intros e f H1 H2 H3. unfold gen_ninja. repeat rewrite notouch_app.
  assert (A : file_eqb f Ninja = false) by (apply file_eqb_neq; auto).
  assert (B : file_eqb f NinjaTmp = false) by (apply file_eqb_neq; auto).
  rewrite flat_map_notouch.
  - unfold notouch, touches; simpl; rewrite ?A, ?B; reflexivity.
  - intro i. unfold notouch, touches; simpl. rewrite (file_eqb_neq f (Dat i) (H3 i)). reflexivity.
Qed.

Lemma save_build_notouch : forall e f, f <> BuildDat -> notouch f (save_build e) = true.
Proof.
  intros e f H. unfold save_build. repeat rewrite notouch_app. rewrite partials_notouch by auto.
  assert (A : file_eqb f BuildDat = false) by (apply file_eqb_neq; auto).
  unfold notouch, touches; simpl; rewrite ?A; reflexivity.
Qed.

Lemma intro_notouch : forall l f, f <> InfoTmp -> (forall i, f <> Info i) -> notouch f (intro l) = true.
Proof.
  intros l f H1 H2. unfold intro. apply flat_map_notouch. intro i.
  unfold notouch, touches; simpl.
  rewrite (file_eqb_neq f InfoTmp H1), (file_eqb_neq f (Info i) (H2 i)). reflexivity.
Qed.

Lemma mkdirs_notouch : forall st f, f <> PrivDir -> f <> InfoDir -> notouch f (mkdirs st) = true.
Proof.
  intros st f H1 H2. unfold mkdirs. rewrite notouch_app.
  assert (A : file_eqb f PrivDir = false) by (apply file_eqb_neq; auto).
  assert (B : file_eqb f InfoDir = false) by (apply file_eqb_neq; auto).
  destruct (exists_ (st PrivDir)), (exists_ (st InfoDir)); unfold notouch, touches; simpl; rewrite ?A, ?B; reflexivity.
Qed.

Arguments write_cmd_pre : simpl never.
Arguments save_core_pre : simpl never.
Arguments intro : simpl never.
Arguments gen_ninja : simpl never.
Arguments save_build : simpl never.
Arguments mkdirs : simpl never.
Arguments partials : simpl never.

(* ------------------------------------------------------------------ views *)
(* the two files the follow-up's option values depend on *)
Definition sameview (s st : fs) : Prop := s Core = st Core /\ s Cmd = st Cmd.

Lemma sameview_untouched : forall ops k st,
  notouch Core ops = true -> notouch Cmd ops = true -> sameview (run_ops (firstn k ops) st) st.
Proof. intros; split; apply prefix_untouched; auto. Qed.

Lemma sameview_run : forall ops st,
  notouch Core ops = true -> notouch Cmd ops = true -> sameview (run_ops ops st) st.
Proof. intros; split; apply run_untouched; auto. Qed.

(* Shape of the mutation sequences of the fixed tree:
     X0 ++ [ORename t1 f1] ++ X1 ++ [ORename t2 f2] ++ X2
   where {f1,f2} = {coredata.dat, cmd_line.txt}, no X touches f1 or f2, and the temporary
   file is complete when it is renamed. *)
Section TwoRenames.
  Variables (t1 f1 t2 f2 : file) (c1 c2 : content).
  Hypothesis d1 : f1 <> t1.  Hypothesis d2 : f2 <> t1.  Hypothesis d3 : f1 <> f2.
  Hypothesis d4 : f1 <> t2.  Hypothesis d5 : f2 <> t2.
  Variables (X0 X1 X2 : list op) (st : fs).
  Hypothesis H01 : notouch f1 X0 = true.
  Hypothesis H02 : notouch f2 X0 = true.
  Hypothesis H11 : notouch f1 X1 = true.
  Hypothesis H12 : notouch f2 X1 = true.
  Hypothesis H21 : notouch f1 X2 = true.
  Hypothesis H22 : notouch f2 X2 = true.
  Hypothesis Htmp1 : run_ops X0 st t1 = Whole c1.
  Hypothesis Htmp2 : forall s, run_ops X1 s t2 = Whole c2.

  Let ops := X0 ++ ORename t1 f1 :: X1 ++ ORename t2 f2 :: X2.
  Let s1 := apply_op (ORename t1 f1) (run_ops X0 st).
  Let s2 := apply_op (ORename t2 f2) (run_ops X1 s1).

  Lemma tr_s1 : s1 f1 = Whole c1 /\ s1 f2 = st f2.
  Proof.
    subst s1. simpl. rewrite Htmp1. split.
    - rewrite upd_other by exact d1. apply upd_same.
    - rewrite upd_other by exact d2. rewrite upd_other by (intro E; apply d3; auto).
      apply run_untouched; auto.
  Qed.

  Lemma tr_s2 : s2 f1 = Whole c1 /\ s2 f2 = Whole c2.
  Proof.
    destruct tr_s1 as [A B]. subst s2. simpl. rewrite Htmp2. split.
    - rewrite upd_other by exact d4. rewrite upd_other by exact d3.
      rewrite run_untouched; auto.
    - rewrite upd_other by exact d5. apply upd_same.
  Qed.

  Lemma two_renames_views : forall k,
    let s := run_ops (firstn k ops) st in
    (s f1 = st f1 /\ s f2 = st f2) \/
    (s f1 = Whole c1 /\ s f2 = st f2) \/
    (s f1 = Whole c1 /\ s f2 = Whole c2).
  Proof.
    intros k s. subst s ops.
    destruct (prefix_cases X0 (ORename t1 f1) (X1 ++ ORename t2 f2 :: X2) k st) as [[k' E]|[k' E]];
      rewrite E; clear E.
    - left. split; apply prefix_untouched; auto.
    - fold s1. destruct tr_s1 as [A B].
      destruct (prefix_cases X1 (ORename t2 f2) X2 k' s1) as [[k2 E]|[k2 E]]; rewrite E; clear E.
      + right; left. rewrite !prefix_untouched by auto. auto.
      + right; right. fold s2. destruct tr_s2 as [C D]. rewrite !prefix_untouched by auto. auto.
  Qed.

  Lemma two_renames_final : run_ops ops st f1 = Whole c1 /\ run_ops ops st f2 = Whole c2.
  Proof.
    subst ops. rewrite run_app, run_cons, run_app, run_cons. fold s1. fold s2.
    destruct tr_s2 as [C D]. rewrite !run_untouched by auto. auto.
  Qed.
End TwoRenames.

(* X0 ++ [ORename t f] *)
Section OneRename.
  Variables (t f g : file) (c : content).
  Hypothesis d1 : f <> t.  Hypothesis d2 : g <> t.  Hypothesis d3 : g <> f.
  Variables (X0 X1 : list op) (st : fs).
  Hypothesis H0f : notouch f X0 = true.
  Hypothesis H0g : notouch g X0 = true.
  Hypothesis H1f : notouch f X1 = true.
  Hypothesis H1g : notouch g X1 = true.
  Hypothesis Htmp : run_ops X0 st t = Whole c.

  Lemma one_rename_views : forall k,
    let s := run_ops (firstn k (X0 ++ ORename t f :: X1)) st in
    s g = st g /\ (s f = st f \/ s f = Whole c).
  Proof.
    intros k s. subst s.
    destruct (prefix_cases X0 (ORename t f) X1 k st) as [[k' E]|[k' E]]; rewrite E; clear E.
    - rewrite !prefix_untouched by auto. auto.
    - rewrite !prefix_untouched by auto. simpl. rewrite Htmp. split.
      + rewrite upd_other by exact d2. rewrite upd_other by exact d3. apply run_untouched; auto.
      + right. rewrite upd_other by exact d1. apply upd_same.
  Qed.

  Lemma one_rename_final :
    run_ops (X0 ++ ORename t f :: X1) st f = Whole c /\ run_ops (X0 ++ ORename t f :: X1) st g = st g.
  Proof.
    rewrite run_app, run_cons. rewrite !run_untouched by auto. simpl. rewrite Htmp. split.
    - rewrite upd_other by exact d1. apply upd_same.
    - rewrite upd_other by exact d2. rewrite upd_other by exact d3. apply run_untouched; auto.
  Qed.
End OneRename.

(* ------------------------------------------------------------------ the invariant *)
Definition core_ok (x : fstate) : Prop := x = Absent \/ exists s, x = Whole (CStore s).
Definition cmd_ok (x : fstate) : Prop := x = Absent \/ exists r nf, x = Whole (CRec r nf).
(* coredata.dat and cmd_line.txt are never torn *)
Definition Inv (st : fs) : Prop := core_ok (st Core) /\ cmd_ok (st Cmd).
Definition fixed (e : env) : Prop := atomic_cmd e = true /\ keep_cmd e = true /\ core_first e = false.

Lemma Inv_empty : Inv empty_fs.
Proof. split; left; reflexivity. Qed.

(* what a configuring run stores / records, as a function of the directory it finds and the world *)
Definition rec_of (x : fstate) : alist * bool :=
  match x with Whole (CRec r nf) => (r, nf) | _ => ([], false) end.
Definition sl_store (w : world) (D : alist) (nf : bool) (st : fs) : store :=
  match st Core with
  | Whole (CStore s) => override s D
  | _ => match st Cmd with
         | Whole (CRec r nfr) => resolve w (nf || nfr) (r ++ D)
         | _ => resolve w nf D
         end
  end.
Definition sl_rec (D : alist) (nf : bool) (st : fs) : alist * bool :=
  match st Cmd with
  | Whole (CRec r nfr) => (r ++ D, match st Core with Whole (CStore _) => nfr | _ => nf || nfr end)
  | _ => (D, nf)
  end.

Lemma setup_like_Inv : forall e w D nf st, Inv st ->
  setup_like e w D nf st =
  (mkdirs st ++ body e (sl_store w D nf st) (fst (sl_rec D nf st)) (snd (sl_rec D nf st)) st, Done).
Proof.
  intros e w D nf st [[Hc|[l Hc]] [Hm|[r [n Hm]]]]; unfold setup_like, sl_store, sl_rec; rewrite Hc, Hm; reflexivity.
Qed.

Definition X0_of (e : env) (l : store) (st : fs) : list op := mkdirs st ++ save_core_pre e l st.
Definition X1_of (e : env) (r : alist) (nf : bool) : list op := gen_ninja e ++ save_build e ++ write_cmd_pre e r nf.

Lemma body_shape : forall e l r nf st, atomic_cmd e = true ->
  mkdirs st ++ body e l r nf st =
  X0_of e l st ++ ORename CoreTmp Core :: X1_of e r nf ++ ORename CmdTmp Cmd :: intro (infos e).
Proof.
  intros e l r nf st H. unfold body, X0_of, X1_of. rewrite save_core_split, (write_cmd_split e r nf H).
  repeat rewrite <- app_assoc. simpl. reflexivity.
Qed.

Lemma X0_notouch : forall e l st f,
  f <> PrivDir -> f <> InfoDir -> f <> CorePrev -> f <> CoreTmp -> notouch f (X0_of e l st) = true.
Proof.
  intros. unfold X0_of. rewrite notouch_app, mkdirs_notouch, save_core_pre_notouch; auto.
Qed.

Lemma X1_notouch : forall e r nf f,
  f <> Ninja -> f <> NinjaTmp -> (forall i, f <> Dat i) -> f <> BuildDat -> f <> CmdTmp ->
  notouch f (X1_of e r nf) = true.
Proof.
  intros. unfold X1_of. rewrite !notouch_app, gen_ninja_notouch, save_build_notouch, write_cmd_pre_notouch; auto.
Qed.

Lemma X0_tmp : forall e l st st0, run_ops (X0_of e l st) st0 CoreTmp = Whole (CStore l).
Proof. intros. unfold X0_of. rewrite run_app. apply save_core_pre_tmp. Qed.

Lemma X1_tmp : forall e r nf s, run_ops (X1_of e r nf) s CmdTmp = Whole (CRec r nf).
Proof. intros. unfold X1_of. rewrite !run_app. apply write_cmd_pre_tmp. Qed.

Ltac dd := try discriminate; try (intro; discriminate).

(* every prefix of a configuring run: (coredata.dat, cmd_line.txt) is
   (before, before) | (after, before) | (after, after) *)
Lemma body_views : forall e l r nf st k, atomic_cmd e = true ->
  let s := run_ops (firstn k (mkdirs st ++ body e l r nf st)) st in
  (s Core = st Core /\ s Cmd = st Cmd) \/
  (s Core = Whole (CStore l) /\ s Cmd = st Cmd) \/
  (s Core = Whole (CStore l) /\ s Cmd = Whole (CRec r nf)).
Proof.
  intros e l r nf st k H. rewrite body_shape by auto.
  apply (two_renames_views CoreTmp Core CmdTmp Cmd (CStore l) (CRec r nf)); dd;
    try (apply X0_notouch; dd); try (apply X1_notouch; dd); try (apply intro_notouch; dd).
  - apply X0_tmp.
  - apply X1_tmp.
Qed.

Lemma body_final : forall e l r nf st, atomic_cmd e = true ->
  run_ops (mkdirs st ++ body e l r nf st) st Core = Whole (CStore l) /\
  run_ops (mkdirs st ++ body e l r nf st) st Cmd = Whole (CRec r nf).
Proof.
  intros e l r nf st H. rewrite body_shape by auto.
  apply (two_renames_final CoreTmp Core CmdTmp Cmd (CStore l) (CRec r nf)); dd;
    try (apply X0_notouch; dd); try (apply X1_notouch; dd); try (apply intro_notouch; dd).
  - apply X0_tmp.
  - apply X1_tmp.
Qed.

(* ------------------------------------------------------------------ meson configure *)
Definition cf_rec (D : alist) (st : fs) : alist * bool :=
  match st Cmd with Whole (CRec r nfr) => (r ++ D, nfr) | _ => (D, false) end.
Definition saving (e : env) (s' : store) (st : fs) : list op := save_core e s' st ++ intro (cinfos e).

Lemma configure_plan_cases : forall e D cc st, Inv st -> core_first e = false ->
  configure_plan e D cc st = ([], MesonErr) \/ configure_plan e D cc st = ([], Done) \/
  (exists s, D = [] /\ st Core = Whole (CStore s) /\ configure_plan e D cc st = (saving e (override s D) st, Done)) \/
  exists s, st Core = Whole (CStore s) /\
    configure_plan e D cc st =
      (write_cmd e (fst (cf_rec D st)) (snd (cf_rec D st)) ++
       (if dirty s D || cc then saving e (override s D) st else []), Done).
Proof.
  intros e D cc st [Hc Hm] Hf. unfold configure_plan, saving. rewrite Hf.
  destruct (st PrivDir); auto; destruct (st BuildDat); auto;
    destruct Hc as [Hc|[l Hc]]; rewrite Hc; auto;
    (destruct D as [|d D]; [destruct cc; [right; right; left; exists l; auto|auto]|]);
    right; right; right; exists l; split; auto;
    unfold cf_rec; destruct Hm as [Hm|[r [n Hm]]]; rewrite Hm; reflexivity.
Qed.

(* a run that only saves coredata.dat *)
Lemma saving_views : forall e s' st k,
  let s := run_ops (firstn k (saving e s' st)) st in
  s Cmd = st Cmd /\ (s Core = st Core \/ s Core = Whole (CStore s')).
Proof.
  intros e s' st k. unfold saving. rewrite save_core_split. repeat rewrite <- app_assoc. cbn [app].
  apply (one_rename_views CoreTmp Core Cmd (CStore s')); dd;
    try (apply save_core_pre_notouch; dd); try (apply intro_notouch; dd).
  apply save_core_pre_tmp.
Qed.

Lemma saving_final : forall e s' st,
  run_ops (saving e s' st) st Core = Whole (CStore s') /\ run_ops (saving e s' st) st Cmd = st Cmd.
Proof.
  intros e s' st. unfold saving. rewrite save_core_split. repeat rewrite <- app_assoc. cbn [app].
  apply (one_rename_final CoreTmp Core Cmd (CStore s')); dd;
    try (apply save_core_pre_notouch; dd); try (apply intro_notouch; dd).
  apply save_core_pre_tmp.
Qed.

Lemma configure_views : forall e r nf s' st (b : bool) k, atomic_cmd e = true ->
  let ops := write_cmd e r nf ++ (if b then saving e s' st else []) in
  let s := run_ops (firstn k ops) st in
  (s Core = st Core /\ (s Cmd = st Cmd \/ s Cmd = Whole (CRec r nf))) \/
  (b = true /\ s Core = Whole (CStore s') /\ s Cmd = Whole (CRec r nf)).
Proof.
  intros e r nf s' st b k H ops s. subst ops s.
  rewrite (write_cmd_split e _ _ H).
  destruct b.
  - unfold saving. rewrite save_core_split. repeat rewrite <- app_assoc. cbn [app].
    pose proof (two_renames_views CmdTmp Cmd CoreTmp Core (CRec r nf) (CStore s')) as V.
    specialize (V ltac:(dd) ltac:(dd) ltac:(dd) ltac:(dd) ltac:(dd)
                  (write_cmd_pre e r nf) (save_core_pre e s' st) (intro (cinfos e)) st).
    specialize (V ltac:(apply write_cmd_pre_notouch; dd) ltac:(apply write_cmd_pre_notouch; dd)
                  ltac:(apply save_core_pre_notouch; dd) ltac:(apply save_core_pre_notouch; dd)
                  ltac:(apply intro_notouch; dd) ltac:(apply intro_notouch; dd)
                  (write_cmd_pre_tmp _ _ _ _) (save_core_pre_tmp _ _ _) k).
    simpl in V. destruct V as [[A B]|[[A B]|[A B]]].
    + left; split; auto.
    + left; split; auto.
    + right; auto.
  - rewrite app_nil_r.
    pose proof (one_rename_views CmdTmp Cmd Core (CRec r nf) ltac:(dd) ltac:(dd) ltac:(dd)
                  (write_cmd_pre e r nf) [] st
                  ltac:(apply write_cmd_pre_notouch; dd) ltac:(apply write_cmd_pre_notouch; dd)
                  eq_refl eq_refl (write_cmd_pre_tmp _ _ _ _) k) as V.
    simpl in V. left. tauto.
Qed.

Lemma configure_final : forall e r nf s0 s' st (b : bool), atomic_cmd e = true -> st Core = Whole (CStore s0) ->
  let ops := write_cmd e r nf ++ (if b then saving e s' st else []) in
  run_ops ops st Core = Whole (CStore (if b then s' else s0)) /\
  run_ops ops st Cmd = Whole (CRec r nf).
Proof.
  intros e r nf s0 s' st b H Hc ops. subst ops.
  rewrite (write_cmd_split e _ _ H).
  destruct b.
  - unfold saving. rewrite save_core_split. repeat rewrite <- app_assoc. cbn [app].
    apply and_comm.
    apply (two_renames_final CmdTmp Cmd CoreTmp Core (CRec r nf) (CStore s')); dd;
      try (apply write_cmd_pre_notouch; dd); try (apply save_core_pre_notouch; dd);
      try (apply intro_notouch; dd).
    + apply write_cmd_pre_tmp.
    + intro; apply save_core_pre_tmp.
  - rewrite app_nil_r.
    destruct (one_rename_final CmdTmp Cmd Core (CRec r nf)) with
      (X0 := write_cmd_pre e r nf) (X1 := @nil op) (st := st) as [A B]; dd;
      try (apply write_cmd_pre_notouch; dd); try reflexivity; try apply write_cmd_pre_tmp.
    rewrite A, B, Hc; auto.
Qed.

(* ------------------------------------------------------------------ --wipe: the deletions *)
Definition is_del (o : op) : bool :=
  match o with
  | OUnlink f => negb (file_eqb f Cmd)
  | ORmdir d => negb (file_eqb d Cmd) && negb (file_eqb d Core)
  | _ => false
  end.

Lemma deletions_is_del : forall e order st, keep_cmd e = true ->
  forallb is_del (deletions e order st) = true.
Proof.
  intros e order st H. unfold deletions. induction order as [|f order IH]; [reflexivity|].
  cbn [flat_map]. rewrite forallb_app, IH, andb_true_r.
  destruct (kept e f) eqn:K; [reflexivity|].
  destruct (exists_ (st f)); [|reflexivity].
  destruct f; simpl in *; try reflexivity; congruence.
Qed.

Lemma forallb_firstn : forall (A : Type) (p : A -> bool) k l,
  forallb p l = true -> forallb p (firstn k l) = true.
Proof.
  intros A p k; induction k as [|k IH]; intros [|x l] H; simpl in *; auto.
  apply andb_true_iff in H as [H1 H2]; rewrite H1; simpl; auto.
Qed.

Lemma forallb_skipn : forall (A : Type) (p : A -> bool) k l,
  forallb p l = true -> forallb p (skipn k l) = true.
Proof.
  intros A p k; induction k as [|k IH]; intros [|x l] H; simpl in *; auto.
  apply andb_true_iff in H as [H1 H2]; auto.
Qed.

Lemma is_del_apply : forall o st, is_del o = true ->
  apply_op o st Cmd = st Cmd /\ (apply_op o st Core = st Core \/ apply_op o st Core = Absent).
Proof.
  intros o st H. destruct o as [d|g|g|g c|g|a b|g|d]; simpl in H; try discriminate.
  - apply negb_true_iff in H. simpl. unfold upd.
    assert (A : file_eqb Cmd g = false).
    { destruct (file_eqb Cmd g) eqn:E; auto. apply file_eqb_eq in E; subst. rewrite file_eqb_refl in H. discriminate. }
    rewrite A. split; auto. destruct (file_eqb Core g); auto.
  - apply andb_true_iff in H as [H1 H2]. apply negb_true_iff in H1. apply negb_true_iff in H2.
    simpl. unfold upd.
    assert (A : file_eqb Cmd d = false).
    { destruct (file_eqb Cmd d) eqn:E; auto. apply file_eqb_eq in E; subst. rewrite file_eqb_refl in H1. discriminate. }
    assert (B : file_eqb Core d = false).
    { destruct (file_eqb Core d) eqn:E; auto. apply file_eqb_eq in E; subst. rewrite file_eqb_refl in H2. discriminate. }
    rewrite A, B. auto.
Qed.

Lemma dels_run : forall ops st, forallb is_del ops = true ->
  run_ops ops st Cmd = st Cmd /\ (run_ops ops st Core = st Core \/ run_ops ops st Core = Absent).
Proof.
  induction ops as [|o ops IH]; intros st H; [simpl; auto|].
  simpl in H. apply andb_true_iff in H as [H1 H2]. rewrite run_cons.
  destruct (IH (apply_op o st) H2) as [A B]. destruct (is_del_apply o st H1) as [C D].
  rewrite A, C. split; auto. destruct B as [B|B]; rewrite B; auto.
Qed.

Lemma dels_absent : forall ops st, forallb is_del ops = true -> st Core = Absent ->
  run_ops ops st Core = Absent.
Proof.
  intros ops st H Hc. destruct (dels_run ops st H) as [_ [B|B]]; congruence.
Qed.

(* every prefix of the deletions: cmd_line.txt untouched; coredata.dat still there, or gone for good *)
Lemma dels_prefix : forall ops k st, forallb is_del ops = true ->
  let s := run_ops (firstn k ops) st in
  s Cmd = st Cmd /\ (s Core = st Core \/ (s Core = Absent /\ run_ops ops st Core = Absent)).
Proof.
  intros ops k st H s. subst s.
  destruct (dels_run (firstn k ops) st (forallb_firstn _ _ k ops H)) as [A B]. split; auto.
  destruct B as [B|B]; auto. right; split; auto.
  rewrite <- (firstn_skipn k ops) at 1. rewrite run_app.
  apply dels_absent; auto. apply forallb_skipn; auto.
Qed.

(* ------------------------------------------------------------------ what the follow-up reports *)
Definition vals (w : world) (s : fs) : store := sl_store w [] false s.

Lemma vals_view : forall w s s', s Core = s' Core -> s Cmd = s' Cmd -> vals w s = vals w s'.
Proof. intros w s s' A B. unfold vals, sl_store. rewrite A, B. reflexivity. Qed.

Lemma vals_core : forall w s f key, s Core = Whole (CStore f) -> vals w s key = f key.
Proof. intros w s f key A. unfold vals, sl_store. rewrite A. reflexivity. Qed.

Lemma followup_plan : forall e w st, Inv st ->
  plan_of e w (followup st) st = setup_like e w [] false st.
Proof.
  intros e w st [[Hc|[l Hc]] _]; unfold followup; rewrite Hc; simpl; [rewrite Hc|]; reflexivity.
Qed.

Lemma recover_Inv : forall e w st, atomic_cmd e = true -> Inv st ->
  fst (recover e w st) = Done /\ reported e w st = Some (vals w st).
Proof.
  intros e w st Ha HI. unfold reported, recover, exec, ops_of.
  rewrite followup_plan, setup_like_Inv by auto. cbn [fst snd]. split; auto.
  unfold stored. destruct (body_final e (sl_store w [] false st) (fst (sl_rec [] false st)) (snd (sl_rec [] false st)) st Ha) as [A _].
  rewrite A. reflexivity.
Qed.

(* ------------------------------------------------------------------ per command: prefixes *)
Lemma firstn_nil' : forall (A : Type) k, firstn k (@nil A) = [].
Proof. intros A [|k]; reflexivity. Qed.

(* "the killed state s looks, to the follow-up run in world w, like st or like fin" *)
Definition old_new (w : world) (st fin s : fs) : Prop :=
  Inv s /\ forall key, vals w s key = vals w st key \/ vals w s key = vals w fin key.

Lemma old_new_same : forall w st fin s, Inv st -> s Core = st Core -> s Cmd = st Cmd -> old_new w st fin s.
Proof.
  intros w st fin s [I1 I2] A B. split.
  - split; [rewrite A|rewrite B]; auto.
  - intro key. left. rewrite (vals_view w s st A B). reflexivity.
Qed.

Lemma old_new_fin_core : forall w st fin s l, cmd_ok (s Cmd) ->
  s Core = Whole (CStore l) -> fin Core = Whole (CStore l) -> old_new w st fin s.
Proof.
  intros w st fin s l Hm A B. split.
  - split; auto. right; exists l; auto.
  - intro key. right. rewrite (vals_core w s l key A), (vals_core w fin l key B). reflexivity.
Qed.

Lemma setup_like_old_new : forall e w D nf st k, atomic_cmd e = true -> Inv st ->
  let ops := fst (setup_like e w D nf st) in
  old_new w st (run_ops ops st) (run_ops (firstn k ops) st).
Proof.
  intros e w D nf st k Ha HI ops. subst ops. rewrite setup_like_Inv by auto. cbn [fst].
  destruct (body_final e (sl_store w D nf st) (fst (sl_rec D nf st)) (snd (sl_rec D nf st)) st Ha) as [F1 F2].
  destruct (body_views e (sl_store w D nf st) (fst (sl_rec D nf st)) (snd (sl_rec D nf st)) st k Ha) as [[A B]|[[A B]|[A B]]].
  - apply old_new_same; auto.
  - eapply old_new_fin_core; eauto. rewrite B. apply HI.
  - eapply old_new_fin_core; eauto. rewrite B. right; eexists; eexists; reflexivity.
Qed.

Lemma configure_old_new : forall e w D cc st k, atomic_cmd e = true -> core_first e = false -> Inv st ->
  let ops := fst (configure_plan e D cc st) in
  old_new w st (run_ops ops st) (run_ops (firstn k ops) st).
Proof.
  intros e w D cc st k Ha Hf HI ops. subst ops.
  destruct (configure_plan_cases e D cc st HI Hf) as [E|[E|[[s0 [_ [Hc E]]]|[s0 [Hc E]]]]]; rewrite E; cbn [fst].
  - rewrite firstn_nil'. apply old_new_same; auto.
  - rewrite firstn_nil'. apply old_new_same; auto.
  - destruct (saving_final e (override s0 D) st) as [F1 F2].
    destruct (saving_views e (override s0 D) st k) as [B [A|A]].
    + apply old_new_same; auto.
    + eapply old_new_fin_core; eauto. rewrite B. apply HI.
  - set (b := dirty s0 D || cc).
    destruct (configure_final e (fst (cf_rec D st)) (snd (cf_rec D st)) s0 (override s0 D) st b Ha Hc) as [F1 F2].
    destruct (configure_views e (fst (cf_rec D st)) (snd (cf_rec D st)) (override s0 D) st b k Ha) as [[A B]|[Hd [A B]]].
    + split.
      * split; [rewrite A; apply HI|]. destruct B as [B|B]; rewrite B; [apply HI|right; eexists; eexists; reflexivity].
      * intro key. left. rewrite Hc in A. rewrite (vals_core w _ s0 key A), (vals_core w st s0 key Hc). reflexivity.
    + rewrite Hd in *. eapply old_new_fin_core; eauto. rewrite B. right; eexists; eexists; reflexivity.
Qed.

(* ------------------------------------------------------------------ --wipe *)
Lemma resolve_app_some : forall w b x D key v, alookup key D = Some v -> resolve w b (x ++ D) key = v.
Proof. intros. unfold resolve. rewrite alookup_app, H. reflexivity. Qed.

Lemma resolve_app_none : forall w b x D key, alookup key D = None ->
  resolve w b (x ++ D) key = resolve w b x key.
Proof. intros. unfold resolve. rewrite alookup_app, H. reflexivity. Qed.

Lemma resolve_some : forall w b r key v, alookup key r = Some v -> resolve w b r key = v.
Proof. intros. unfold resolve. rewrite H. reflexivity. Qed.

Definition base (w : world) (b : bool) (key : key) : val :=
  if b then match alookup key (mfile w) with Some v => v | None => decl w key end else decl w key.

Lemma resolve_none : forall w b r key, alookup key r = None -> resolve w b r key = base w b key.
Proof. intros. unfold resolve, base. rewrite H. reflexivity. Qed.

Lemma alookup_In_val : forall k l v, alookup k l = Some v -> In (k, v) l.
Proof.
  intros k l; induction l as [|[k' v'] l IH]; intros v H; simpl in H; [discriminate|].
  destruct (alookup k l) eqn:E.
  - inversion H; subst. right; auto.
  - destruct (k =? k') eqn:K; [|discriminate]. apply N.eqb_eq in K; subst. inversion H; subst. left; auto.
Qed.

Lemma alookup_In_key : forall k l v, alookup k l = Some v -> In k (map fst l).
Proof. intros k l v H. apply alookup_In_val in H. apply (in_map fst) in H. exact H. Qed.

(* the keys a --wipe gives a new source for: its -D settings, and the machine file if it is given only now *)
Definition check_keys (w : world) (D : alist) (nf nfr : bool) : list key :=
  map fst D ++ (if nf && negb nfr then map fst (mfile w) else []).
(* the guard under which --wipe is old-or-new: for those keys coredata.dat holds what cmd_line.txt and
   the current world reproduce *)
Definition coupled_on (w : world) (D : alist) (nf : bool) (st : fs) : bool :=
  match st Core with
  | Whole (CStore s) =>
      forallb (fun k => s k =? resolve w (snd (rec_of (st Cmd))) (fst (rec_of (st Cmd))) k)
              (check_keys w D nf (snd (rec_of (st Cmd))))
  | _ => true
  end.

Lemma coupled_key : forall w D nf st s key, st Core = Whole (CStore s) -> coupled_on w D nf st = true ->
  In key (check_keys w D nf (snd (rec_of (st Cmd)))) ->
  s key = resolve w (snd (rec_of (st Cmd))) (fst (rec_of (st Cmd))) key.
Proof.
  intros w D nf st s key Hc Hg Hin. unfold coupled_on in Hg. rewrite Hc in Hg.
  rewrite forallb_forall in Hg. specialize (Hg _ Hin). apply N.eqb_eq in Hg. exact Hg.
Qed.

Lemma dels_Inv : forall e order st, keep_cmd e = true -> Inv st ->
  Inv (run_ops (deletions e order st) st).
Proof.
  intros e order st Hk [Hc Hm].
  destruct (dels_run (deletions e order st) st (deletions_is_del e order st Hk)) as [A B].
  split; [destruct B as [B|B]; rewrite B; [exact Hc|left; reflexivity] | rewrite A; exact Hm].
Qed.

Lemma wipe_plan_fixed : forall e w D nf order st, keep_cmd e = true -> Inv st ->
  wipe_plan e w D nf order st = ([], MesonErr) \/
  wipe_plan e w D nf order st =
    (deletions e order st ++
     fst (setup_like e w (fst (rec_of (st Cmd)) ++ D) (nf || snd (rec_of (st Cmd))) (run_ops (deletions e order st) st)), Done).
Proof.
  intros e w D nf order st Hk HI. pose proof (dels_Inv e order st Hk HI) as I1.
  destruct HI as [Hc Hm]. unfold wipe_plan. rewrite Hk.
  destruct (st PrivDir); auto; right;
    (destruct Hm as [Hm|[r [n Hm]]]; rewrite Hm; cbn [read_cmd rec_of app fst snd]; rewrite app_nil_r;
     rewrite (setup_like_Inv _ _ _ _ _ I1); reflexivity).
Qed.

(* the window of --wipe in which coredata.dat is gone and the new one is not written yet *)
Lemma wipe_window_vals : forall w D nf st st1 fin s,
  Inv st -> coupled_on w D nf st = true ->
  s Core = Absent -> s Cmd = st Cmd ->
  st1 Core = Absent -> st1 Cmd = st Cmd ->
  fin Core = Whole (CStore (sl_store w (fst (rec_of (st Cmd)) ++ D) (nf || snd (rec_of (st Cmd))) st1)) ->
  forall key, vals w s key = vals w st key \/ vals w s key = vals w fin key.
Proof.
  intros w D nf st st1 fin s [Hc Hm] Hg A B A1 B1 F key.
  destruct Hc as [Hc|[s0 Hc]].
  { left. rewrite (vals_view w s st); auto. congruence. }
  rewrite (vals_core w fin _ key F), (vals_core w st s0 key Hc).
  pose proof (coupled_key w D nf st s0 key Hc Hg) as G.
  unfold vals, sl_store. rewrite A, B, A1, B1.
  destruct Hm as [Hm|[r [nfr Hm]]]; rewrite Hm in *; cbn [rec_of fst snd app orb] in *.
  - (* no cmd_line.txt *)
    unfold check_keys in G. cbn [negb] in G. rewrite andb_true_r in G.
    destruct (alookup key D) as [v|] eqn:K.
    + left. symmetry. apply G. apply in_or_app; left. eapply alookup_In_key; eauto.
    + rewrite (resolve_none w _ D key K), (resolve_none w false [] key eq_refl).
      rewrite orb_false_r. destruct nf; [|right; reflexivity].
      destruct (alookup key (mfile w)) as [mv|] eqn:M; [|right; unfold base; rewrite M; reflexivity].
      left. rewrite <- (resolve_none w false [] key eq_refl). symmetry. apply G.
      apply in_or_app; right. eapply alookup_In_key; eauto.
  - rewrite app_nil_r.
    destruct (alookup key D) as [v|] eqn:K.
    + left. symmetry. apply G. unfold check_keys. apply in_or_app; left. eapply alookup_In_key; eauto.
    + destruct (alookup key r) as [v'|] eqn:R.
      * right. rewrite (resolve_some w _ r key v' R). symmetry. apply resolve_some.
        rewrite !alookup_app, K, R. reflexivity.
      * assert (R2 : alookup key (r ++ (r ++ D)) = None) by (rewrite !alookup_app, K, R; reflexivity).
        rewrite (resolve_none w _ r key R), (resolve_none w _ _ key R2).
        destruct nfr; [rewrite orb_true_r; right; reflexivity|].
        rewrite !orb_false_r. destruct nf; [|right; reflexivity].
        destruct (alookup key (mfile w)) as [mv|] eqn:M; [|right; unfold base; rewrite M; reflexivity].
        left. rewrite <- (resolve_none w false r key R). symmetry. apply G.
        unfold check_keys. cbn [negb andb]. apply in_or_app; right. eapply alookup_In_key; eauto.
Qed.

Lemma wipe_old_new : forall e w D nf order st k, fixed e -> Inv st -> coupled_on w D nf st = true ->
  let ops := fst (wipe_plan e w D nf order st) in
  old_new w st (run_ops ops st) (run_ops (firstn k ops) st).
Proof.
  intros e w D nf order st k [Ha [Hk Hf]] HI Hg ops. subst ops.
  destruct (wipe_plan_fixed e w D nf order st Hk HI) as [E|E]; rewrite E; cbn [fst].
  - rewrite firstn_nil'. apply old_new_same; auto.
  - set (del := deletions e order st). set (st1 := run_ops del st).
    set (D' := fst (rec_of (st Cmd)) ++ D). set (nf' := nf || snd (rec_of (st Cmd))).
    assert (Hdel : forallb is_del del = true) by (apply deletions_is_del; auto).
    assert (I1 : Inv st1) by (apply dels_Inv; auto).
    set (ops2 := fst (setup_like e w D' nf' st1)).
    assert (F : run_ops (del ++ ops2) st Core = Whole (CStore (sl_store w D' nf' st1))).
    { rewrite run_app. fold st1. subst ops2. rewrite setup_like_Inv by auto. cbn [fst].
      apply (body_final e _ _ _ st1 Ha). }
    (* the state after all deletions, as the follow-up sees it *)
    assert (W : forall s, s Cmd = st Cmd ->
                (s Core = st Core \/ (s Core = Absent /\ st1 Core = Absent)) -> Inv s ->
                old_new w st (run_ops (del ++ ops2) st) s).
    { intros s B [A|[A A1]] Is.
      - apply old_new_same; auto.
      - split; auto.
        apply (wipe_window_vals w D nf st st1 _ s HI Hg A B A1); auto.
        subst st1. apply (dels_run del st Hdel). }
    destruct (prefix_app_cases del ops2 k st) as [[k' Ek]|[k' Ek]]; rewrite Ek; clear Ek.
    + destruct (dels_prefix del k' st Hdel) as [B A]. fold st1 in A.
      apply W; auto.
      destruct HI as [Hc Hm]. split; [|rewrite B; auto].
      destruct A as [A|[A _]]; rewrite A; auto. left; reflexivity.
    + fold st1. pose proof (setup_like_old_new e w D' nf' st1 k' Ha I1) as [Is V]. fold ops2 in Is, V.
      split; auto. intro key.
      destruct (V key) as [V1|V2].
      * (* looks like the fully wiped directory *)
        destruct (dels_prefix del (length del) st Hdel) as [B A].
        rewrite firstn_all in A, B. fold st1 in A, B.
        destruct (W st1 B A I1) as [_ Vw]. rewrite V1. apply Vw.
      * right. rewrite V2. rewrite run_app. reflexivity.
Qed.

(* ------------------------------------------------------------------ all commands *)
Definition guard (w : world) (c : cmd) (st : fs) : bool :=
  match c with Wipe D nf _ => coupled_on w D nf st | _ => true end.

Lemma cmd_old_new : forall e w c st k, fixed e -> Inv st -> guard w c st = true ->
  old_new w st (exec e w c st) (crash e w k c st).
Proof.
  intros e w c st k He HI Hg. unfold exec, crash, ops_of. pose proof He as [Ha [Hk Hf]].
  destruct c as [D nf|D|D nf order|D cc]; cbn [plan_of].
  - destruct (exists_ (st Core)).
    + destruct D as [|d D].
      * cbn [fst]. rewrite firstn_nil'. apply old_new_same; auto.
      * apply configure_old_new; auto.
    + apply setup_like_old_new; auto.
  - apply setup_like_old_new; auto.
  - apply wipe_old_new; auto.
  - apply configure_old_new; auto.
Qed.

Lemma wipe_prefix_Inv : forall e w D nf order st k, fixed e -> Inv st ->
  Inv (run_ops (firstn k (fst (wipe_plan e w D nf order st))) st).
Proof.
  intros e w D nf order st k [Ha [Hk Hf]] HI.
  destruct (wipe_plan_fixed e w D nf order st Hk HI) as [E|E]; rewrite E; cbn [fst].
  - rewrite firstn_nil'. exact HI.
  - set (del := deletions e order st).
    assert (Hdel : forallb is_del del = true) by (apply deletions_is_del; auto).
    match goal with |- context [setup_like e w ?DD ?NN ?SS] =>
      destruct (prefix_app_cases del (fst (setup_like e w DD NN SS)) k st) as [[k' Ek]|[k' Ek]] end;
      rewrite Ek; clear Ek.
    + destruct (dels_prefix del k' st Hdel) as [B A]. destruct HI as [Hc Hm].
      split; [|rewrite B; auto]. destruct A as [A|[A _]]; rewrite A; auto. left; reflexivity.
    + apply setup_like_old_new; auto. apply dels_Inv; auto.
Qed.

Lemma crash_Inv : forall e w c st k, fixed e -> Inv st -> Inv (crash e w k c st).
Proof.
  intros e w c st k He HI.
  destruct c as [D nf|D|D nf order|D cc].
  - apply (cmd_old_new e w (Setup D nf) st k He HI eq_refl).
  - apply (cmd_old_new e w (Reconf D) st k He HI eq_refl).
  - unfold crash, ops_of. cbn [plan_of]. apply wipe_prefix_Inv; auto.
  - apply (cmd_old_new e w (Configure D cc) st k He HI eq_refl).
Qed.

Lemma exec_is_crash : forall e w c st, exec e w c st = crash e w (length (ops_of e w c st)) c st.
Proof. intros; unfold exec, crash; rewrite firstn_all; reflexivity. Qed.

Lemma exec_Inv : forall e w c st, fixed e -> Inv st -> Inv (exec e w c st).
Proof. intros; rewrite exec_is_crash; apply crash_Inv; auto. Qed.

Lemma history_Inv_from : forall e h st0, fixed e -> forallb meson_event h = true -> Inv st0 ->
  Inv (fold_left (step e) h st0).
Proof.
  intros e h; induction h as [|ev h IH]; intros st0 He Hm HI; [exact HI|].
  simpl in Hm. apply andb_true_iff in Hm as [H1 H2]. simpl. apply IH; auto.
  destruct ev as [w c|w c k|f t]; simpl in *; [apply exec_Inv|apply crash_Inv|discriminate]; auto.
Qed.

(* every directory that meson commands — completed or killed anywhere, in worlds that change arbitrarily
   between them — can leave behind *)
Theorem history_Inv : forall e h, fixed e -> forallb meson_event h = true -> Inv (run_history e h).
Proof. intros; apply history_Inv_from; auto using Inv_empty. Qed.

(* ------------------------------------------------------------------ the property's clauses *)
Definition old_or_new (e : env) (w : world) (st : fs) (c : cmd) (k : nat) : Prop :=
  exists vo vn vk,
    reported e w st = Some vo /\ reported e w (exec e w c st) = Some vn /\
    reported e w (crash e w k c st) = Some vk /\
    forall key, vk key = vo key \/ vk key = vn key.

Theorem recover_succeeds : forall e h w c k, fixed e -> forallb meson_event h = true ->
  fst (recover e w (crash e w k c (run_history e h))) = Done.
Proof.
  intros e h w c k He Hm. apply recover_Inv; [apply He|].
  apply crash_Inv; auto. apply history_Inv; auto.
Qed.

Theorem old_or_new_guarded : forall e h w c k, fixed e -> forallb meson_event h = true ->
  guard w c (run_history e h) = true -> old_or_new e w (run_history e h) c k.
Proof.
  intros e h w c k He Hm Hg. set (st := run_history e h).
  assert (HI : Inv st) by (apply history_Inv; auto).
  destruct (cmd_old_new e w c st k He HI Hg) as [Is V].
  exists (vals w st), (vals w (exec e w c st)), (vals w (crash e w k c st)).
  repeat split; try apply recover_Inv; try apply He; auto using exec_Inv.
Qed.

(* ------------------------------------------------------------------ completed commands in an unchanged world:
   coredata.dat holds exactly what cmd_line.txt and the world reproduce *)
Definition Good (w : world) (st : fs) : Prop :=
  Inv st /\ (st Core = Absent -> st Cmd = Absent) /\
  (forall s, st Core = Whole (CStore s) ->
     exists r nfr, st Cmd = Whole (CRec r nfr) /\ forall key, s key = resolve w nfr r key).

Lemma Good_empty : forall w, Good w empty_fs.
Proof. intro w. split; [apply Inv_empty|]. split; [auto|intros s H; discriminate]. Qed.

Lemma good_of_final : forall w fin s r nf,
  fin Core = Whole (CStore s) -> fin Cmd = Whole (CRec r nf) ->
  (forall key, s key = resolve w nf r key) -> Good w fin.
Proof.
  intros w fin s r nf A B V. split; [split; [right; eexists; eauto|right; eexists; eexists; eauto]|].
  split.
  - intro H. rewrite A in H. discriminate.
  - intros s' H. rewrite A in H. inversion H; subst. exists r, nf. auto.
Qed.

Lemma override_resolve : forall w b s r D, (forall k, s k = resolve w b r k) ->
  forall key, override s D key = resolve w b (r ++ D) key.
Proof.
  intros w b s r D H key. unfold override. destruct (alookup key D) as [v|] eqn:K.
  - rewrite (resolve_app_some w b r D key v K). reflexivity.
  - rewrite (resolve_app_none w b r D key K). apply H.
Qed.

Lemma not_dirty_value : forall s D key v, dirty s D = false -> alookup key D = Some v -> s key = v.
Proof.
  intros s D key v Hd Hk. apply alookup_In_val in Hk.
  unfold dirty in Hd.
  destruct (s key =? v) eqn:E; [apply N.eqb_eq; auto|].
  assert (X : existsb (fun kv => negb (s (fst kv) =? snd kv)) D = true).
  { apply existsb_exists. exists (key, v). split; auto. simpl. rewrite E. reflexivity. }
  congruence.
Qed.

Lemma setup_like_final : forall e w D nf st, atomic_cmd e = true -> Inv st ->
  let fin := run_ops (fst (setup_like e w D nf st)) st in
  fin Core = Whole (CStore (sl_store w D nf st)) /\
  fin Cmd = Whole (CRec (fst (sl_rec D nf st)) (snd (sl_rec D nf st))).
Proof. intros e w D nf st Ha HI fin. subst fin. rewrite setup_like_Inv by auto. apply body_final; auto. Qed.

Lemma sl_coupled : forall w D nf st, Good w st ->
  forall key, sl_store w D nf st key = resolve w (snd (sl_rec D nf st)) (fst (sl_rec D nf st)) key.
Proof.
  intros w D nf st [[Hc Hm] [Ab Cp]] key. unfold sl_store, sl_rec.
  destruct Hc as [Hc|[s Hc]].
  - rewrite (Ab Hc), Hc. reflexivity.
  - destruct (Cp s Hc) as [r [nfr [Hr V]]]. rewrite Hc, Hr. cbn [fst snd].
    apply override_resolve; auto.
Qed.

Lemma setup_like_Good : forall e w D nf st, atomic_cmd e = true -> Good w st ->
  Good w (run_ops (fst (setup_like e w D nf st)) st).
Proof.
  intros e w D nf st Ha G. destruct (setup_like_final e w D nf st Ha (proj1 G)) as [A B].
  eapply good_of_final; eauto. apply sl_coupled; auto.
Qed.

Lemma configure_Good : forall e w D cc st, atomic_cmd e = true -> core_first e = false -> Good w st ->
  Good w (run_ops (fst (configure_plan e D cc st)) st).
Proof.
  intros e w D cc st Ha Hf G. pose proof G as [HI [Ab Cp]].
  destruct (configure_plan_cases e D cc st HI Hf) as [E|[E|[[s0 [HD [Hc E]]]|[s0 [Hc E]]]]]; rewrite E; cbn [fst]; auto.
  - destruct (saving_final e (override s0 D) st) as [A B].
    destruct (Cp s0 Hc) as [r [nfr [Hr V]]].
    eapply good_of_final; [exact A|rewrite B; exact Hr|].
    intro key. subst D. apply V.
  - set (b := dirty s0 D || cc).
    destruct (configure_final e (fst (cf_rec D st)) (snd (cf_rec D st)) s0 (override s0 D) st b Ha Hc) as [A B].
    destruct (Cp s0 Hc) as [r [nfr [Hr V]]].
    eapply good_of_final; eauto. intro key.
    unfold cf_rec. rewrite Hr. cbn [fst snd].
    destruct b eqn:Hb.
    + apply override_resolve; auto.
    + subst b. apply orb_false_iff in Hb as [Hd _].
      destruct (alookup key D) as [v|] eqn:K.
      * rewrite (resolve_app_some w nfr r D key v K). eapply not_dirty_value; eauto.
      * rewrite (resolve_app_none w nfr r D key K). apply V.
Qed.

Lemma Good_view : forall w st st', st' Core = st Core -> st' Cmd = st Cmd -> Good w st -> Good w st'.
Proof.
  intros w st st' A B [[Hc Hm] [Ab Cp]]. unfold Good, Inv. rewrite A, B. auto.
Qed.

Lemma wipe_Good : forall e w D nf order st, fixed e -> Good w st ->
  Good w (run_ops (fst (wipe_plan e w D nf order st)) st).
Proof.
  intros e w D nf order st [Ha [Hk Hf]] G. pose proof G as [HI [Ab Cp]].
  destruct (wipe_plan_fixed e w D nf order st Hk HI) as [E|E]; rewrite E; cbn [fst]; auto.
  set (del := deletions e order st). set (st1 := run_ops del st).
  set (D' := fst (rec_of (st Cmd)) ++ D). set (nf' := nf || snd (rec_of (st Cmd))).
  assert (Hdel : forallb is_del del = true) by (apply deletions_is_del; auto).
  assert (I1 : Inv st1) by (apply dels_Inv; auto).
  rewrite run_app. fold st1.
  destruct (dels_run del st Hdel) as [Bm Bc]. fold st1 in Bm, Bc.
  destruct Bc as [Bc|Bc].
  - (* coredata.dat was not in the listing: a re-configuration of a good directory *)
    apply setup_like_Good; auto. apply (Good_view w st); auto.
  - destruct (setup_like_final e w D' nf' st1 Ha I1) as [A B].
    eapply good_of_final; eauto. intro key.
    unfold sl_store, sl_rec. rewrite Bc, Bm.
    destruct HI as [_ [Hm|[r [nfr Hm]]]]; rewrite Hm; reflexivity.
Qed.

Lemma exec_Good : forall e w c st, fixed e -> Good w st -> Good w (exec e w c st).
Proof.
  intros e w c st He G. unfold exec, ops_of. pose proof He as [Ha [Hk Hf]].
  destruct c as [D nf|D|D nf order|D cc]; cbn [plan_of].
  - destruct (exists_ (st Core)).
    + destruct D as [|d D]; [exact G|apply configure_Good; auto].
    + apply setup_like_Good; auto.
  - apply setup_like_Good; auto.
  - apply wipe_Good; auto.
  - apply configure_Good; auto.
Qed.

(* a history of commands that all ran to completion in the world w (nothing outside the build directory
   was edited in between) *)
Definition completed_in (w : world) (h : list event) : Prop :=
  Forall (fun ev => exists c, ev = Ran w c) h.

Lemma completed_Good_from : forall e w h st0, fixed e -> completed_in w h -> Good w st0 ->
  Good w (fold_left (step e) h st0).
Proof.
  intros e w h; induction h as [|ev h IH]; intros st0 He Hc G; [exact G|].
  inversion Hc as [|x l [c Hx] Hl]; subst. simpl. apply IH; auto. apply exec_Good; auto.
Qed.

Lemma completed_meson : forall w h, completed_in w h -> forallb meson_event h = true.
Proof.
  intros w h H; induction H as [|ev h [c Hx] Hl IH]; simpl; auto. subst. simpl. exact IH.
Qed.

Lemma Good_guard : forall w c st, Good w st -> guard w c st = true.
Proof.
  intros w c st [HI [Ab Cp]]. destruct c; simpl; auto. unfold coupled_on.
  destruct (st Core) as [| |[s|r n|]] eqn:Hc; auto.
  destruct (Cp s eq_refl) as [r [nfr [Hr V]]]. rewrite Hr. cbn [rec_of fst snd].
  apply forallb_forall. intros k _. apply N.eqb_eq. apply V.
Qed.

(* full strength on directories whose earlier commands all ran to completion in the current world *)
Theorem old_or_new_completed_histories : forall e w h c k, fixed e -> completed_in w h ->
  old_or_new e w (run_history e h) c k.
Proof.
  intros e w h c k He Hc. apply old_or_new_guarded; eauto using completed_meson.
  apply Good_guard. apply completed_Good_from; auto using Good_empty.
Qed.


Lemma flat_map_notouch_in : forall (blk : N -> list op) f l,
  (forall i, In i l -> notouch f (blk i) = true) -> notouch f (flat_map blk l) = true.
Proof.
  intros blk f l H; induction l as [|i l IH]; simpl; auto.
  rewrite notouch_app, H, IH; simpl; auto. intros j Hj; apply H; right; auto.
Qed.

Lemma flat_map_final : forall (F : N -> file) (blk : N -> list op),
  (forall i s, run_ops (blk i) s (F i) = Whole CBlob) ->
  (forall i j, i <> j -> notouch (F i) (blk j) = true) ->
  forall l i s, In i l -> run_ops (flat_map blk l) s (F i) = Whole CBlob.
Proof.
  intros F blk Hw Hn l; induction l as [|a l IH]; intros i s Hin; [destruct Hin|].
  cbn [flat_map]. rewrite run_app.
  destruct (in_dec N.eq_dec i l) as [Hl|Hl]; [apply IH; auto|].
  destruct Hin as [->|Hin]; [|contradiction].
  rewrite run_untouched; [apply Hw|].
  apply flat_map_notouch_in. intros j Hj. apply Hn. intro; subst; contradiction.
Qed.

Lemma dat_neq : forall i j, i <> j -> file_eqb (Dat i) (Dat j) = false.
Proof. intros i j H; simpl; apply N.eqb_neq; auto. Qed.
Lemma info_neq : forall i j, i <> j -> file_eqb (Info i) (Info j) = false.
Proof. intros i j H; simpl; apply N.eqb_neq; auto. Qed.

Lemma write_rename_final : forall t f c s, f <> t ->
  run_ops [OWrite t (Some c); ORename t f] s f = Whole c.
Proof.
  intros t f c s H. unfold run_ops. cbn [fold_left]. cbn [apply_op]. rewrite upd_same.
  rewrite upd_other by exact H. apply upd_same.
Qed.

Lemma gen_ninja_final : forall e s,
  run_ops (gen_ninja e) s Ninja = Whole CBlob /\
  forall i, In i (dats e) -> run_ops (gen_ninja e) s (Dat i) = Whole CBlob.
Proof.
  intros e s. unfold gen_ninja. split.
  - rewrite !run_app. apply write_rename_final. discriminate.
  - intros i Hi. rewrite !run_app.
    rewrite run_untouched by (unfold notouch, touches; reflexivity).
    apply (flat_map_final Dat (fun i => [OOpen (Dat i); OWrite (Dat i) (Some CBlob)])); auto.
    + intros j s'. simpl. apply upd_same.
    + intros a b Hab. unfold notouch, touches. simpl. apply N.eqb_neq in Hab. rewrite Hab. reflexivity.
Qed.

Lemma intro_final : forall l i s, In i l -> run_ops (intro l) s (Info i) = Whole CBlob.
Proof.
  intros l i s Hi. unfold intro.
  apply (flat_map_final Info (fun i => [OOpen InfoTmp; OWrite InfoTmp (Some CBlob); ORename InfoTmp (Info i)])); auto.
  - intros j s'. change [OOpen InfoTmp; OWrite InfoTmp (Some CBlob); ORename InfoTmp (Info j)]
      with ([OOpen InfoTmp] ++ [OWrite InfoTmp (Some CBlob); ORename InfoTmp (Info j)]).
    rewrite run_app. apply write_rename_final. discriminate.
  - intros a b Hab. unfold notouch, touches. simpl. apply N.eqb_neq in Hab. rewrite Hab. reflexivity.
Qed.

Lemma save_build_final : forall e s, run_ops (save_build e) s BuildDat = Whole CBlob.
Proof. intros; unfold save_build; rewrite !run_app; simpl; apply upd_same. Qed.

Lemma body_whole : forall e l r nf st f, atomic_cmd e = true -> In f (state_files e) ->
  whole (run_ops (mkdirs st ++ body e l r nf st) st f) = true.
Proof.
  intros e l r nf st f Ha Hf.
  destruct (body_final e l r nf st Ha) as [FC FM].
  unfold state_files in Hf. cbn [app In] in Hf.
  destruct Hf as [<-|[<-|[<-|[<-|Hf]]]].
  - rewrite FC; reflexivity.
  - (* build.dat *)
    rewrite body_shape by auto. rewrite run_app, run_cons, run_app, run_cons.
    rewrite run_untouched by (apply intro_notouch; dd).
    rewrite apply_untouched by reflexivity.
    unfold X1_of. rewrite !run_app.
    rewrite run_untouched by (apply write_cmd_pre_notouch; dd).
    rewrite save_build_final. reflexivity.
  - rewrite FM; reflexivity.
  - (* build.ninja *)
    rewrite body_shape by auto. rewrite run_app, run_cons, run_app, run_cons.
    rewrite run_untouched by (apply intro_notouch; dd).
    rewrite apply_untouched by reflexivity.
    unfold X1_of. rewrite !run_app.
    rewrite run_untouched by (apply write_cmd_pre_notouch; dd).
    rewrite run_untouched by (apply save_build_notouch; dd).
    rewrite (proj1 (gen_ninja_final e _)). reflexivity.
  - apply in_app_or in Hf. destruct Hf as [Hf|Hf]; apply in_map_iff in Hf as [i [<- Hi]].
    + (* the .dat files *)
      rewrite body_shape by auto. rewrite run_app, run_cons, run_app, run_cons.
      rewrite run_untouched by (apply intro_notouch; dd).
      rewrite apply_untouched by reflexivity.
      unfold X1_of. rewrite !run_app.
      rewrite run_untouched by (apply write_cmd_pre_notouch; dd).
      rewrite run_untouched by (apply save_build_notouch; dd).
      rewrite (proj2 (gen_ninja_final e _) i Hi). reflexivity.
    + (* the intro files *)
      rewrite body_shape by auto. rewrite run_app, run_cons, run_app, run_cons.
      rewrite intro_final by auto. reflexivity.
Qed.

Theorem recover_leaves_state_files_whole : forall e h w c k f, fixed e -> forallb meson_event h = true ->
  In f (state_files e) ->
  whole (snd (recover e w (crash e w k c (run_history e h))) f) = true.
Proof.
  intros e h w c k f He Hm Hf. set (s := crash e w k c (run_history e h)).
  assert (HI : Inv s) by (apply crash_Inv; auto; apply history_Inv; auto).
  unfold recover, exec, ops_of. cbn [snd]. rewrite followup_plan, setup_like_Inv by auto. cbn [fst].
  apply body_whole; auto. apply He.
Qed.

(* ------------------------------------------------------------------ witnesses *)
Definition w0 : world := {| decl := fun _ => 0; mfile := [] |}.
(* the same project after its declared defaults were edited *)
Definition w_edited : world := {| decl := fun _ => 5; mfile := [] |}.
Definition e_fixed : env :=
  {| dats := [0]; infos := [0]; cinfos := [0]; chunks := 0; atomic_cmd := true; keep_cmd := true; core_first := false |}.
(* the tree before fa5f5e3 (cmd_line.txt written in place) *)
Definition e_inplace : env :=
  {| dats := [0]; infos := [0]; cinfos := [0]; chunks := 0; atomic_cmd := false; keep_cmd := true; core_first := false |}.
(* the tree before 80cc784 (--wipe keeps cmd_line.txt only in a temporary directory) *)
Definition e_tmpwipe : env :=
  {| dats := [0]; infos := [0]; cinfos := [0]; chunks := 0; atomic_cmd := true; keep_cmd := false; core_first := false |}.
(* a hypothetical tree in which `meson configure` writes coredata.dat before cmd_line.txt *)
Definition e_corefirst : env :=
  {| dats := [0]; infos := [0]; cinfos := [0]; chunks := 0; atomic_cmd := true; keep_cmd := true; core_first := true |}.

Lemma inplace_cmdline_refuted :
  fst (recover e_inplace w0 (crash e_inplace w0 1 (Configure [(0, 2)] false)
                                (run_history e_inplace [Ran w0 (Setup [(0, 1)] false)]))) = PyErr.
Proof. vm_compute. reflexivity. Qed.

Ltac refute :=
  let vo := fresh in let vn := fresh in let vk := fresh in
  let A := fresh in let B := fresh in let C := fresh in let V := fresh in
  intros [vo [vn [vk [A [B [C V]]]]]];
  vm_compute in A; vm_compute in B; vm_compute in C;
  inversion A; inversion B; inversion C; subst; specialize (V 0); vm_compute in V;
  destruct V; discriminate.

Lemma tmpdir_wipe_refuted :
  ~ old_or_new e_tmpwipe w0 (run_history e_tmpwipe [Ran w0 (Setup [(0, 1)] false)]) (Wipe [] false [Core; Cmd]) 4.
Proof. refute. Qed.

(* fixed tree, but an EARLIER command was killed between its two renames:
   `meson configure -Dk0=2` killed after cmd_line.txt was replaced and before coredata.dat was
   (the follow-up keeps k0=1); then `meson setup --wipe -Dk0=3` killed after coredata.dat is
   deleted: the follow-up reports k0=2 — neither 1 (old) nor 3 (new) *)
Definition h_killed_configure : list event :=
  [Ran w0 (Setup [(0, 1)] false); Killed w0 (Configure [(0, 2)] false) 3].
Lemma after_kills_wipe_refuted :
  forallb meson_event h_killed_configure = true /\
  ~ old_or_new e_fixed w0 (run_history e_fixed h_killed_configure) (Wipe [(0, 3)] false [Core]) 1.
Proof. split; [reflexivity|refute]. Qed.

(* no kill before, but the project's declared default of k0 was edited (0 -> 5) after the first setup:
   `meson setup --wipe -Dk0=3` killed after coredata.dat is deleted: the follow-up reports 5 *)
Lemma after_edit_wipe_refuted :
  completed_in w0 [Ran w0 (Setup [] false)] /\
  ~ old_or_new e_fixed w_edited (run_history e_fixed [Ran w0 (Setup [] false)]) (Wipe [(0, 3)] false [Core]) 1.
Proof. split; [repeat constructor; eexists; reflexivity|refute]. Qed.

(* would `meson configure` writing coredata.dat BEFORE cmd_line.txt repair the finding?  No: the same two
   kills then leave the state ahead of the record (coredata k0=2, cmd_line.txt k0=1) and the wipe window
   reports k0=1 — neither 2 (old) nor 3 (new) *)
Definition h_killed_configure_corefirst : list event :=
  [Ran w0 (Setup [(0, 1)] false); Killed w0 (Configure [(0, 2)] false) 9].
Lemma corefirst_does_not_help :
  run_history e_corefirst h_killed_configure_corefirst Cmd = Whole (CRec [(0, 1)] false) /\
  ~ old_or_new e_corefirst w0 (run_history e_corefirst h_killed_configure_corefirst) (Wipe [(0, 3)] false [Core]) 1.
Proof. split; [vm_compute; reflexivity|refute]. Qed.

(* the guard is satisfiable by a non-trivial input (and false on the witnesses above) *)
Example guard_satisfiable :
  guard w0 (Wipe [(0, 3)] true [Core]) (run_history e_fixed [Ran w0 (Setup [(0, 1)] false); Killed w0 (Reconf [(1, 1)]) 9]) = true /\
  guard w0 (Wipe [(0, 3)] false [Core]) (run_history e_fixed h_killed_configure) = false /\
  guard w_edited (Wipe [(0, 3)] false [Core]) (run_history e_fixed [Ran w0 (Setup [] false)]) = false /\
  guard w_edited (Wipe [(1, 3)] false [Core]) (run_history e_fixed [Ran w0 (Setup [(1, 2)] false)]) = true.
Proof. repeat split; vm_compute; reflexivity. Qed.

Lemma fixed_e_fixed : fixed e_fixed.
Proof. repeat split; reflexivity. Qed.
