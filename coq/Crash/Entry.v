(* Crash/Entry.v — entry points used by the correspondence (harness/check_C09.py):
   arguments are strings, the result is ONE canonical string.

   wire format (separators are code points 1 and 2, never data):
     env     = dats \1 infos \1 cinfos \1 chunks \1 flags      lists: decimal, comma separated
               flags: two letters T/F = atomic_cmd, keep_cmd
     event   = kind \1 D \1 order \1 kill \1 flag \1 decl \1 mfile
               kind: S setup, R setup --reconfigure, W setup --wipe, C configure, X external damage
               D: "k=v,k=v";  order: file codes, comma separated;  kill: "" (ran to its end) or decimal
               flag: "T" = --native-file given (S, W) / --clearcache (C)
               decl, mfile: the world of the event: declared defaults that differ from 0, machine-file values
               for X: D = file code, order = "T" (truncate) or "A" (delete)
     history = events separated by \2
   file codes: P meson-private/  J meson-info/  c coredata.dat  p .prev  t coredata.dat~  b build.dat
               m cmd_line.txt  n cmd_line.txt~  s (temp copy)  N build.ninja  M build.ninja~
               D<i> .dat  I<i> intro file  T tmp_dump.json *)
From MV Require Import Base.Strs Crash.Model.
Open Scope N_scope.

Fixpoint split_on (sep : char) (s : str) (cur : str) : list str :=
  match s with
  | [] => [rev cur]
  | c :: r => if c =? sep then rev cur :: split_on sep r [] else split_on sep r (c :: cur)
  end.
Definition split (sep : char) (s : str) : list str :=
  match s with [] => [] | _ => split_on sep s [] end.
Definition fields (s : str) : list str := split_on 1 s [].
Definition nth_str (n : nat) (l : list str) : str := nth n l [].

Definition parse_nums (s : str) : list N := map digits_val (split 44 s).
Definition parse_kv (s : str) : (key * val) :=
  match split_on 61 s [] with
  | [k; v] => (digits_val k, digits_val v)
  | _ => (0, 0)
  end.
Definition parse_D (s : str) : alist := map parse_kv (split 44 s).

Definition parse_file (s : str) : file :=
  match s with
  | [80] => PrivDir | [74] => InfoDir | [99] => Core | [112] => CorePrev | [116] => CoreTmp
  | [98] => BuildDat | [109] => Cmd | [110] => CmdTmp | [115] => CmdSave | [78] => Ninja
  | [77] => NinjaTmp | [84] => InfoTmp
  | 68 :: r => Dat (digits_val r)
  | 73 :: r => Info (digits_val r)
  | _ => CmdSave
  end.
Definition file_code (f : file) : str :=
  match f with
  | PrivDir => [80] | InfoDir => [74] | Core => [99] | CorePrev => [112] | CoreTmp => [116]
  | BuildDat => [98] | Cmd => [109] | CmdTmp => [110] | CmdSave => [115] | Ninja => [78]
  | NinjaTmp => [77] | InfoTmp => [84]
  | Dat i => 68 :: N_dec i
  | Info i => 73 :: N_dec i
  end.

Definition parse_env (s : str) : env :=
  let f := fields s in
  let fl := nth_str 4 f in
  {| dats := parse_nums (nth_str 0 f); infos := parse_nums (nth_str 1 f);
     cinfos := parse_nums (nth_str 2 f); chunks := N.to_nat (digits_val (nth_str 3 f));
     atomic_cmd := match fl with 84 :: _ => true | _ => false end;
     keep_cmd := match fl with [_; 84] => true | _ => false end;
     core_first := false |}.

Definition flag_of (f : list str) : bool := match nth_str 4 f with [84] => true | _ => false end.
Definition parse_world (decls mf : str) : world :=
  {| decl := value (parse_D decls); mfile := parse_D mf |}.
Definition world_of (f : list str) : world := parse_world (nth_str 5 f) (nth_str 6 f).
Definition parse_cmd (f : list str) : cmd :=
  let D := parse_D (nth_str 1 f) in
  match nth_str 0 f with
  | [83] => Setup D (flag_of f)
  | [82] => Reconf D
  | [87] => Wipe D (flag_of f) (map parse_file (split 44 (nth_str 2 f)))
  | _ => Configure D (flag_of f)
  end.
Definition parse_event (s : str) : event :=
  let f := fields s in
  match nth_str 0 f with
  | [88] => Damage (parse_file (nth_str 1 f)) (match nth_str 2 f with [84] => true | _ => false end)
  | _ => match nth_str 3 f with
         | [] => Ran (world_of f) (parse_cmd f)
         | k => Killed (world_of f) (parse_cmd f) (N.to_nat (digits_val k))
         end
  end.
Definition parse_history (s : str) : list event := map parse_event (split 2 s).

(* ---------------------------------------------------------------- rendering *)
Definition render_op (o : op) : str :=
  match o with
  | OMkdir d => 75 :: file_code d
  | OOpen f => 79 :: file_code f
  | OAppend f => 65 :: file_code f
  | OWrite f _ => 87 :: file_code f
  | OFsync f => 70 :: file_code f
  | ORename a b => 82 :: file_code a ++ [62] ++ file_code b
  | OUnlink f => 85 :: file_code f
  | ORmdir d => 88 :: file_code d
  end.
Definition render_outcome (o : outcome) : str :=
  match o with Done => s2l "ok" | MesonErr => s2l "MesonException" | PyErr => s2l "PyErr" end.
Definition render_vals (keys : list N) (l : alist) : str :=
  join [44] (map (fun k => N_dec k ++ [61] ++ N_dec (value l k)) keys).
Definition render_store (keys : list N) (s : store) : str :=
  join [44] (map (fun k => N_dec k ++ [61] ++ N_dec (s k)) keys).
Definition render_fstate (keys : list N) (x : fstate) : str :=
  match x with
  | Absent => [65]
  | Torn => [84]
  | Whole (CStore s) => 87 :: 123 :: render_store keys s ++ [125]
  | Whole (CRec r nf) => 87 :: 91 :: render_vals keys r ++ [93] ++ (if nf then [110] else [])
  | Whole CBlob => [87]
  end.
Definition universe (e : env) : list file :=
  [PrivDir; InfoDir; Core; CorePrev; CoreTmp; BuildDat; Cmd; CmdTmp; Ninja; NinjaTmp; InfoTmp]
  ++ map Dat (dats e) ++ map Info (infos e).
Definition render_state (e : env) (keys : list N) (st : fs) : str :=
  join [32] (map (fun f => file_code f ++ [61] ++ render_fstate keys (st f)) (universe e)).
Definition render_followup (c : cmd) : str :=
  match c with Reconf _ => s2l "reconfigure" | _ => s2l "setup" end.
Definition render_reported (keys : list N) (o : option store) : str :=
  match o with Some l => render_store keys l | None => [45] end.

Definition all_whole (e : env) (st : fs) : bool :=
  forallb (fun f => whole (st f)) (state_files e) && forallb (fun f => negb (exists_ (st f))) temp_files.

Definition BAR : str := [124].

Definition run (fn : str) (args : list str) : str :=
  let e := parse_env (nth_str 0 args) in
  let st := run_history e (parse_history (nth_str 1 args)) in
  if str_eqb fn (s2l "ops") then
    (* env, history, command (with its world) -> outcome | op sequence *)
    let f := fields (nth_str 2 args) in
    let '(ops, out) := plan_of e (world_of f) (parse_cmd f) st in
    render_outcome out ++ BAR ++ join [32] (map render_op ops)
  else if str_eqb fn (s2l "crash") then
    (* env, history, command, k, keys -> crashed state | follow-up | its outcome | values it reports | all state files whole afterwards *)
    let f := fields (nth_str 2 args) in
    let c := parse_cmd f in
    let w := world_of f in
    let k := N.to_nat (digits_val (nth_str 3 args)) in
    let keys := parse_nums (nth_str 4 args) in
    let st' := crash e w k c st in
    let '(out, st'') := recover e w st' in
    render_state e keys st' ++ BAR ++ render_followup (followup st') ++ BAR ++ render_outcome out ++ BAR ++
    render_reported keys (reported e w st') ++ BAR ++ bool_str (all_whole e st'')
  else if str_eqb fn (s2l "state") then
    (* env, history, keys, decl, mfile -> state | follow-up | outcome | reported | whole afterwards *)
    let keys := parse_nums (nth_str 2 args) in
    let w := parse_world (nth_str 3 args) (nth_str 4 args) in
    let '(out, st'') := recover e w st in
    render_state e keys st ++ BAR ++ render_followup (followup st) ++ BAR ++ render_outcome out ++ BAR ++
    render_reported keys (reported e w st) ++ BAR ++ bool_str (all_whole e st'')
  else s2l "?".
