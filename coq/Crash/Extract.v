(* Extraction of the C09 model.  Only the ExtrOcamlBasic directives are used. *)
From Coq Require Extraction.
From Coq Require Import ExtrOcamlBasic.
From MV Require Import Crash.Entry.
Extraction "../extract/C09/model.ml" Crash.Entry.run.
