(* Crash/Model.v — C09: the state files of a meson build directory, the sequence of
   file-system micro-operations each mutating command issues, process death after the
   first k of them, and the follow-up `meson setup [--reconfigure]`.

   Transcribed from (file:line of /repo, with pending/C09-*.diff applied):
     mesonbuild/coredata.py:467-481      save: copy to .prev, write ~, fsync, os.replace
     mesonbuild/build.py:3671-3679       save: build.dat written in place
     mesonbuild/cmdline.py:56-121        read/write/update_cmd_line_file
     mesonbuild/msetup.py:82-110         --wipe
     mesonbuild/msetup.py:165-188        validate_dirs
     mesonbuild/msetup.py:190-204        generate (Environment, lock)
     mesonbuild/msetup.py:230-348        _generate (order of the writes)
     mesonbuild/environment.py:115-147   Environment.__init__ (load / regenerate coredata)
     mesonbuild/mconf.py:372-403         run_impl (meson configure)
     mesonbuild/backend/ninjabackend.py:713-776  build.ninja~ then os.replace
     mesonbuild/mintro.py                intro files: tmp_dump.json then os.replace
     mesonbuild/utils/universal.py:2651-2676     pickle_load error mapping

   The two boolean switches of [env] select the behaviour of the tree BEFORE the pending
   fixes (cmd_line.txt written in place; --wipe keeping cmd_line.txt only in a temporary
   directory); the property theorems are about the fixed behaviour, the historical one
   is kept for the `_refuted` witnesses.  No proofs in this file. *)
From MV Require Import Base.Strs.
Open Scope N_scope.

(* ---------------------------------------------------------------- option values *)
Definition key := N.
Definition val := N.
(* a list of -Dkey=value settings in the order given; the LAST binding of a key wins *)
Definition alist := list (key * val).

Fixpoint alookup (k : key) (l : alist) : option val :=
  match l with
  | [] => None
  | (k', v) :: r =>
      match alookup k r with
      | Some x => Some x
      | None => if k =? k' then Some v else None
      end
  end.
Definition dflt (k : key) : val := 0.          (* every option's default is value 0 *)
Definition value (l : alist) (k : key) : val :=
  match alookup k l with Some v => v | None => dflt k end.

(* ---------------------------------------------------------------- files *)
Inductive file :=
| PrivDir              (* meson-private/ *)
| InfoDir              (* meson-info/ *)
| Core                 (* meson-private/coredata.dat *)
| CorePrev             (* meson-private/coredata.dat.prev *)
| CoreTmp              (* meson-private/coredata.dat~ *)
| BuildDat             (* meson-private/build.dat *)
| Cmd                  (* meson-private/cmd_line.txt *)
| CmdTmp               (* meson-private/cmd_line.txt~ *)
| CmdSave              (* copy of cmd_line.txt in a temporary directory (historical --wipe) *)
| Ninja                (* build.ninja *)
| NinjaTmp             (* build.ninja~ *)
| Dat (i : N)          (* meson-private/{install,cleantrees,meson_test_setup,...}.dat *)
| Info (i : N)         (* meson-info/intro-*.json, meson-info.json *)
| InfoTmp.             (* meson-info/tmp_dump.json *)

Definition file_eqb (a b : file) : bool :=
  match a, b with
  | PrivDir, PrivDir | InfoDir, InfoDir | Core, Core | CorePrev, CorePrev | CoreTmp, CoreTmp
  | BuildDat, BuildDat | Cmd, Cmd | CmdTmp, CmdTmp | CmdSave, CmdSave | Ninja, Ninja
  | NinjaTmp, NinjaTmp | InfoTmp, InfoTmp => true
  | Dat i, Dat j => i =? j
  | Info i, Info j => i =? j
  | _, _ => false
  end.

Inductive content :=
| CStore (l : alist)     (* a pickled CoreData: the option store is  defaults overridden by l *)
| CRec (r : alist)       (* cmd_line.txt: the recorded [options] section *)
| CBlob.                 (* anything else that is complete *)

Inductive fstate :=
| Absent
| Torn                   (* exists but incomplete: truncated to empty, or partially written *)
| Whole (c : content).

Definition fs := file -> fstate.
Definition empty_fs : fs := fun _ => Absent.
Definition upd (f : file) (x : fstate) (st : fs) : fs :=
  fun g => if file_eqb g f then x else st g.
Definition exists_ (x : fstate) : bool := match x with Absent => false | _ => true end.

(* ---------------------------------------------------------------- micro-operations *)
Inductive op :=
| OMkdir (d : file)
| OOpen (f : file)                        (* open(O_WRONLY|O_CREAT|O_TRUNC) *)
| OAppend (f : file)                      (* open(O_WRONLY|O_CREAT|O_APPEND) *)
| OWrite (f : file) (c : option content)  (* write/sendfile; Some c: the call that completes content c *)
| OFsync (f : file)
| ORename (a b : file)                    (* os.replace(a, b) *)
| OUnlink (f : file)
| ORmdir (d : file).

Definition apply_op (o : op) (st : fs) : fs :=
  match o with
  | OMkdir d => match st d with Absent => upd d (Whole CBlob) st | _ => st end
  | OOpen f => upd f Torn st
  | OAppend f => match st f with Absent => upd f Torn st | _ => st end
  | OWrite f None => upd f Torn st
  | OWrite f (Some c) => upd f (Whole c) st
  | OFsync _ => st
  | ORename a b => match st a with Absent => st | x => upd a Absent (upd b x st) end
  | OUnlink f => upd f Absent st
  | ORmdir d => upd d Absent st
  end.

Definition run_ops (ops : list op) (st : fs) : fs := fold_left (fun s o => apply_op o s) ops st.

(* ---------------------------------------------------------------- environment parameters *)
Record env := {
  dats : list N;         (* the in-place pickles the backend writes, in order *)
  infos : list N;        (* the intro files `meson setup` writes, in order *)
  cinfos : list N;       (* the intro files `meson configure` rewrites *)
  chunks : nat;          (* extra partial write() calls per large file *)
  atomic_cmd : bool;     (* cmd_line.txt via cmd_line.txt~ + os.replace (pending fix) *)
  keep_cmd : bool        (* --wipe leaves cmd_line.txt in place (pending fix) *)
}.

Inductive outcome := Done | MesonErr | PyErr.
Definition plan := (list op * outcome)%type.

(* ---------------------------------------------------------------- building blocks *)
Definition partials (f : file) (n : nat) : list op := repeat (OWrite f None) n.

(* coredata.py:467-481 *)
Definition save_core (e : env) (l : alist) (st : fs) : list op :=
  (match st Core with
   | Absent => []                                                    (* :473 os.path.exists *)
   | Whole c => [OOpen CorePrev; OWrite CorePrev (Some c)]           (* :475 shutil.copyfile *)
   | Torn => [OOpen CorePrev; OWrite CorePrev None]
   end) ++
  [OOpen CoreTmp] ++ partials CoreTmp (chunks e) ++
  [OWrite CoreTmp (Some (CStore l)); OFsync CoreTmp; ORename CoreTmp Core].   (* :476-480 *)

(* ninjabackend.py:713-776; the .dat files are written by generate_install/tests/... in between *)
Definition gen_ninja (e : env) : list op :=
  [OOpen NinjaTmp; OWrite NinjaTmp None; OAppend NinjaTmp] ++
  flat_map (fun i => [OOpen (Dat i); OWrite (Dat i) (Some CBlob)]) (dats e) ++
  [OWrite NinjaTmp (Some CBlob); ORename NinjaTmp Ninja].

(* build.py:3671-3679 *)
Definition save_build (e : env) : list op :=
  [OOpen BuildDat] ++ partials BuildDat (chunks e) ++ [OWrite BuildDat (Some CBlob)].

(* cmdline.py write_cmd_line_file / update_cmd_line_file (the write itself) *)
Definition write_cmd (e : env) (r : alist) : list op :=
  if atomic_cmd e
  then [OOpen CmdTmp] ++ partials CmdTmp (chunks e) ++ [OWrite CmdTmp (Some (CRec r)); ORename CmdTmp Cmd]
  else [OOpen Cmd] ++ partials Cmd (chunks e) ++ [OWrite Cmd (Some (CRec r))].

(* mintro.py: every intro file goes through tmp_dump.json + os.replace *)
Definition intro (l : list N) : list op :=
  flat_map (fun i => [OOpen InfoTmp; OWrite InfoTmp (Some CBlob); ORename InfoTmp (Info i)]) l.

(* environment.py:123-125 os.makedirs(..., exist_ok=True) *)
Definition mkdirs (st : fs) : list op :=
  (if exists_ (st PrivDir) then [] else [OMkdir PrivDir]) ++
  (if exists_ (st InfoDir) then [] else [OMkdir InfoDir]).

(* cmdline.py:56-79 read_cmd_line_file *)
Inductive cmdread := RAbsent | RRec (r : alist) | RBad.
Definition read_cmd (x : fstate) : cmdread :=
  match x with
  | Absent => RAbsent                       (* :58 not os.path.isfile *)
  | Whole (CRec r) => RRec r
  | _ => RBad                               (* :67 config['options'] -> KeyError / configparser error *)
  end.

(* msetup.py:_generate after the interpreter ran: the order of the writes (:281-313) *)
Definition body (e : env) (l r : alist) (st : fs) : list op :=
  save_core e l st ++ gen_ninja e ++ save_build e ++ write_cmd e r ++ intro (infos e).

(* `meson setup [--reconfigure]` once validate_dirs let it through.
   D: the -D settings of this invocation. *)
Definition setup_like (e : env) (D : alist) (st : fs) : plan :=
  let pre := mkdirs st in
  match st Core with
  | Whole (CStore l) =>
      (* environment.py:128-130 loaded, not first_invocation; msetup.py:193-195 set_from_configure_command *)
      match read_cmd (st Cmd) with                  (* msetup.py:233 *)
      | RBad => (pre, PyErr)
      | RAbsent => (pre ++ body e (l ++ D) D st, Done)         (* cmdline.py:104-108 written from scratch *)
      | RRec r => (pre ++ body e (l ++ D) (r ++ D) st, Done)   (* cmdline.py:109-114 *)
      end
  | Absent =>
      (* environment.py:131-132 FileNotFoundError -> create_new_coredata, first_invocation *)
      match read_cmd (st Cmd) with                  (* msetup.py:233: user_defined_options = file + command line *)
      | RBad => (pre, PyErr)
      | RAbsent => (pre ++ body e D D st, Done)
      | RRec r => (pre ++ body e (r ++ D) (r ++ D) st, Done)   (* msetup.py:298-302: the recorded options stay recorded *)
      end
  | _ =>
      (* unreadable coredata: universal.py:2651-2663 -> MesonException; environment.py:138-147 *)
      match st Cmd with
      | Absent => (pre, MesonErr)                   (* :147 "Try regenerating using meson setup --wipe" *)
      | x => match read_cmd x with                  (* :144 read into the options of this run *)
             | RRec r => (pre ++ body e (r ++ D) (r ++ D) st, Done)
             | _ => (pre, PyErr)
             end
      end
  end.

(* mconf.py:372-403 *)
Definition dirty (l D : alist) : bool :=
  existsb (fun kv => negb (value l (fst kv) =? snd kv)) D.
Definition configure_plan (e : env) (D : alist) (st : fs) : plan :=
  match st PrivDir with
  | Absent => ([], MesonErr)                        (* mconf.py:119 neither build nor source dir *)
  | _ =>
    match st BuildDat, st Core with
    | Whole _, Whole (CStore l) =>                  (* mconf.py:86 build.load *)
        match D with
        | [] => ([], Done)                          (* print only *)
        | _ =>
          let r' := match read_cmd (st Cmd) with RRec r => r ++ D | _ => D end in   (* cmdline.py:103-114 *)
          (write_cmd e r' ++
           (if dirty l D                            (* mconf.py:385,390 *)
            then save_core e (l ++ D) st ++ intro (cinfos e)
            else []), Done)
        end
    | _, _ => ([], MesonErr)                        (* build.py:3663-3669 / pickle_load *)
    end
  end.

(* the files --wipe may find and delete *)
Definition kept (e : env) (f : file) : bool :=
  match f with
  | PrivDir => keep_cmd e
  | Cmd => keep_cmd e
  | _ => false
  end.
Definition del_op (f : file) : op :=
  match f with PrivDir | InfoDir => ORmdir f | _ => OUnlink f end.
Definition deletions (e : env) (order : list file) (st : fs) : list op :=
  flat_map (fun f => if kept e f then [] else if exists_ (st f) then [del_op f] else []) order.

(* msetup.py:82-110 *)
Definition wipe_plan (e : env) (D : alist) (order : list file) (st : fs) : plan :=
  match st PrivDir, read_cmd (st Cmd) with
  | Absent, _ => ([], MesonErr)                     (* msetup.py:187-188 "not empty and does not contain a previous
                                                       build"; (--wipe of a completely empty directory, which behaves
                                                       like a first setup, is not modelled) *)
  | _, RBad => ([], PyErr)                          (* :92 read_cmd_line_file(self.build_dir, options) *)
  | _, rc =>
    let r0 := match rc with RRec r => r | _ => [] end in
    let save := if keep_cmd e then []
                else match st Cmd with
                     | Whole c => [OOpen CmdSave; OWrite CmdSave (Some c)]    (* historical: shutil.copy to a temp dir *)
                     | _ => []
                     end in
    let del := deletions e order st in
    let restore := if keep_cmd e then []
                   else match st Cmd with
                        | Whole _ => [OMkdir PrivDir; ORename CmdSave Cmd]    (* historical: shutil.move back *)
                        | _ => []
                        end in
    let pre := save ++ del ++ restore in
    let '(ops2, out) := setup_like e (r0 ++ D) (run_ops pre st) in
    (pre ++ ops2, out)
  end.

(* ---------------------------------------------------------------- commands *)
Inductive cmd :=
| Setup (D : alist)                          (* meson setup B S -D... *)
| Reconf (D : alist)                         (* meson setup --reconfigure B S -D... *)
| Wipe (D : alist) (order : list file)       (* meson setup --wipe B S -D...; order: the directory listing *)
| Configure (D : alist).                     (* meson configure B -D... *)

Definition plan_of (e : env) (c : cmd) (st : fs) : plan :=
  match c with
  | Setup D =>
      (* msetup.py:175-186: coredata.dat exists and neither --reconfigure nor --wipe *)
      if exists_ (st Core)
      then match D with [] => ([], Done) | _ => configure_plan e D st end
      else setup_like e D st
  | Reconf D => setup_like e D st
  | Wipe D order => wipe_plan e D order st
  | Configure D => configure_plan e D st
  end.

Definition ops_of (e : env) (c : cmd) (st : fs) : list op := fst (plan_of e c st).
Definition exec (e : env) (c : cmd) (st : fs) : fs := run_ops (ops_of e c st) st.
(* the process is killed on entry to its (k+1)-th mutation *)
Definition crash (e : env) (k : nat) (c : cmd) (st : fs) : fs := run_ops (firstn k (ops_of e c st)) st.

(* ---------------------------------------------------------------- recovery *)
(* "re-running `meson setup` (with --reconfigure when it was already configured)" *)
Definition followup (st : fs) : cmd :=
  if exists_ (st Core) then Reconf [] else Setup [].

Definition stored (st : fs) : option alist :=
  match st Core with Whole (CStore l) => Some l | _ => None end.

(* outcome of the follow-up, the state it leaves, the option store it reports *)
Definition recover (e : env) (st : fs) : outcome * fs :=
  let c := followup st in
  (snd (plan_of e c st), exec e c st).

Definition reported (e : env) (st : fs) : option alist :=
  match recover e st with
  | (Done, st') => stored st'
  | _ => None
  end.

(* ---------------------------------------------------------------- histories *)
Inductive event :=
| Ran (c : cmd)                      (* a command that ran to its end *)
| Killed (c : cmd) (k : nat)         (* a command killed on entry to its (k+1)-th mutation *)
| Damage (f : file) (torn : bool).   (* NOT meson: external damage (truncate / delete a file); used only to
                                        validate the recovery decisions on states meson itself never produces *)
Definition step (e : env) (st : fs) (ev : event) : fs :=
  match ev with
  | Ran c => exec e c st
  | Killed c k => crash e k c st
  | Damage f t => apply_op (if t then OOpen f else del_op f) st
  end.
Definition meson_event (ev : event) : bool := match ev with Damage _ _ => false | _ => true end.
Definition run_history (e : env) (h : list event) : fs := fold_left (step e) h empty_fs.

(* the files whose readability the follow-up must re-establish *)
Definition state_files (e : env) : list file :=
  [Core; BuildDat; Cmd; Ninja] ++ map Dat (dats e) ++ map Info (infos e).
Definition temp_files : list file := [CoreTmp; CmdTmp; NinjaTmp; InfoTmp].
Definition whole (x : fstate) : bool := match x with Whole _ => true | _ => false end.
