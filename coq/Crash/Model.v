(* Crash/Model.v — C09: the state files of a meson build directory, the sequence of
   file-system micro-operations each mutating command issues, process death after the
   first k of them, and the follow-up `meson setup [--reconfigure]`.

   Transcribed from (file:line of /repo, with pending/C09-*.diff applied):
     mesonbuild/coredata.py:467-481      save: copy to .prev, write ~, fsync, os.replace
     mesonbuild/build.py:3671-3679       save: build.dat written in place
     mesonbuild/cmdline.py:56-121        read/write/update_cmd_line_file
     mesonbuild/msetup.py:82-110         --wipe
     mesonbuild/msetup.py:165-188        validate_dirs
     mesonbuild/msetup.py:190-204        generate (Environment, lock)
     mesonbuild/msetup.py:230-348        _generate (order of the writes)
     mesonbuild/environment.py:115-147   Environment.__init__ (load / regenerate coredata)
     mesonbuild/mconf.py:372-403         run_impl (meson configure)
     mesonbuild/backend/ninjabackend.py:713-776  build.ninja~ then os.replace
     mesonbuild/mintro.py                intro files: tmp_dump.json then os.replace
     mesonbuild/utils/universal.py:2651-2676     pickle_load error mapping

   The boolean switches of [env] select historical / hypothetical behaviour (cmd_line.txt written in
   place; --wipe keeping cmd_line.txt only in a temporary directory; configure writing coredata.dat
   first); the property theorems are about the tree as it is, the other settings are kept for the
   `_refuted` witnesses.  What lies outside the build directory (declared defaults, machine-file
   contents) is a [world] that every command / event carries.  No proofs in this file. *)
From MV Require Import Base.Strs.
Open Scope N_scope.

(* ---------------------------------------------------------------- option values *)
Definition key := N.
Definition val := N.
(* a list of -Dkey=value settings in the order given; the LAST binding of a key wins *)
Definition alist := list (key * val).

Fixpoint alookup (k : key) (l : alist) : option val :=
  match l with
  | [] => None
  | (k', v) :: r =>
      match alookup k r with
      | Some x => Some x
      | None => if k =? k' then Some v else None
      end
  end.
Definition dflt (k : key) : val := 0.
(* rendering of a recorded [options] section: an option that is not recorded shows as 0 *)
Definition value (l : alist) (k : key) : val :=
  match alookup k l with Some v => v | None => dflt k end.

(* an option store: the value of every option (what coredata.dat holds) *)
Definition store := key -> val.
(* what lies OUTSIDE the build directory and may be edited between two commands:
   the defaults the project declares (meson.options defaults, project(default_options:)) and the
   option values written in the machine file *)
Record world := { decl : store; mfile : alist }.
(* a first configuration resolves every option: command line (this one + the recorded one) over the
   machine file (if one is in force) over the declared default *)
Definition resolve (w : world) (nf : bool) (cl : alist) : store :=
  fun k => match alookup k cl with
           | Some v => v
           | None => if nf then match alookup k (mfile w) with Some v => v | None => decl w k end
                     else decl w k
           end.
(* a re-configuration only applies the -D settings it is given (coredata.py set_from_configure_command):
   neither the declared defaults nor the machine file are applied again *)
Definition override (s : store) (D : alist) : store :=
  fun k => match alookup k D with Some v => v | None => s k end.

(* ---------------------------------------------------------------- files *)
Inductive file :=
| PrivDir              (* meson-private/ *)
| InfoDir              (* meson-info/ *)
| Core                 (* meson-private/coredata.dat *)
| CorePrev             (* meson-private/coredata.dat.prev *)
| CoreTmp              (* meson-private/coredata.dat~ *)
| BuildDat             (* meson-private/build.dat *)
| Cmd                  (* meson-private/cmd_line.txt *)
| CmdTmp               (* meson-private/cmd_line.txt~ *)
| CmdSave              (* copy of cmd_line.txt in a temporary directory (historical --wipe) *)
| Ninja                (* build.ninja *)
| NinjaTmp             (* build.ninja~ *)
| Dat (i : N)          (* meson-private/{install,cleantrees,meson_test_setup,...}.dat *)
| Info (i : N)         (* meson-info/intro-*.json, meson-info.json *)
| InfoTmp.             (* meson-info/tmp_dump.json *)

Definition file_eqb (a b : file) : bool :=
  match a, b with
  | PrivDir, PrivDir | InfoDir, InfoDir | Core, Core | CorePrev, CorePrev | CoreTmp, CoreTmp
  | BuildDat, BuildDat | Cmd, Cmd | CmdTmp, CmdTmp | CmdSave, CmdSave | Ninja, Ninja
  | NinjaTmp, NinjaTmp | InfoTmp, InfoTmp => true
  | Dat i, Dat j => i =? j
  | Info i, Info j => i =? j
  | _, _ => false
  end.

Inductive content :=
| CStore (s : store)              (* a pickled CoreData: the option store *)
| CRec (r : alist) (nf : bool)    (* cmd_line.txt: the recorded [options] section; [properties] names a machine file *)
| CBlob.                 (* anything else that is complete *)

Inductive fstate :=
| Absent
| Torn                   (* exists but incomplete: truncated to empty, or partially written *)
| Whole (c : content).

Definition fs := file -> fstate.
Definition empty_fs : fs := fun _ => Absent.
Definition upd (f : file) (x : fstate) (st : fs) : fs :=
  fun g => if file_eqb g f then x else st g.
Definition exists_ (x : fstate) : bool := match x with Absent => false | _ => true end.

(* ---------------------------------------------------------------- micro-operations *)
Inductive op :=
| OMkdir (d : file)
| OOpen (f : file)                        (* open(O_WRONLY|O_CREAT|O_TRUNC) *)
| OAppend (f : file)                      (* open(O_WRONLY|O_CREAT|O_APPEND) *)
| OWrite (f : file) (c : option content)  (* write/sendfile; Some c: the call that completes content c *)
| OFsync (f : file)
| ORename (a b : file)                    (* os.replace(a, b) *)
| OUnlink (f : file)
| ORmdir (d : file).

Definition apply_op (o : op) (st : fs) : fs :=
  match o with
  | OMkdir d => match st d with Absent => upd d (Whole CBlob) st | _ => st end
  | OOpen f => upd f Torn st
  | OAppend f => match st f with Absent => upd f Torn st | _ => st end
  | OWrite f None => upd f Torn st
  | OWrite f (Some c) => upd f (Whole c) st
  | OFsync _ => st
  | ORename a b => match st a with Absent => st | x => upd a Absent (upd b x st) end
  | OUnlink f => upd f Absent st
  | ORmdir d => upd d Absent st
  end.

Definition run_ops (ops : list op) (st : fs) : fs := fold_left (fun s o => apply_op o s) ops st.

(* ---------------------------------------------------------------- environment parameters *)
Record env := {
  dats : list N;         (* the in-place pickles the backend writes, in order *)
  infos : list N;        (* the intro files `meson setup` writes, in order *)
  cinfos : list N;       (* the intro files `meson configure` rewrites *)
  chunks : nat;          (* extra partial write() calls per large file *)
  atomic_cmd : bool;     (* cmd_line.txt via cmd_line.txt~ + os.replace (fix fa5f5e3) *)
  keep_cmd : bool;       (* --wipe leaves cmd_line.txt in place (fix 80cc784) *)
  core_first : bool      (* hypothetical: `meson configure` writes coredata.dat BEFORE cmd_line.txt *)
}.

Inductive outcome := Done | MesonErr | PyErr.
Definition plan := (list op * outcome)%type.

(* ---------------------------------------------------------------- building blocks *)
Definition partials (f : file) (n : nat) : list op := repeat (OWrite f None) n.

(* coredata.py:467-481 *)
Definition save_core (e : env) (l : store) (st : fs) : list op :=
  (match st Core with
   | Absent => []                                                    (* :473 os.path.exists *)
   | Whole c => [OOpen CorePrev; OWrite CorePrev (Some c)]           (* :475 shutil.copyfile *)
   | Torn => [OOpen CorePrev; OWrite CorePrev None]
   end) ++
  [OOpen CoreTmp] ++ partials CoreTmp (chunks e) ++
  [OWrite CoreTmp (Some (CStore l)); OFsync CoreTmp; ORename CoreTmp Core].   (* :476-480 *)

(* ninjabackend.py:713-776; the .dat files are written by generate_install/tests/... in between *)
Definition gen_ninja (e : env) : list op :=
  [OOpen NinjaTmp; OWrite NinjaTmp None; OAppend NinjaTmp] ++
  flat_map (fun i => [OOpen (Dat i); OWrite (Dat i) (Some CBlob)]) (dats e) ++
  [OWrite NinjaTmp (Some CBlob); ORename NinjaTmp Ninja].

(* build.py:3671-3679 *)
Definition save_build (e : env) : list op :=
  [OOpen BuildDat] ++ partials BuildDat (chunks e) ++ [OWrite BuildDat (Some CBlob)].

(* cmdline.py write_cmd_line_file / update_cmd_line_file (the write itself) *)
Definition write_cmd (e : env) (r : alist) (nf : bool) : list op :=
  if atomic_cmd e
  then [OOpen CmdTmp] ++ partials CmdTmp (chunks e) ++ [OWrite CmdTmp (Some (CRec r nf)); ORename CmdTmp Cmd]
  else [OOpen Cmd] ++ partials Cmd (chunks e) ++ [OWrite Cmd (Some (CRec r nf))].

(* mintro.py: every intro file goes through tmp_dump.json + os.replace *)
Definition intro (l : list N) : list op :=
  flat_map (fun i => [OOpen InfoTmp; OWrite InfoTmp (Some CBlob); ORename InfoTmp (Info i)]) l.

(* environment.py:123-125 os.makedirs(..., exist_ok=True) *)
Definition mkdirs (st : fs) : list op :=
  (if exists_ (st PrivDir) then [] else [OMkdir PrivDir]) ++
  (if exists_ (st InfoDir) then [] else [OMkdir InfoDir]).

(* cmdline.py:56-79 read_cmd_line_file *)
Inductive cmdread := RAbsent | RRec (r : alist) (nf : bool) | RBad.
Definition read_cmd (x : fstate) : cmdread :=
  match x with
  | Absent => RAbsent                       (* :58 not os.path.isfile *)
  | Whole (CRec r nf) => RRec r nf
  | _ => RBad                               (* :67 config['options'] -> KeyError / configparser error *)
  end.

(* msetup.py:_generate after the interpreter ran: the order of the writes (:281-313) *)
Definition body (e : env) (l : store) (r : alist) (nf : bool) (st : fs) : list op :=
  save_core e l st ++ gen_ninja e ++ save_build e ++ write_cmd e r nf ++ intro (infos e).

(* `meson setup [--reconfigure]` once validate_dirs let it through, in world w.
   D: the -D settings of this invocation; nf: --native-file given on this command line. *)
Definition setup_like (e : env) (w : world) (D : alist) (nf : bool) (st : fs) : plan :=
  let pre := mkdirs st in
  (* a first configuration of a directory that may hold a recorded command line *)
  let first :=
    match read_cmd (st Cmd) with                    (* environment.py:131-135 / :138-146 / msetup.py:233 *)
    | RBad => (pre, PyErr)
    | RAbsent => (pre ++ body e (resolve w nf D) D nf st, Done)
    | RRec r nfr =>                                 (* cmdline.py:72-79: recorded machine files unless given now;
                                                       msetup.py:296-302: what is in force stays recorded *)
        (pre ++ body e (resolve w (nf || nfr) (r ++ D)) (r ++ D) (nf || nfr) st, Done)
    end in
  match st Core with
  | Whole (CStore s) =>
      (* environment.py:128-130 loaded, not first_invocation; msetup.py:193-195 set_from_configure_command *)
      match read_cmd (st Cmd) with                  (* msetup.py:233 *)
      | RBad => (pre, PyErr)
      | RAbsent => (pre ++ body e (override s D) D nf st, Done)           (* cmdline.py:104-108 written from scratch *)
      | RRec r nfr => (pre ++ body e (override s D) (r ++ D) nfr st, Done)   (* cmdline.py:109-114: [properties] kept *)
      end
  | Absent => first                                 (* environment.py:131-135 FileNotFoundError *)
  | _ =>
      (* unreadable coredata: universal.py:2651-2663 -> MesonException; environment.py:138-147 *)
      match st Cmd with
      | Absent => (pre, MesonErr)                   (* :147 "Try regenerating using meson setup --wipe" *)
      | _ => first
      end
  end.

(* mconf.py:372-403.  cc: --clearcache *)
Definition dirty (s : store) (D : alist) : bool :=
  existsb (fun kv => negb (s (fst kv) =? snd kv)) D.
Definition configure_plan (e : env) (D : alist) (cc : bool) (st : fs) : plan :=
  match st PrivDir with
  | Absent => ([], MesonErr)                        (* mconf.py:119 neither build nor source dir *)
  | _ =>
    match st BuildDat, st Core with
    | Whole _, Whole (CStore s) =>                  (* mconf.py:86 build.load *)
        let saving := save_core e (override s D) st ++ intro (cinfos e) in   (* mconf.py:393-399 *)
        match D with
        | [] => if cc then (saving, Done) else ([], Done)      (* mconf.py:366-371 print only unless --clearcache *)
        | _ =>
          let '(r', nf') := match read_cmd (st Cmd) with RRec r nfr => (r ++ D, nfr) | _ => (D, false) end in   (* cmdline.py:103-114 *)
          let sv := if dirty s D || cc then saving else [] in   (* mconf.py:384-397 *)
          (if core_first e then sv ++ write_cmd e r' nf' else write_cmd e r' nf' ++ sv, Done)
        end
    | _, _ => ([], MesonErr)                        (* build.py:3663-3669 / pickle_load *)
    end
  end.

(* the files --wipe may find and delete *)
Definition kept (e : env) (f : file) : bool :=
  match f with
  | PrivDir => keep_cmd e
  | Cmd => keep_cmd e
  | _ => false
  end.
Definition del_op (f : file) : op :=
  match f with PrivDir | InfoDir => ORmdir f | _ => OUnlink f end.
Definition deletions (e : env) (order : list file) (st : fs) : list op :=
  flat_map (fun f => if kept e f then [] else if exists_ (st f) then [del_op f] else []) order.

(* msetup.py:82-110 *)
Definition wipe_plan (e : env) (w : world) (D : alist) (nf : bool) (order : list file) (st : fs) : plan :=
  match st PrivDir, read_cmd (st Cmd) with
  | Absent, _ => ([], MesonErr)                     (* msetup.py:187-188 "not empty and does not contain a previous
                                                       build"; (--wipe of a completely empty directory, which behaves
                                                       like a first setup, is not modelled) *)
  | _, RBad => ([], PyErr)                          (* :92 read_cmd_line_file(self.build_dir, options) *)
  | _, rc =>
    let '(r0, nfr) := match rc with RRec r n => (r, n) | _ => ([], false) end in
    let save := if keep_cmd e then []
                else match st Cmd with
                     | Whole c => [OOpen CmdSave; OWrite CmdSave (Some c)]    (* historical: shutil.copy to a temp dir *)
                     | _ => []
                     end in
    let del := deletions e order st in
    let restore := if keep_cmd e then []
                   else match st Cmd with
                        | Whole _ => [OMkdir PrivDir; ORename CmdSave Cmd]    (* historical: shutil.move back *)
                        | _ => []
                        end in
    let pre := save ++ del ++ restore in
    let '(ops2, out) := setup_like e w (r0 ++ D) (nf || nfr) (run_ops pre st) in
    (pre ++ ops2, out)
  end.

(* ---------------------------------------------------------------- commands *)
Inductive cmd :=
| Setup (D : alist) (nf : bool)                   (* meson setup B S -D... [--native-file F] *)
| Reconf (D : alist)                              (* meson setup --reconfigure [--clearcache] B S -D... *)
| Wipe (D : alist) (nf : bool) (order : list file) (* meson setup --wipe B S -D... [--native-file F]; order: the directory listing *)
| Configure (D : alist) (cc : bool).              (* meson configure B -D... [--clearcache] *)

Definition plan_of (e : env) (w : world) (c : cmd) (st : fs) : plan :=
  match c with
  | Setup D nf =>
      (* msetup.py:175-186: coredata.dat exists and neither --reconfigure nor --wipe *)
      if exists_ (st Core)
      then match D with [] => ([], Done) | _ => configure_plan e D false st end
      else setup_like e w D nf st
  | Reconf D => setup_like e w D false st
  | Wipe D nf order => wipe_plan e w D nf order st
  | Configure D cc => configure_plan e D cc st
  end.

Definition ops_of (e : env) (w : world) (c : cmd) (st : fs) : list op := fst (plan_of e w c st).
Definition exec (e : env) (w : world) (c : cmd) (st : fs) : fs := run_ops (ops_of e w c st) st.
(* the process is killed on entry to its (k+1)-th mutation *)
Definition crash (e : env) (w : world) (k : nat) (c : cmd) (st : fs) : fs :=
  run_ops (firstn k (ops_of e w c st)) st.

(* ---------------------------------------------------------------- recovery *)
(* "re-running `meson setup` (with --reconfigure when it was already configured)" *)
Definition followup (st : fs) : cmd :=
  if exists_ (st Core) then Reconf [] else Setup [] false.

Definition stored (st : fs) : option store :=
  match st Core with Whole (CStore l) => Some l | _ => None end.

(* outcome of the follow-up (run in the same world), the state it leaves, the option store it reports *)
Definition recover (e : env) (w : world) (st : fs) : outcome * fs :=
  let c := followup st in
  (snd (plan_of e w c st), exec e w c st).

Definition reported (e : env) (w : world) (st : fs) : option store :=
  match recover e w st with
  | (Done, st') => stored st'
  | _ => None
  end.

(* ---------------------------------------------------------------- histories *)
(* every event carries the world it happens in: between two commands the project's declared defaults
   and the machine file may have been edited arbitrarily *)
Inductive event :=
| Ran (w : world) (c : cmd)                (* a command that ran to its end *)
| Killed (w : world) (c : cmd) (k : nat)   (* a command killed on entry to its (k+1)-th mutation *)
| Damage (f : file) (torn : bool).         (* NOT meson: external damage (truncate / delete a file); used only to
                                              validate the recovery decisions on states meson itself never produces *)
Definition step (e : env) (st : fs) (ev : event) : fs :=
  match ev with
  | Ran w c => exec e w c st
  | Killed w c k => crash e w k c st
  | Damage f t => apply_op (if t then OOpen f else del_op f) st
  end.
Definition meson_event (ev : event) : bool := match ev with Damage _ _ => false | _ => true end.
Definition run_history (e : env) (h : list event) : fs := fold_left (step e) h empty_fs.

(* the files whose readability the follow-up must re-establish *)
Definition state_files (e : env) : list file :=
  [Core; BuildDat; Cmd; Ninja] ++ map Dat (dats e) ++ map Info (infos e).
Definition temp_files : list file := [CoreTmp; CmdTmp; NinjaTmp; InfoTmp].
Definition whole (x : fstate) : bool := match x with Whole _ => true | _ => false end.
