(* Extraction of the C17 model.  Only the ExtrOcamlBasic directives are used. *)
From Coq Require Extraction.
From Coq Require Import ExtrOcamlBasic.
From MV Require Import Rewrite.Entry.
Extraction "../extract/C17/model.ml" Rewrite.Entry.run.
